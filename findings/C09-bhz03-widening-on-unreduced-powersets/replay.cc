#include "ppl.hh"
#include <iostream>
using namespace Parma_Polyhedra_Library;
using namespace Parma_Polyhedra_Library::IO_Operators;
typedef Pointset_Powerset<C_Polyhedron> PS;
C_Polyhedron sq(int i) { Variable X(0), Y(1); C_Polyhedron s(2); s.add_constraint(X >= 4*i); s.add_constraint(X <= 4*i+2); s.add_constraint(Y >= 0); s.add_constraint(Y <= 2); return s; }
int main() {
  Variable X(0), Y(1);
  C_Polyhedron hex(2);       // a polygon strictly inside sq(0): a redundant disjunct
  hex.add_constraint(2*X >= 1); hex.add_constraint(2*X <= 3); hex.add_constraint(2*Y >= 1); hex.add_constraint(2*Y <= 3);
  hex.add_constraint(X + Y <= 2); hex.add_constraint(X + Y >= 1);
  PS y1(2, EMPTY); y1.add_disjunct(sq(0));
  PS y2(2, EMPTY); y2.add_disjunct(sq(0)); y2.add_disjunct(hex);
  std::cout << "y2 has " << y2.size() << " disjuncts; y1 and y2 denote the same set: " << y1.geometrically_equals(y2) << "\n";
  PS xa(2, EMPTY); xa.add_disjunct(sq(0)); xa.add_disjunct(sq(1));
  PS xb(xa);
  xa.BHZ03_widening_assign<BHRZ03_Certificate>(y1, widen_fun_ref(&Polyhedron::H79_widening_assign));
  xb.BHZ03_widening_assign<BHRZ03_Certificate>(y2, widen_fun_ref(&Polyhedron::H79_widening_assign));
  std::cout << "widening with y1: " << xa << "\nwidening with y2: " << xb << "\n";
  bool same = xa.geometrically_equals(xb);
  std::cout << (same ? "PASS" : "FAIL: the result depends on a redundant disjunct of y") << "\n";
  return same ? 0 : 1;
}
