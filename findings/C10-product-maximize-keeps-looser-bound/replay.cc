#include "ppl.hh"
#include <iostream>
using namespace Parma_Polyhedra_Library;
typedef Domain_Product<C_Polyhedron, Rational_Box>::Direct_Product DP;
int main() {
  Variable x(0), y(1);
  DP dp(2);
  dp.refine_with_constraint(x + y <= 5);
  dp.refine_with_constraint(x - y <= 5);      // the polyhedron knows x <= 5
  dp.refine_with_constraint(x <= 7);          // the box only knows x <= 7
  dp.refine_with_constraint(x >= -7);
  dp.refine_with_constraint(x + y >= -5);
  dp.refine_with_constraint(x - y >= -5);     // the polyhedron knows x >= -5
  Coefficient n, d; bool m;
  int bad = 0;
  bool r = dp.maximize(x, n, d, m);
  std::cout << "maximize(x): " << r << " " << n << "/" << d << " maximum=" << m << "   (component suprema 5 and 7; the intersection has sup 5)\n";
  if (!(r && n == 5*d)) ++bad;
  r = dp.minimize(x, n, d, m);
  std::cout << "minimize(x): " << r << " " << n << "/" << d << " minimum=" << m << "   (component infima -5 and -7; the intersection has inf -5)\n";
  if (!(r && n == -5*d)) ++bad;
  Generator g(point());
  r = dp.maximize(x, n, d, m, g);
  std::cout << "maximize(x, .., g): " << n << "/" << d << "\n";
  if (!(r && n == 5*d)) ++bad;
  r = dp.minimize(x, n, d, m, g);
  std::cout << "minimize(x, .., g): " << n << "/" << d << "\n";
  if (!(r && n == -5*d)) ++bad;
  std::cout << (bad ? "FAIL: the product reports the looser of the two bounds, and as attained" : "PASS") << "\n";
  return bad != 0;
}
