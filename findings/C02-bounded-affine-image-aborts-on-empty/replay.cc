// Replay for R2.1: Polyhedron::bounded_affine_image calls refine_no_check()
// right after generalized_affine_image().  When the receiver is empty but not
// yet MARKED empty (unsatisfiable constraints, never minimized), the latter
// discovers the emptiness and marks it; refine_no_check() then runs on an
// empty polyhedron, which its precondition forbids: in a release build the
// library calls ppl_unreachable() and aborts instead of returning the empty set.
#include "ppl.hh"
#include <iostream>
using namespace Parma_Polyhedra_Library;
int main() {
  Variable A(0), B(1);
  C_Polyhedron ph(2);
  ph.add_constraint(A >= 1);
  ph.add_constraint(A <= 0);      // empty, but not marked as such
  ph.bounded_affine_image(A, B, B + 1);   // lb does not mention A: first branch
  C_Polyhedron ph2(2);
  ph2.add_constraint(B >= 1);
  ph2.add_constraint(B <= 0);
  ph2.bounded_affine_image(A, A + B, Linear_Expression(3));  // ub does not mention A: second branch
  const bool ok = ph.is_empty() && ph2.is_empty();
  std::cout << (ok ? "PASS" : "FAIL") << std::endl;
  return ok ? 0 : 1;
}
