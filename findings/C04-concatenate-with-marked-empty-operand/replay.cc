#include "ppl.hh"
#include <iostream>
using namespace Parma_Polyhedra_Library;
using namespace Parma_Polyhedra_Library::IO_Operators;
template <typename D> bool probe(const char* name) {
  bool ok = true;
  {
    D x(1), y(1, EMPTY);
    x.concatenate_assign(y);
    std::cout << name << ": universe(1) x empty(1): dimension " << x.space_dimension() << ", is_empty " << x.is_empty() << "\n";
    ok = ok && x.is_empty();
  }
  {
    Variable A(0);
    D x(1), y(1);
    y.add_constraint(A >= 1); y.add_constraint(A <= 0);   // empty, but possibly not yet detected
    x.concatenate_assign(y);
    std::cout << name << ": universe(1) x {A >= 1, A <= 0}: is_empty " << x.is_empty() << "\n";
    ok = ok && x.is_empty();
  }
  return ok;
}
int main() {
  bool ok = probe<C_Polyhedron>("C_Polyhedron");
  ok = probe<BD_Shape<mpq_class> >("BD_Shape") && ok;
  ok = probe<Octagonal_Shape<mpq_class> >("Octagonal_Shape") && ok;
  ok = probe<Rational_Box>("Box") && ok;

  std::cout << (ok ? "PASS" : "FAIL: the concatenation with an empty element is not empty") << "\n";
  return ok ? 0 : 1;
}
