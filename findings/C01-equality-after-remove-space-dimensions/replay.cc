// Replay for C01 / R1.6: Linear_System::remove_space_dimensions() removes coefficients from every
// row but leaves the `sorted' claim standing.  operator== on two minimized polyhedra with the
// same number of generators and no lines sorts both generator systems (skipped when `sorted' is
// claimed) and compares them position by position: equal polyhedra compare different.
#include <ppl.hh>
#include <iostream>
using namespace Parma_Polyhedra_Library;
using namespace Parma_Polyhedra_Library::IO_Operators;
int main() {
  Variable A(0), B(1), C(2), D(3);
  Generator_System gs;
  gs.insert(point(2*A - B - 2*C - 2*D));
  gs.insert(point(-3*A + B + 3*C + 3*D));
  gs.insert(point(A - B + 3*C + 3*D));
  gs.insert(ray(2*A + 2*B - C - 2*D));
  C_Polyhedron p(gs);
  (void) p.minimized_generators();
  C_Polyhedron q = p;
  q.remove_space_dimensions(Variables_Set(C));
  // The same set, built directly from the projected generators.
  Generator_System gs2;
  gs2.insert(point(2*A - B - 2*C));
  gs2.insert(point(-3*A + B + 3*C));
  gs2.insert(point(A - B + 3*C));
  gs2.insert(ray(2*A + 2*B - 2*C));
  C_Polyhedron r(3, EMPTY);
  r.add_generators(gs2);
  (void) q.minimized_generators();
  (void) r.minimized_generators();
  const bool eq = (q == r);
  const bool both = q.contains(r) && r.contains(q);
  std::cout << "q = " << q << "\nr = " << r << "\nq == r: " << eq << "   mutual containment: " << both << std::endl;
  if (eq != both) { std::cout << "FAIL: operator== disagrees with mutual containment\n"; return 1; }
  std::cout << "PASS\n";
  return 0;
}
