// Second replay for C01 / R1.6: the same stale `sorted' claim through
// Linear_System::set_space_dimension_no_ok() (remove_higher_space_dimensions).
#include <ppl.hh>
#include <iostream>
#include <cstdlib>
using namespace Parma_Polyhedra_Library;
using namespace Parma_Polyhedra_Library::IO_Operators;
static int rnd(int lo, int hi) { return lo + rand() % (hi - lo + 1); }
int main() {
  // Deterministic search (fixed seed) for a pair that contains each other but compares different.
  srand(1);
  for (int it = 0; it < 3000; ++it) {
    int dim = rnd(3, 4);
    Generator_System gs;
    int np = rnd(2, 5);
    for (int k = 0; k < np; ++k) { Linear_Expression e; for (int d = 0; d < dim; ++d) e += rnd(-3, 3) * Variable(d); gs.insert(point(e)); }
    C_Polyhedron p(gs);
    (void) p.minimized_generators();
    C_Polyhedron q = p;
    q.remove_higher_space_dimensions(dim - 1);
    Generator_System gs2;
    for (Generator_System::const_iterator i = gs.begin(); i != gs.end(); ++i) {
      Linear_Expression e;
      for (int d = 0; d < dim - 1; ++d) e += i->coefficient(Variable(d)) * Variable(d);
      gs2.insert(point(e, i->divisor()));
    }
    C_Polyhedron r(dim - 1, EMPTY); r.add_generators(gs2);
    (void) q.minimized_generators(); (void) r.minimized_generators();
    if ((q == r) != (q.contains(r) && r.contains(q))) {
      std::cout << "FAIL at case " << it << ": q = " << q << ", r = " << r << " contain each other but q == r is " << (q == r) << "\n";
      return 1;
    }
  }
  std::cout << "PASS\n";
  return 0;
}
