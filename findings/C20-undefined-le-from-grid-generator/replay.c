/* Replay for R20.6: ppl_new_Linear_Expression_from_Grid_Generator is declared
   and documented in ppl_c.h.  Before the fix this program does not link
   (undefined reference); after it, it prints PASS. */
#include "ppl_c.h"
#include <stdio.h>
int main(void) {
  ppl_Linear_Expression_t le, le2;
  ppl_Grid_Generator_t g;
  ppl_Coefficient_t c;
  mpz_t z;
  int ok = 1;
  ppl_initialize();
  mpz_init(z);
  ppl_new_Coefficient(&c);
  ppl_new_Linear_Expression_with_dimension(&le, 2);
  mpz_set_si(z, 2); ppl_assign_Coefficient_from_mpz_t(c, z);
  ppl_Linear_Expression_add_to_coefficient(le, 0, c);
  mpz_set_si(z, 3); ppl_assign_Coefficient_from_mpz_t(c, z);
  ppl_Linear_Expression_add_to_coefficient(le, 1, c);
  mpz_set_si(z, 1); ppl_assign_Coefficient_from_mpz_t(c, z);
  if (ppl_new_Grid_Generator(&g, le, PPL_GRID_GENERATOR_TYPE_POINT, c) < 0) return 2;
  if (ppl_new_Linear_Expression_from_Grid_Generator(&le2, g) < 0) return 3;
  ppl_Linear_Expression_coefficient(le2, 0, c); ppl_Coefficient_to_mpz_t(c, z);
  if (mpz_cmp_si(z, 2) != 0) ok = 0;
  ppl_Linear_Expression_coefficient(le2, 1, c); ppl_Coefficient_to_mpz_t(c, z);
  if (mpz_cmp_si(z, 3) != 0) ok = 0;
  puts(ok ? "PASS" : "FAIL");
  ppl_finalize();
  return ok ? 0 : 1;
}
