#include "ppl.hh"
#include <iostream>
#include <csignal>
#include <unistd.h>
using namespace Parma_Polyhedra_Library;
void on_alarm(int) {
  const char msg[] = "FAIL: PIP_Problem::solve() with PIVOT_ROW_STRATEGY_MAX_COLUMN did not answer in 20 s\n";
  write(1, msg, sizeof(msg) - 1);
  _exit(1);
}
int main() {
  Variable A(0), B(1), C(2), D(3);
  Constraint_System cs;
  cs.insert(3*A + 2*D >= -5);
  cs.insert(3*B - C - 2*D >= -2);
  cs.insert(A - 2*B - C + 3*D >= 1);
  cs.insert(-2*A + B - 3*C - 2*D >= 4);
  cs.insert(-A + B - C >= 0);
  cs.insert(-2*A - B + C + D >= -2);
  Variables_Set params(C, D);
  {
    PIP_Problem pip(4, cs.begin(), cs.end(), params);
    PIP_Problem_Status s = pip.solve();
    std::cout << "default pivot row strategy: " << (s == OPTIMIZED_PIP_PROBLEM ? "OPTIMIZED" : "UNFEASIBLE") << std::endl;
  }
  signal(SIGALRM, on_alarm);
  alarm(20);
  PIP_Problem pip(4, cs.begin(), cs.end(), params);
  pip.set_control_parameter(PIP_Problem::PIVOT_ROW_STRATEGY_MAX_COLUMN);
  PIP_Problem_Status s = pip.solve();
  alarm(0);
  std::cout << "max column strategy       : " << (s == OPTIMIZED_PIP_PROBLEM ? "OPTIMIZED" : "UNFEASIBLE") << "\nPASS" << std::endl;
  return 0;
}
