#include "ppl.hh"
#include <iostream>
#include <random>
#include <csignal>
#include <unistd.h>
#include <sys/wait.h>
using namespace Parma_Polyhedra_Library;
using namespace Parma_Polyhedra_Library::IO_Operators;
int main() {
  std::mt19937 rng(4242);
  auto R = [&](int a, int b) { return std::uniform_int_distribution<int>(a, b)(rng); };
  for (int it = 0; it < 4000; ++it) {
    int nv = R(1, 4), np = R(1, 3), d = nv + np;
    Constraint_System cs;
    int nc = R(1, 6);
    for (int k = 0; k < nc; ++k) {
      Linear_Expression e;
      for (int i = 0; i < d; ++i) e += R(-3, 3) * Variable(i);
      e += R(-5, 5);
      cs.insert(e >= 0);
    }
    Variables_Set params;
    for (int i = nv; i < d; ++i) params.insert(Variable(i));
    pid_t pid = fork();
    if (pid == 0) {
      alarm(2);
      PIP_Problem pip(d, cs.begin(), cs.end(), params);
      pip.set_control_parameter(PIP_Problem::PIVOT_ROW_STRATEGY_MAX_COLUMN);
      (void) pip.solve();
      _exit(0);
    }
    int st; waitpid(pid, &st, 0);
    if (!(WIFEXITED(st) && WEXITSTATUS(st) == 0))
      std::cout << "HANG " << it << " nv=" << nv << " np=" << np << " : " << cs << std::endl;
  }
  return 0;
}
