#include "ppl.hh"
#include <iostream>
#include <stdexcept>
using namespace Parma_Polyhedra_Library;
template <typename D> bool probe(const char* name) {
  Variable A(0);
  D d(1);
  try { d.expand_space_dimension(A, D::max_space_dimension()); std::cout << name << ": no exception\n"; return false; }
  catch (const std::length_error&) { std::cout << name << ": std::length_error\n"; return true; }
  catch (const std::invalid_argument&) { std::cout << name << ": std::invalid_argument (documented: std::length_error)\n"; return false; }
}
int main() {
  bool ok = probe<C_Polyhedron>("C_Polyhedron");
  ok = probe<BD_Shape<mpq_class> >("BD_Shape") && ok;
  ok = probe<Octagonal_Shape<mpq_class> >("Octagonal_Shape") && ok;
  ok = probe<Rational_Box>("Box") && ok;
  std::cout << (ok ? "PASS" : "FAIL") << "\n";
  return ok ? 0 : 1;
}
