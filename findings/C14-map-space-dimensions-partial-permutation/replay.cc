// Replay for R14.1: Polyhedron/Grid::map_space_dimensions(pfunc) in the
// "pfunc is a permutation" branch applies the cycles one at a time and only
// then meets a dimension on which pfunc is undefined: the call is rejected
// with std::invalid_argument ("pfunc is inconsistent") AFTER earlier cycles
// have already been applied to the receiver.
#include "ppl.hh"
#include <iostream>
#include <stdexcept>
using namespace Parma_Polyhedra_Library;
using namespace Parma_Polyhedra_Library::IO_Operators;
template <typename D>
int run(const char* name, D d) {
  const D before(d);
  Partial_Function pf;
  pf.insert(2, 1);       // dimensions 1 and 2 form a cycle ...
  pf.insert(1, 2);
  // ... and dimension 0 is not mapped although max_in_codomain()+1 == 3:
  // the codomain is not {0,1,2}, so pfunc is ill-formed.
  bool threw = false;
  try { d.map_space_dimensions(pf); }
  catch (const std::invalid_argument&) { threw = true; }
  if (!threw) { std::cout << name << ": ill-formed pfunc was accepted\n"; return 0; }
  if (!(d == before)) {
    std::cout << name << ": rejected call changed the receiver\n";
    return 1;
  }
  return 0;
}
int main() {
  Variable A(0), B(1), C(2);
  int bad = 0;
  { C_Polyhedron p(3); p.add_constraint(A >= 0); p.add_constraint(B >= 1); p.add_constraint(C >= 2); bad += run("C_Polyhedron", p); }
  { Grid g(3); g.add_congruence((B %= 0) / 2); g.add_congruence((C %= 1) / 3); bad += run("Grid", g); }
  std::cout << (bad ? "FAIL" : "PASS") << std::endl;
  return bad ? 1 : 0;
}
