// Replay for R14.2: Watchdog / Threshold_Watcher allocate their handler in the
// mem-initialiser list and then throw std::invalid_argument from the
// constructor body: the destructor never runs and the handler leaks.
// Counts live heap blocks around the rejected constructor calls.
#include "ppl.hh"
#include <cstdio>
#include <cstdlib>
#include <new>
#include <stdexcept>
static long live = 0;
void* operator new(std::size_t n) { void* p = std::malloc(n ? n : 1); if (!p) throw std::bad_alloc(); ++live; return p; }
void operator delete(void* p) noexcept { if (p) { --live; std::free(p); } }
void operator delete(void* p, std::size_t) noexcept { if (p) { --live; std::free(p); } }
using namespace Parma_Polyhedra_Library;
static void action() {}
typedef Threshold_Watcher<Weightwatch_Traits> Weightwatch;
int main() {
  int bad = 0;
  {
    const long before = live;
    for (int i = 0; i < 5; ++i) {
      try { Watchdog w(0, action); } catch (const std::invalid_argument&) { }
    }
    std::printf("Watchdog(0, f) rejected 5 times: %ld block(s) leaked\n", live - before);
    if (live != before) ++bad;
  }
  {
    { Weightwatch warm_up(1000, action); }   // one-time internal allocations happen here
    // A delta of 2^63 or more wraps around: the threshold counts as already reached.
    const Weightwatch_Traits::Delta too_far = (Weightwatch_Traits::Delta(1) << 63) + 5;
    const long before = live;
    for (int i = 0; i < 5; ++i) {
      try { Weightwatch ww(too_far, action); std::puts("  (not rejected)"); } catch (const std::invalid_argument&) { }
    }
    std::printf("Threshold_Watcher(0, f) rejected 5 times: %ld block(s) leaked\n", live - before);
    if (live != before) ++bad;
  }
  std::puts(bad ? "FAIL" : "PASS");
  return bad ? 1 : 0;
}
