#include "ppl.hh"
#include <iostream>
#include <new>
using namespace Parma_Polyhedra_Library;
typedef Checked_Number<mpz_class, Extended_Number_Policy> EZ;
int main() {
  int bad = 0;
  double vals[] = { 2.5, 0.25, -2.5, -0.25, 3.0, 7.75 };
  Rounding_Dir dirs[] = { ROUND_DOWN, ROUND_UP };
  for (double d : vals) for (Rounding_Dir dir : dirs) {
    alignas(EZ) unsigned char buf[sizeof(EZ)];
    EZ* p = reinterpret_cast<EZ*>(buf);
    Result rc = construct(*p, d, dir);
    EZ a; Result ra = assign_r(a, d, dir);
    double stored = raw_value(*p).get_d();
    // stored ? exact : sign of stored - d
    int c = (stored > d) - (stored < d);
    bool ok = (dir == ROUND_UP ? c >= 0 : c <= 0);
    Result_Relation rel = result_relation(rc);
    if (c > 0 && !(rel == VR_LT || rel == VR_LE)) ok = false;
    if (c < 0 && !(rel == VR_GT || rel == VR_GE)) ok = false;
    if (c == 0 && !(rel == VR_EQ || rel == VR_LE || rel == VR_GE)) ok = false;
    std::cout << "construct(" << d << (dir == ROUND_UP ? ", UP" : ", DOWN") << ") stores " << *p << " relation " << rel
              << " ; assign_r stores " << a << " relation " << result_relation(ra) << (ok ? "" : "   <-- wrong") << "\n";
    if (!ok) ++bad;
    p->~EZ();
  }
  std::cout << (bad ? "FAIL" : "PASS") << " (" << bad << " wrong)\n";
  return bad != 0;
}
