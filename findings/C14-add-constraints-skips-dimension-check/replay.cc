#include "ppl.hh"
#include <iostream>
#include <stdexcept>
using namespace Parma_Polyhedra_Library;
template <typename D> bool probe(const char* name) {
  Variable E(4);
  Constraint_System cs;            // dimension 5, tautologies only
  cs.insert(0*E >= -1);
  Congruence_System cgs;           // dimension 5, no element that constrains anything
  cgs.insert((0*E %= 0) / 1);
  bool ok = true;
  {
    D d(2);
    try { d.add_constraints(cs); std::cout << name << "(2).add_constraints(cs of dimension " << cs.space_dimension() << "): no exception\n"; ok = false; }
    catch (const std::invalid_argument&) { std::cout << name << "(2).add_constraints(cs of dimension 5): std::invalid_argument\n"; }
  }
  {
    D d(2);
    try { d.add_congruences(cgs); std::cout << name << "(2).add_congruences(cgs of dimension " << cgs.space_dimension() << "): no exception\n"; ok = false; }
    catch (const std::invalid_argument&) { std::cout << name << "(2).add_congruences(cgs of dimension 5): std::invalid_argument\n"; }
  }
  {
    D d(2);
    try { d.refine_with_constraints(cs); std::cout << name << "(2).refine_with_constraints(cs of dimension 5): no exception\n"; ok = false; }
    catch (const std::invalid_argument&) { std::cout << name << "(2).refine_with_constraints(cs of dimension 5): std::invalid_argument\n"; }
  }
  return ok;
}
int main() {
  bool ok = probe<C_Polyhedron>("C_Polyhedron");
  ok = probe<BD_Shape<mpq_class> >("BD_Shape") && ok;
  ok = probe<Octagonal_Shape<mpq_class> >("Octagonal_Shape") && ok;
  ok = probe<Rational_Box>("Box") && ok;
  std::cout << (ok ? "PASS" : "FAIL: a dimension-incompatible system was accepted") << "\n";
  return ok ? 0 : 1;
}
