#include "ppl.hh"
#include <iostream>
#include <random>
#include <cstdlib>
using namespace Parma_Polyhedra_Library;
using namespace Parma_Polyhedra_Library::IO_Operators;
std::mt19937 rng(12345);
int R(int a, int b) { return std::uniform_int_distribution<int>(a, b)(rng); }
Constraint rc(int d) {
  Linear_Expression e;
  for (int i = 0; i < d; ++i) e += R(-3, 3) * Variable(i);
  e += R(-7, 7);
  return R(0, 5) == 0 ? Constraint(e == 0) : Constraint(e >= 0);
}
int main() {
  int bad = 0, tried = 0, hit = 0;
  for (int it = 0; it < 20000; ++it) {
    int d = R(2, 4);
    C_Polyhedron p(d);
    for (int i = 0; i < d; ++i) { p.add_constraint(2*Variable(i) >= R(-5,5)); p.add_constraint(3*Variable(i) <= R(6, 20)); }
    int k = R(0, 3);
    for (int i = 0; i < k; ++i) p.add_constraint(rc(d));
    if (p.is_empty()) continue;
    (void) p.minimized_generators(); (void) p.minimized_constraints();
    int np = R(1, 3);
    for (int i = 0; i < np; ++i) p.add_constraint(rc(d));   // pending
    C_Polyhedron before(p);
    if (getenv("NODROP") == 0) p.drop_some_non_integer_points(ANY_COMPLEXITY);
    C_Polyhedron ref(p.constraints());
    ++tried;
    // follow-up operations on both
    int nops = R(1, 4);
    bool same = true;
    for (int j = 0; j < nops && same; ++j) {
      int op = R(0, 7);
      C_Polyhedron q(d);
      for (int i = 0; i < 2; ++i) q.add_constraint(rc(d));
      switch (op) {
      case 0: p.intersection_assign(q); ref.intersection_assign(q); break;
      case 1: p.upper_bound_assign(q); ref.upper_bound_assign(q); break;
      case 2: { Constraint c = rc(d); p.add_constraint(c); ref.add_constraint(c); } break;
      case 3: same = (p == ref); if (!same) std::cout << "op== " ; break;
      case 4: { bool a = p.contains(q), b = ref.contains(q); same = (a == b); if (!same) std::cout << "op" << op << " "; } break;
      case 5: (void) p.minimized_constraints(); (void) ref.minimized_constraints(); break;
      case 6: { bool a = p.is_disjoint_from(q), b = ref.is_disjoint_from(q); same = (a == b); if (!same) std::cout << "op" << op << " "; } break;
      case 7: p.affine_image(Variable(0), Variable(0) + Variable(1) + 1); ref.affine_image(Variable(0), Variable(0) + Variable(1) + 1); break;
      }
    }
    if (same) same = p.contains(ref) && ref.contains(p) && (p == ref) && (ref == p);
    if (!same) { ++bad; if (bad < 4) std::cout << "DIFF it=" << it << " p=" << p.constraints() << " ref=" << ref.constraints() << "\n"; }
  }
  std::cout << "tried " << tried << " bad " << bad << "\n";
  return bad != 0;
}
