#include "ppl.hh"
#include <iostream>
using namespace Parma_Polyhedra_Library;
using namespace Parma_Polyhedra_Library::IO_Operators;
int main() {
  Variable A(0), B(1);
  C_Polyhedron p(2);
  p.add_constraint(2*A >= 1); p.add_constraint(A <= 3);
  p.add_constraint(B >= 0); p.add_constraint(B <= 3);
  (void) p.minimized_generators();
  (void) p.minimized_constraints();
  p.add_constraint(2*B <= 5);                 // stays pending
  p.drop_some_non_integer_points(ANY_COMPLEXITY);   // tightens to 1 <= A <= 3, 0 <= B <= 2
  C_Polyhedron ref(p.constraints());          // the same set in a fresh object
  // q: the strip 0 <= A <= 3/4.  It meets the original p (A >= 1/2) but not the tightened one.
  C_Polyhedron q(2);
  q.add_constraint(A >= 0); q.add_constraint(4*A <= 3);
  bool d1 = p.is_disjoint_from(q);
  bool d2 = ref.is_disjoint_from(q);
  std::cout << "p   = " << p.constraints() << "\nref = " << ref.constraints() << "\n";
  std::cout << "p.is_disjoint_from(q) = " << d1 << ", ref.is_disjoint_from(q) = " << d2 << "\n";
  bool ok = (d1 == d2);
  std::cout << (ok ? "PASS" : "FAIL: one polyhedron, two answers") << "\n";
  return ok ? 0 : 1;
}
