#include "ppl.hh"
#include <iostream>
using namespace Parma_Polyhedra_Library;
int main() {
  Variable x(0);
  int bad = 0;
  {
    NNC_Polyhedron ph(1);
    ph.add_constraint(2*x > 1); ph.add_constraint(x < 1);      // 1/2 < x < 1: no integer
    bool r = ph.contains_integer_point();
    std::cout << "{2x > 1, x < 1}.contains_integer_point() = " << r << " (expected 0)\n";
    bad += r;
  }
  {
    NNC_Polyhedron ph(1);
    ph.add_constraint(2*x > 3); ph.add_constraint(x < 2);      // 3/2 < x < 2: no integer
    bool r = ph.contains_integer_point();
    std::cout << "{2x > 3, x < 2}.contains_integer_point() = " << r << " (expected 0)\n";
    bad += r;
  }
  {
    NNC_Polyhedron ph(1);
    ph.add_constraint(2*x > 1); ph.add_constraint(x < 2);      // 1/2 < x < 2: contains 1
    bool r = ph.contains_integer_point();
    std::cout << "{2x > 1, x < 2}.contains_integer_point() = " << r << " (expected 1)\n";
    bad += !r;
  }
  {
    NNC_Polyhedron ph(1);
    ph.add_constraint(2*x > -3); ph.add_constraint(x < -1);    // -3/2 < x < -1: no integer
    bool r = ph.contains_integer_point();
    std::cout << "{2x > -3, x < -1}.contains_integer_point() = " << r << " (expected 0)\n";
    bad += r;
  }
  std::cout << (bad ? "FAIL" : "PASS") << "\n";
  return bad != 0;
}
