// Replay for R19.6: when the timer signal arrives while in_critical_section is
// set, handle_timeout() calls reschedule(), whose set_timer() overwrites
// last_time_requested (the interval that has just elapsed) without adding it
// to time_so_far.  The internal clock then lags by that interval and every
// watchdog behind the head fires that much LATE.
// Watchdogs A (1.0 s) and B (2.0 s); around A's deadline the program keeps
// creating and destroying a far-future watchdog, so that the signal is likely
// to land inside a critical section.  PASS iff B fires less than 0.5 s after
// its nominal distance from A (1.0 s).  Several rounds are tried because the
// signal must hit the (short) critical section.
#include "ppl.hh"
#include <cstdio>
#include <ctime>
using namespace Parma_Polyhedra_Library;
static volatile bool fired_a, fired_b;
static volatile double at_a, at_b;
static double t0;
static double cpu() { return double(std::clock()) / CLOCKS_PER_SEC; }
static void fa() { fired_a = true; at_a = cpu() - t0; }
static void fb() { fired_b = true; at_b = cpu() - t0; }
static void fc() { }
int main() {
  int late = 0;
  const int rounds = 6;
  for (int r = 0; r < rounds; ++r) {
    fired_a = fired_b = false;
    t0 = cpu();
    {
      Watchdog a(100, fa);
      Watchdog b(200, fb);
      // Busy wait, and keep entering/leaving critical sections until A has fired.
      while (!fired_a && cpu() - t0 < 5.0) {
        Watchdog c(100000, fc);
      }
      volatile unsigned long x = 0;
      while (!fired_b && cpu() - t0 < 6.0) { ++x; }
    }
    const double gap = at_b - at_a;
    std::printf("round %d: A at %.2f s, B at %.2f s, gap %.2f s (nominal 1.00)\n", r, at_a, at_b, gap);
    if (!fired_b || gap > 1.5) ++late;
  }
  std::printf("%d of %d rounds fired B late\n", late, rounds);
  std::puts(late ? "FAIL" : "PASS");
  return late ? 1 : 0;
}
