// Replay for R5.3: Grid::Grid(const Grid&) lacks the marked_empty case that
// Grid::operator= has.  An empty grid whose congruence system does not yet
// show the emptiness (status EMPTY set by an operation that proved it) is
// copied with status EMPTY but WITHOUT the canonical false congruence that
// set_empty() installs; congruences() returns con_sys directly when marked
// empty, so the copy reports different congruences than the original value.
#include "ppl.hh"
#include <iostream>
using namespace Parma_Polyhedra_Library;
using namespace Parma_Polyhedra_Library::IO_Operators;
int main() {
  Variable A(0), B(1);
  Grid empty(2, EMPTY);
  Grid copy(empty);            // copy constructor
  Grid assigned(2);
  assigned = empty;            // operator=
  int bad = 0;
  Grid from_copy(copy.congruences());
  Grid from_assigned(assigned.congruences());
  std::cout << "original:  " << empty.congruences() << "\n";
  std::cout << "copy:      " << copy.congruences() << "\n";
  std::cout << "assigned:  " << assigned.congruences() << "\n";
  if (!copy.is_empty() || !from_copy.is_empty()) { std::cout << "copy's congruences do not denote the empty set\n"; ++bad; }
  if (!assigned.is_empty() || !from_assigned.is_empty()) { std::cout << "assigned's congruences do not denote the empty set\n"; ++bad; }
  std::cout << (bad ? "FAIL" : "PASS") << std::endl;
  return bad ? 1 : 0;
}
