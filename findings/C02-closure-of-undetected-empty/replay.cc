#include "ppl.hh"
#include <iostream>
using namespace Parma_Polyhedra_Library;
using namespace Parma_Polyhedra_Library::IO_Operators;
int main() {
  Variable x(0);
  int bad = 0;
  {
    NNC_Polyhedron p(1);
    p.add_constraint(x > 0); p.add_constraint(x <= 0);        // empty, not detected yet
    p.topological_closure_assign();
    bool e = p.is_empty();
    std::cout << "closure of the empty {x > 0, x <= 0}: " << p.constraints() << "  is_empty() = " << e << " (expected 1)\n";
    if (!e) ++bad;
  }
  {
    NNC_Polyhedron p(1);
    p.add_constraint(x > 0); p.add_constraint(x <= 0);
    C_Polyhedron c(p);
    bool e = c.is_empty();
    std::cout << "C_Polyhedron(empty NNC {x > 0, x <= 0}): " << c.constraints() << "  is_empty() = " << e << " (expected 1)\n";
    if (!e) ++bad;
  }
  std::cout << (bad ? "FAIL" : "PASS") << "\n";
  return bad != 0;
}
