#include <ppl.hh>
#include <iostream>
using namespace Parma_Polyhedra_Library;
using namespace Parma_Polyhedra_Library::IO_Operators;
int main() {
  Variable A(0);
  // An empty grid whose emptiness has not been detected yet.
  Grid lazy(1);
  lazy.add_constraint(A == 0);
  lazy.add_constraint(A == 1);
  // The same set, known to be empty.
  Grid known(1, EMPTY);
  Grid_Generator_System gs1; gs1.insert(grid_point(3*A));
  Grid_Generator_System gs2; gs2.insert(grid_point(3*A));
  lazy.add_recycled_grid_generators(gs1);
  known.add_recycled_grid_generators(gs2);
  std::cout << "lazy : " << lazy << "\nknown: " << known << std::endl;
  bool ok1 = lazy.OK();
  if (lazy != known || !ok1) { std::cout << "FAIL: adding the same generators to the same (empty) set gives different results" << (ok1 ? "" : " (and a broken object)") << "\n"; return 1; }
  std::cout << "PASS\n"; return 0;
}
