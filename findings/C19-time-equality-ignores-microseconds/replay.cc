// Replay for R19.5: Implementation::Watchdog::Time::operator== compares
// y.microseconds() with itself, so two times in the same second are "equal".
// handle_timeout() uses `deadline <= time_so_far` (i.e. `<` or `==`) to decide
// which further watchdogs have expired: a watchdog whose deadline lies in the
// same second as an earlier one fires together with it, i.e. EARLY.
// Two watchdogs at 1.10 s and 1.90 s of CPU time; PASS iff the second fires
// clearly later than the first (nominally 0.80 s later; the profiling timer of
// this sandbox is too coarse to compare against absolute deadlines, so the
// check only requires a gap of 0.30 s: with the defect the gap is 0.00 s).
#include "ppl.hh"
#include <cstdio>
#include <ctime>
using namespace Parma_Polyhedra_Library;
static volatile bool fired_a = false, fired_b = false;
static volatile double at_a = 0, at_b = 0;
static double cpu() { return double(std::clock()) / CLOCKS_PER_SEC; }
static double t0;
static void fa() { fired_a = true; at_a = cpu() - t0; }
static void fb() { fired_b = true; at_b = cpu() - t0; }
int main() {
  t0 = cpu();
  {
    Watchdog a(110, fa);
    Watchdog b(190, fb);
    volatile unsigned long x = 0;
    while ((!fired_a || !fired_b) && cpu() - t0 < 4.0) { ++x; }
  }
  std::printf("first fired at %.2f s (deadline 1.10), second fired at %.2f s (deadline 1.90)\n", at_a, at_b);
  const bool ok = fired_a && fired_b && (at_b - at_a) >= 0.30;
  std::puts(ok ? "PASS" : "FAIL");
  return ok ? 0 : 1;
}
