#include "ppl.hh"
#include <iostream>
using namespace Parma_Polyhedra_Library;
using namespace Parma_Polyhedra_Library::IO_Operators;
int main() {
  int bad = 0;
  for (int lo = -3; lo <= 3; ++lo) {
    Variable x(0);
    Rational_Box b(1);
    b.add_constraint(x >= lo);
    b.add_constraint(x <= lo + 256);
    Variables_Set vs(x);
    b.wrap_assign(vs, BITS_8, UNSIGNED, OVERFLOW_WRAPS);
    // point lo+100 wraps to (lo+100) mod 256
    int v = ((lo + 100) % 256 + 256) % 256;
    Rational_Box p(1); p.add_constraint(x == v);
    bool ok = b.contains(p);
    std::cout << "[" << lo << "," << lo+256 << "] -> " << b << (ok ? "" : "   LOST x=") ;
    if (!ok) { std::cout << v; ++bad; }
    std::cout << "\n";
  }
  return bad != 0;
}
