// Replay for R20.1: ppl_io_wrap_string has no catch-all, so std::bad_alloc
// thrown while wrapping crosses the extern "C" boundary.  Prints PASS when
// every injected allocation failure is reported as a null result instead.
#include "ppl_c.h"
#include <cstdio>
#include <cstdlib>
#include <new>
static long countdown = -1;
void* operator new(std::size_t n) {
  if (countdown >= 0 && countdown-- == 0) throw std::bad_alloc();
  void* p = std::malloc(n ? n : 1);
  if (!p) throw std::bad_alloc();
  return p;
}
void operator delete(void* p) noexcept { std::free(p); }
void operator delete(void* p, std::size_t) noexcept { std::free(p); }
int main() {
  ppl_initialize();
  const char* text = "a fairly long piece of text that needs to be wrapped on several lines "
                     "because it is wider than the preferred line length given below";
  int escaped = 0, tried = 0;
  for (long k = 0; k < 12; ++k) {
    ++tried;
    countdown = k;
    try {
      char* r = ppl_io_wrap_string(text, 2, 20, 20);
      countdown = -1;
      std::free(r);
    } catch (...) {
      countdown = -1;
      ++escaped;
      std::printf("allocation failure #%ld: C++ exception escaped ppl_io_wrap_string\n", k);
    }
  }
  std::puts(escaped ? "FAIL" : "PASS");
  ppl_finalize();
  return escaped ? 1 : 0;
}
