#include <ppl.hh>
#include <iostream>
using namespace Parma_Polyhedra_Library;
using namespace Parma_Polyhedra_Library::IO_Operators;
int main() {
  std::cout.setf(std::ios::unitbuf);
  Variable A(0), B(1), C(2);
  NNC_Polyhedron ph(3, EMPTY);
  std::cout << "calling on an EMPTY NNC polyhedron...\n";
  ph.generalized_affine_preimage(B, GREATER_THAN, -C + 2, 1);
  std::cout << ph << "\nPASS\n";
  C_Polyhedron ph2(3, EMPTY);
  ph2.generalized_affine_preimage(B, GREATER_OR_EQUAL, -C + 2, 1);
  std::cout << ph2 << "\nPASS2\n";
  return 0;
}
