#include "ppl.hh"
#include <iostream>
using namespace Parma_Polyhedra_Library;
int main() {
  int bad = 0;
  { // size() == row.size(), capacity sufficient: second branch
    Dense_Row d(4);
    for (int i = 0; i < 4; ++i) d[i] = i + 1;
    Sparse_Row s(4);
    s.insert(1, Coefficient(5)); s.insert(3, Coefficient(9));
    d = s;
    std::cout << "equal sizes  : dense after d = s:";
    for (dimension_type i = 0; i < d.size(); ++i) std::cout << " " << d[i];
    std::cout << "   (expected 0 5 0 9)\n";
    if (!(d[0] == 0 && d[1] == 5 && d[2] == 0 && d[3] == 9)) ++bad;
  }
  { // size() > row.size(): first branch
    Dense_Row d(6);
    for (int i = 0; i < 6; ++i) d[i] = i + 1;
    Sparse_Row s(3);
    s.insert(2, Coefficient(7));
    d = s;
    std::cout << "shrinking    : dense after d = s:";
    for (dimension_type i = 0; i < d.size(); ++i) std::cout << " " << d[i];
    std::cout << "   (expected 0 0 7)\n";
    if (!(d.size() == 3 && d[0] == 0 && d[1] == 0 && d[2] == 7)) ++bad;
  }
  std::cout << (bad ? "FAIL" : "PASS") << "\n";
  return bad != 0;
}
