#include <ppl.hh>
#include <iostream>
#include <cstdlib>
#include <unistd.h>
#include <sys/wait.h>
using namespace Parma_Polyhedra_Library;
using namespace Parma_Polyhedra_Library::IO_Operators;
static int rnd(int lo, int hi) { return lo + rand() % (hi - lo + 1); }
static Linear_Expression rexpr(int dim, int maxvars) {
  Linear_Expression e; int used = 0;
  for (int d = 0; d < dim && used < maxvars; ++d) if (rnd(0, 1) == 0) { e += rnd(-2, 2) * Variable(d); ++used; }
  e += rnd(-4, 4); return e;
}
template <typename D> Constraint rcon(int dim);
static Constraint bdcon(int dim) {
  int k = rnd(0, 3);
  Variable a(rnd(0, dim - 1)), b(rnd(0, dim - 1));
  int c = rnd(-4, 6);
  if (k == 0 || a.id() == b.id()) return rnd(0,1) ? Constraint(a <= c) : Constraint(a >= -c);
  if (k == 1) return Constraint(a - b <= c);
  if (k == 2) return Constraint(a - b >= -c);
  return Constraint(a - b == c);
}
template <typename D> D rnd_elem(int dim) {
  D x(dim);
  int n = rnd(0, 4);
  for (int i = 0; i < n; ++i) x.add_constraint(bdcon(dim));
  return x;
}
template <typename D> int run(const char* name, int N, int seed0) {
  int bad = 0;
  for (int it = 0; it < N; ++it) {
    pid_t pid = fork();
    if (pid != 0) { int st = 0; waitpid(pid, &st, 0);
      if (WIFSIGNALED(st)) { std::cout << name << " CRASH it=" << it << " sig " << WTERMSIG(st) << "\n"; ++bad; }
      else if (WEXITSTATUS(st) == 1) ++bad;
      continue; }
    alarm(30);
    srand(seed0 * 7919 + it);
    int dim = rnd(1, 3);
    D x = rnd_elem<D>(dim), y = rnd_elem<D>(dim);
    std::ostringstream log;
    int steps = rnd(1, 6);
    for (int s = 0; s < steps; ++s) {
      int op = rnd(0, 17);
      Variable v(rnd(0, dim - 1));
      Linear_Expression e = rexpr(dim, 2), e2 = rexpr(dim, 2);
      int den = rnd(0, 3) == 0 ? -rnd(1, 2) : rnd(1, 2);
      log << " op" << op;
      try {
      switch (op) {
      case 0: x.add_constraint(bdcon(dim)); break;
      case 1: x.upper_bound_assign(y); break;
      case 2: x.intersection_assign(y); break;
      case 3: x.affine_image(v, e, den); break;
      case 4: x.affine_preimage(v, e, den); break;
      case 5: x.generalized_affine_image(v, rnd(0,1) ? LESS_OR_EQUAL : GREATER_OR_EQUAL, e, den); break;
      case 6: x.generalized_affine_preimage(v, rnd(0,1) ? LESS_OR_EQUAL : GREATER_OR_EQUAL, e, den); break;
      case 7: x.bounded_affine_image(v, e, e2, den); break;
      case 8: x.bounded_affine_preimage(v, e, e2, den); break;
      case 9: x.unconstrain(v); break;
      case 10: (void) x.minimized_constraints(); break;
      case 11: (void) x.is_empty(); break;
      case 12: x.time_elapse_assign(y); break;
      case 13: { D z = x; z.upper_bound_assign(y); z.widening_assign(x); x = z; } break;
      case 14: x.difference_assign(y); break;
      case 15: (void) x.contains(y); (void) y.contains(x); break;
      case 16: x.add_space_dimensions_and_embed(1); x.remove_higher_space_dimensions(dim); break;
      case 17: x.topological_closure_assign(); (void) x.affine_dimension(); break;
      }
      } catch (std::exception& ex) { continue; }
      if (!x.OK() || !y.OK()) { std::cout << name << " NOT-OK it=" << it << " seq" << log.str() << "\n"; _exit(1); }
    }
    _exit(0);
  }
  std::cout << name << ": " << N << " runs, " << bad << " bad\n";
  return bad;
}
int main(int argc, char** argv) {
  std::cout.setf(std::ios::unitbuf);
  int N = argc > 1 ? atoi(argv[1]) : 2000; int seed = argc > 2 ? atoi(argv[2]) : 1;
  int bad = 0;
  bad += run<BD_Shape<mpq_class> >("BD_Shape<mpq>", N, seed);
  bad += run<Octagonal_Shape<mpq_class> >("Octagonal_Shape<mpq>", N, seed);
  bad += run<C_Polyhedron>("C_Polyhedron", N, seed);
  bad += run<Rational_Box>("Rational_Box", N, seed);
  return bad != 0;
}
