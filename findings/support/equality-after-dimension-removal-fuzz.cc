#include <ppl.hh>
#include <iostream>
#include <cstdlib>
using namespace Parma_Polyhedra_Library;
using namespace Parma_Polyhedra_Library::IO_Operators;
static int rnd(int lo, int hi) { return lo + rand() % (hi - lo + 1); }
int main(int argc, char** argv) {
  int N = argc > 1 ? atoi(argv[1]) : 20000; srand(argc > 2 ? atoi(argv[2]) : 1);
  int bad = 0;
  for (int it = 0; it < N && bad < 5; ++it) {
    int dim = rnd(3, 4);
    Generator_System gs;
    int np = rnd(2, 5);
    for (int k = 0; k < np; ++k) { Linear_Expression e; for (int d = 0; d < dim; ++d) e += rnd(-3, 3) * Variable(d); gs.insert(point(e)); }
    if (rnd(0, 2) == 0) { Linear_Expression e; for (int d = 0; d < dim; ++d) e += rnd(-2, 2) * Variable(d); if (!e.all_homogeneous_terms_are_zero()) gs.insert(ray(e)); }
    C_Polyhedron p(gs);
    (void) p.minimized_generators();
    if (rnd(0,1)) (void) p.minimized_constraints();
    Variables_Set vs; vs.insert(Variable(rnd(0, dim - 2)));
    C_Polyhedron q = p;
    q.remove_space_dimensions(vs);
    // reference: rebuild from the projected generators
    Generator_System gs2;
    for (Generator_System::const_iterator i = gs.begin(); i != gs.end(); ++i) {
      Linear_Expression e; int dd = 0;
      for (int d = 0; d < dim; ++d) { if (vs.count(d)) continue; e += i->coefficient(Variable(d)) * Variable(dd); ++dd; }
      if (i->is_point()) gs2.insert(point(e, i->divisor())); else if (!e.all_homogeneous_terms_are_zero()) gs2.insert(ray(e));
    }
    C_Polyhedron r(dim - 1, EMPTY); r.add_generators(gs2);
    int how = rnd(0, 3);
    if (how == 0) { (void) q.minimized_generators(); (void) r.minimized_generators(); }
    else if (how == 1) { (void) q.minimized_generators(); (void) q.minimized_constraints(); (void) r.minimized_constraints(); (void) r.minimized_generators(); }
    else if (how == 2) { Generator_System extra; extra.insert(*gs2.begin()); q.add_generators(extra); (void) q.minimized_generators(); (void) r.minimized_generators(); }
    bool eq = (q == r);
    bool eq2 = q.contains(r) && r.contains(q);
    if (eq != eq2) { ++bad; std::cout << "MISMATCH it=" << it << " how=" << how << " ==:" << eq << " contains-both:" << eq2 << "\n q=" << q << "\n r=" << r << "\n"; }
  }
  std::cout << "bad " << bad << "\n";
  return bad != 0;
}
