// Replay for C17 / R17.2: collective wrapping; the dimension at which the complexity
// threshold is first exceeded is neither translated nor set to the full range.
#include <ppl.hh>
#include <iostream>
using namespace Parma_Polyhedra_Library;
using namespace Parma_Polyhedra_Library::IO_Operators;
int main() {
  Variable A(0), B(1);
  C_Polyhedron ph(2);
  ph.add_constraint(A >= 0); ph.add_constraint(A <= 300);
  ph.add_constraint(B >= 256); ph.add_constraint(B <= 700);
  Variables_Set vars(A, B);
  // A spans 2 quadrants, B spans 2 quadrants: 4 > threshold 2.
  ph.wrap_assign(vars, BITS_8, UNSIGNED, OVERFLOW_WRAPS, 0, 2, false);
  std::cout << "result: " << ph << std::endl;
  // (A,B) = (0,256) is an integer point of the argument; wrapped to 8 bits it is (0,0).
  Generator p = point(0*A + 0*B);
  if (ph.relation_with(p) != Poly_Gen_Relation::subsumes()) {
    std::cout << "FAIL: wrapped image (0,0) of the argument's point (0,256) is not in the result\n";
    return 1;
  }
  std::cout << "PASS\n"; return 0;
}
