#include "ppl.hh"
#include <iostream>
#include <stdexcept>
using namespace Parma_Polyhedra_Library;
typedef Pointset_Powerset<C_Polyhedron> PS;
template <typename F> static int expect_throw(const char* what, F f) {
  PS ps(2, EMPTY);       // no disjuncts
  try { f(ps); }
  catch (const std::invalid_argument&) { std::cout << what << ": std::invalid_argument (as for a non-empty powerset)\n"; return 0; }
  catch (const std::exception& e) { std::cout << what << ": other exception " << e.what() << "\n"; return 0; }
  std::cout << what << ": NO exception; space_dimension() is now " << ps.space_dimension() << ", OK() = " << ps.OK() << "\n";
  return 1;
}
int main() {
  int bad = 0;
  Variable A(0), B(1);
  bad += expect_throw("remove_space_dimensions({5,6,7}) on a 2-dimensional powerset without disjuncts",
                      [](PS& p) { Variables_Set vs; vs.insert(Variable(5)); vs.insert(Variable(6)); vs.insert(Variable(7)); p.remove_space_dimensions(vs); });
  bad += expect_throw("remove_higher_space_dimensions(5)", [](PS& p) { p.remove_higher_space_dimensions(5); });
  bad += expect_throw("expand_space_dimension(Variable(7), 1)", [](PS& p) { p.expand_space_dimension(Variable(7), 1); });
  bad += expect_throw("fold_space_dimensions({5}, Variable(9))", [](PS& p) { Variables_Set vs; vs.insert(Variable(5)); p.fold_space_dimensions(vs, Variable(9)); });
  // control: the same calls on a powerset WITH a disjunct throw
  {
    PS ps(2, UNIVERSE);
    try { Variables_Set vs; vs.insert(Variable(5)); ps.remove_space_dimensions(vs); std::cout << "control: no exception?!\n"; }
    catch (const std::invalid_argument&) { std::cout << "control (one disjunct): remove_space_dimensions({5}) throws std::invalid_argument\n"; }
  }
  std::cout << (bad ? "FAIL" : "PASS") << " (" << bad << ")\n";
  return bad != 0;
}
