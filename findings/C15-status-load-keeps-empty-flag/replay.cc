// Replay for R15.3: Status::ascii_load never clears the EMPTY flag on "-EM"
// (no else-branch), so loading the dump of a NON-empty object into a receiver
// that was empty yields an empty object.  Prints PASS iff every domain
// round-trips into an arbitrary (here: empty) receiver.
#include "ppl.hh"
#include <iostream>
#include <sstream>
using namespace Parma_Polyhedra_Library;
template <typename D>
int check(const char* name, const D& original, D receiver) {
  (void) original.is_empty();   // drives BD shapes / octagons into their closed state
  std::stringstream ss;
  original.ascii_dump(ss);
  if (!receiver.ascii_load(ss)) { std::cout << name << ": load failed\n"; return 1; }
  std::stringstream s2;
  receiver.ascii_dump(s2);
  bool same_text = (s2.str() == ss.str());
  bool same_value = (receiver == original);
  if (!same_text || !same_value || receiver.is_empty() != original.is_empty()) {
    std::cout << name << ": loaded object differs (is_empty: " << receiver.is_empty()
              << " vs " << original.is_empty() << ", same text: " << same_text << ")\n";
    return 1;
  }
  return 0;
}
int main() {
  Variable A(0), B(1);
  Constraint_System cs; cs.insert(A >= 0); cs.insert(A <= 3); cs.insert(B - A <= 1); cs.insert(B >= 0);
  int bad = 0;
  { C_Polyhedron p(cs); (void) p.minimized_generators(); bad += check("C_Polyhedron", p, C_Polyhedron(2, EMPTY)); }
  { NNC_Polyhedron p(cs); (void) p.minimized_generators(); bad += check("NNC_Polyhedron", p, NNC_Polyhedron(2, EMPTY)); }
  { Grid g(2); g.add_congruence((A %= 1) / 2); bad += check("Grid", g, Grid(2, EMPTY)); }
  { BD_Shape<mpq_class> b(cs); bad += check("BD_Shape<mpq_class>", b, BD_Shape<mpq_class>(2, EMPTY)); }
  { Octagonal_Shape<mpq_class> o(cs); bad += check("Octagonal_Shape<mpq_class>", o, Octagonal_Shape<mpq_class>(2, EMPTY)); }
  { Constraint_System bcs; bcs.insert(A >= 0); bcs.insert(A <= 3); bcs.insert(B >= 0); Rational_Box x(bcs); bad += check("Rational_Box", x, Rational_Box(2, EMPTY)); }
  std::cout << (bad ? "FAIL" : "PASS") << std::endl;
  return bad ? 1 : 0;
}
