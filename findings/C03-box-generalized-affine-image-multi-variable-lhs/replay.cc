#include "ppl.hh"
#include <iostream>
using namespace Parma_Polyhedra_Library;
using namespace Parma_Polyhedra_Library::IO_Operators;
int main() {
  Variable A(0), B(1), C(2);
  Constraint_System cs;
  cs.insert(A >= 0); cs.insert(A <= 1);
  cs.insert(B >= 0); cs.insert(B <= 1);
  cs.insert(C >= 0); cs.insert(C <= 1);
  Rational_Box box(cs);
  C_Polyhedron ph(cs);
  box.generalized_affine_image(A + B + C, LESS_OR_EQUAL, Linear_Expression(10));
  ph.generalized_affine_image(A + B + C, LESS_OR_EQUAL, Linear_Expression(10));
  std::cout << "box: " << box << "\nph:  " << ph.minimized_constraints() << std::endl;
  Generator w = point(0*A + 5*B + 0*C);
  bool in_ph = ph.relation_with(w).implies(Poly_Gen_Relation::subsumes());
  bool in_box = box.relation_with(w).implies(Poly_Gen_Relation::subsumes());
  std::cout << "the exact image has (0,5,0): " << in_ph << " ; the box has it: " << in_box << std::endl;
  bool ok = !in_ph || in_box;
  std::cout << (ok ? "PASS" : "FAIL: B kept its old bounds although it occurs in the left-hand side") << std::endl;
  return ok ? 0 : 1;
}
