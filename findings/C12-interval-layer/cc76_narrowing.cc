#include "ppl.hh"
#include <iostream>
using namespace Parma_Polyhedra_Library;
using namespace Parma_Polyhedra_Library::IO_Operators;
int main() {
  Variable A(0);
  Rational_Box x(1), y(1);
  x.add_constraint(A >= 0); x.add_constraint(A <= 5);   // [0,5]
  y.add_constraint(A > -1); y.add_constraint(A < 6);    // (-1,6)
  Rational_Box r(x);
  r.CC76_narrowing_assign(y);
  std::cout << "x = " << x << "  y = " << y << "  x.CC76_narrowing_assign(y) = " << r << "\n";
  bool ok = y.contains(r) && r.contains(x);
  std::cout << (ok ? "PASS" : "FAIL: the result is not between x and y (the bound values of y were copied, their openness was not)") << "\n";
  Rational_Box x2(1), y2(1);
  x2.add_constraint(A > 0); x2.add_constraint(A < 5);   // (0,5)
  y2.add_constraint(A >= -1); y2.add_constraint(A <= 6); // [-1,6]
  Rational_Box r2(x2); r2.CC76_narrowing_assign(y2);
  std::cout << "x = " << x2 << "  y = " << y2 << "  result = " << r2 << "\n";
  return ok ? 0 : 1;
}
