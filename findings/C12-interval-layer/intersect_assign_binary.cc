#include "ppl.hh"
#include <iostream>
using namespace Parma_Polyhedra_Library;
using namespace Parma_Polyhedra_Library::IO_Operators;
typedef Rational_Box::interval_type ITV;
int main() {
  ITV a, b, r1, r2;
  a.assign(UNIVERSE); b.assign(UNIVERSE);
  mpq_class z(0), one(1), two(2), three(3);
  a.add_constraint(i_constraint(GREATER_OR_EQUAL, z)); a.add_constraint(i_constraint(LESS_OR_EQUAL, one));
  b.add_constraint(i_constraint(GREATER_OR_EQUAL, two)); b.add_constraint(i_constraint(LESS_OR_EQUAL, three));
  I_Result res2 = r2.intersect_assign(a, b);       // binary form
  r1 = a; I_Result res1 = r1.intersect_assign(b);  // unary form
  bool e1 = r1.check_empty(res1), e2 = r2.check_empty(res2);
  std::cout << "[0,1] /\\ [2,3]: unary form: is_empty " << r1.is_empty() << ", check_empty(result) " << e1
            << " ; binary form: is_empty " << r2.is_empty() << ", check_empty(result) " << e2 << "\n";
  bool ok = e1 && e2;
  std::cout << (ok ? "PASS" : "FAIL: the binary form reports I_NOT_EMPTY for an empty intersection") << "\n";
  return ok ? 0 : 1;
}
