#include "ppl.hh"
#include <iostream>
#include <vector>
using namespace Parma_Polyhedra_Library;
using namespace Parma_Polyhedra_Library::IO_Operators;
typedef Rational_Box B;
int main() {
  Variable A(0);
  std::vector<B> all;
  // lower: none, >=v, >v ; upper: none, <=v, <v ; v in 0..2
  for (int lk = 0; lk < 7; ++lk) for (int uk = 0; uk < 7; ++uk) {
    B b(1);
    if (lk) { int v=(lk-1)/2; if ((lk-1)%2) b.add_constraint(A > v); else b.add_constraint(A >= v); }
    if (uk) { int v=(uk-1)/2; if ((uk-1)%2) b.add_constraint(A < v); else b.add_constraint(A <= v); }
    all.push_back(b);
  }
  int bad=0, n=0;
  for (auto& x: all) for (auto& y: all) {
    if (y.is_empty()) continue;
    B e(x); e.intersection_assign(y);
    B s(x); bool r = s.simplify_using_context_assign(y);
    B m(s); m.intersection_assign(y);
    ++n;
    if (r != !e.is_empty() || (r && m != e) || !s.contains(x)) { ++bad; if (bad<6) std::cout<<"x="<<x<<" y="<<y<<" s="<<s<<" r="<<r<<"\n"; }
  }
  std::cout << n << " pairs, " << bad << " wrong\n";
  return bad!=0;
}
