#include "ppl.hh"
#include <iostream>
#include <map>
using namespace Parma_Polyhedra_Library;
using namespace Parma_Polyhedra_Library::IO_Operators;
struct FP_Policy {
  const_bool_nodef(store_special, false);
  const_bool_nodef(store_open, true);
  const_bool_nodef(cache_empty, true);
  const_bool_nodef(cache_singleton, true);
  const_bool_nodef(cache_normalized, false);
  const_int_nodef(next_bit, 0);
  const_bool_nodef(may_be_empty, true);
  const_bool_nodef(may_contain_infinity, false);
  const_bool_nodef(check_empty_result, false);
  const_bool_nodef(check_inexact, false);
};
typedef Interval<double, Interval_Info_Bitset<unsigned int, FP_Policy> > FPI;
typedef Linear_Form<FPI> FPLF;
typedef Box<FPI> FP_Store;
typedef std::map<dimension_type, FPLF> LF_Store;
int main() {
  typedef Variable_Floating_Point_Expression<FPI, float_ieee754_single> V;
  V x(0);
  LF_Store lfs;
  FPLF xp1 = FPLF(Variable(0));
  xp1 += FPI(1.0);
  x.linear_form_assign(xp1, lfs);   // models x := x + 1, the form is in terms of the OLD x
  FP_Store after(1);
  after.set_interval(Variable(0), FPI(1.0)); // x was 0, it is 1 now
  FPLF r;
  bool ok = x.linearize(after, lfs, r);
  FPI val;
  V::intervalize(r, after, val);
  std::cout << "after x := x + 1 (x: 0 -> 1) the store holds " << lfs.size() << " form(s); linearize(x) ok=" << ok
            << " gives " << r << ", which evaluates to " << val << " in the store x = 1\n";
  FPI one(1.0);
  bool sound = val.contains(one);
  std::cout << (sound ? "PASS" : "FAIL: the form kept for x mentions x itself (the old value): the concrete value 1 is outside") << "\n";
  return sound ? 0 : 1;
}
