#include "ppl.hh"
#include <iostream>
using namespace Parma_Polyhedra_Library;
using namespace Parma_Polyhedra_Library::IO_Operators;
typedef Rational_Interval I;
static I mk(int lo, bool lo_open, int hi, bool hi_open) {
  I i; i.assign(UNIVERSE);
  mpq_class l(lo), h(hi);
  i.refine_existential(lo_open ? GREATER_THAN : GREATER_OR_EQUAL, l);
  i.refine_existential(hi_open ? LESS_THAN : LESS_OR_EQUAL, h);
  return i;
}
int main() {
  int bad = 0;
  { // mul_assign: (-1,2] * [-3,1] contains 2 * -3 = -6
    I x = mk(-1, true, 2, false), y = mk(-3, false, 1, false), z;
    z.mul_assign(x, y);
    bool has = z.contains(I(mpq_class(-6)));
    std::cout << "mul   : " << x << " * " << y << " = " << z << (has ? "" : "   LOSES -6 = 2 * -3") << "\n";
    if (!has) ++bad;
  }
  { // difference_assign(x, y) with y strictly inside x: must contain x \ y (e.g. 1)
    I d = mk(100, false, 200, false), x = mk(0, false, 10, false), y = mk(3, false, 4, false);
    d.difference_assign(x, y);
    bool has = d.contains(I(mpq_class(1)));
    std::cout << "diff  : " << x << " \\ " << y << " stored into [100, 200] gives " << d << (has ? "" : "   LOSES 1") << "\n";
    if (!has) ++bad;
  }
  { // difference_assign(x, y): [0,10] \ [5,10] = [0,5)
    I d, x = mk(0, false, 10, false), y = mk(5, false, 10, false);
    d.assign(UNIVERSE);
    d.difference_assign(x, y);
    bool has5 = d.contains(I(mpq_class(5)));
    std::cout << "diff  : " << x << " \\ " << y << " = " << d << (has5 ? "   keeps 5, which belongs to the subtrahend (openness lost)" : "") << "\n";
    if (has5) ++bad;
  }
  { // refine_universal(LESS_THAN, (-inf, 8]): nothing is below every element
    I z = mk(0, false, 10, false), x; x.assign(UNIVERSE); mpq_class eight(8); x.refine_existential(LESS_OR_EQUAL, eight);
    z.refine_universal(LESS_THAN, x);
    std::cout << "refine: [0,10] < every element of " << x << " gives " << z << (z.is_empty() ? "" : "   (expected empty)") << "\n";
    if (!z.is_empty()) ++bad;
  }
  { // upper_extend with an unconstrained relation must drop the upper bound
    I z = mk(0, false, 10, false);
    mpq_class fifty(50);
    z.upper_extend(i_constraint(LESS_OR_EQUAL, fifty));   // sanity: extends to 50
    I w = mk(0, false, 10, false);
    w.upper_extend(I_Constraint<mpq_class>());                    // V_LGE: unconstrained
    bool ok = w.upper_is_boundary_infinity() && !w.lower_is_boundary_infinity();
    std::cout << "extend: [0,10].upper_extend(unconstrained) = " << w << (ok ? "" : "   (expected [0, +inf))") << "\n";
    if (!ok) ++bad;
  }
  std::cout << (bad ? "FAIL" : "PASS") << " (" << bad << ")\n";
  return bad != 0;
}
