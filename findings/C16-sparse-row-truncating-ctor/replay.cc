#include "ppl.hh"
#include <iostream>
using namespace Parma_Polyhedra_Library;
using namespace Parma_Polyhedra_Library::IO_Operators;
int main() {
  Variable A(0), B(1), C(2), D(3);
  Linear_Expression d(A + 7*D + 3, DENSE);
  Linear_Expression to_sparse(d, 2, SPARSE);
  Linear_Expression to_dense(d, 2, DENSE);
  std::cout << "dense  A + 7*D + 3 truncated to 2 dimensions, DENSE : " << to_dense << " (space dimension " << to_dense.space_dimension() << ")\n";
  std::cout << "dense  A + 7*D + 3 truncated to 2 dimensions, SPARSE: " << to_sparse << " (space dimension " << to_sparse.space_dimension() << ")\n";
  to_sparse.set_space_dimension(4); to_dense.set_space_dimension(4);
  std::cout << "after growing back to 4 dimensions: coefficient(D) = " << to_sparse.coefficient(D) << " (sparse), " << to_dense.coefficient(D) << " (dense)\n";
  bool ok = to_sparse.is_equal_to(to_dense) && to_sparse.coefficient(D) == 0;
  std::cout << (ok ? "PASS" : "FAIL") << "\n";
  return ok ? 0 : 1;
}
