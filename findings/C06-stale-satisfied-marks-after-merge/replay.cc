#include "ppl.hh"
#include <iostream>
using namespace Parma_Polyhedra_Library;
using namespace Parma_Polyhedra_Library::IO_Operators;
int main() {
  Variable x(0), y(1);
  int bad = 0;
  { // 1: incremental re-solve after constraints that the cached point is tested against
    MIP_Problem inc(2);
    inc.add_constraint(x >= -1); inc.add_constraint(y >= 0); inc.add_constraint(x + y <= 5);
    inc.set_objective_function(x + y); inc.set_optimization_mode(MINIMIZATION);
    inc.solve();
    inc.add_constraint(x >= 0); inc.add_constraint(y - x >= 1);
    MIP_Problem fresh(2);
    fresh.add_constraint(x >= -1); fresh.add_constraint(y >= 0); fresh.add_constraint(x + y <= 5);
    fresh.add_constraint(x >= 0); fresh.add_constraint(y - x >= 1);
    fresh.set_objective_function(x + y); fresh.set_optimization_mode(MINIMIZATION);
    MIP_Problem_Status s1 = inc.solve(), s2 = fresh.solve();
    Coefficient n1, d1, n2, d2;
    inc.optimal_value(n1, d1); fresh.optimal_value(n2, d2);
    std::cout << "1: incremental " << n1 << "/" << d1 << " at " << inc.optimizing_point() << ", fresh " << n2 << "/" << d2 << " at " << fresh.optimizing_point() << "\n";
    if (n1 * d2 != n2 * d1) ++bad;
  }
  { // 2: unbounded relaxation, integral point only in a child
    MIP_Problem m(2);
    m.add_constraint(2*x >= 1); m.add_constraint(y >= 0);
    m.add_to_integer_space_dimensions(Variables_Set(x));
    m.set_objective_function(y); m.set_optimization_mode(MAXIMIZATION);
    MIP_Problem_Status s = m.solve();
    std::cout << "2: status " << (s == UNFEASIBLE_MIP_PROBLEM ? "UNFEASIBLE" : s == UNBOUNDED_MIP_PROBLEM ? "UNBOUNDED" : "OPTIMIZED") << " (expected UNBOUNDED)\n";
    if (s != UNBOUNDED_MIP_PROBLEM) ++bad;
  }
  std::cout << (bad ? "FAIL" : "PASS") << "\n";
  return bad != 0;
}
