#include "ppl.hh"
#include <iostream>
#include <random>
using namespace Parma_Polyhedra_Library;
std::mt19937 rng(777);
int R(int a, int b) { return std::uniform_int_distribution<int>(a, b)(rng); }
Constraint rc(int d) {
  Linear_Expression e;
  int nz = 0;
  for (int i = 0; i < d; ++i) { int c = R(-2, 2); if (c) ++nz; e += c * Variable(i); }
  e += R(-6, 6);
  int k = R(0, 9);
  return k == 0 ? Constraint(e == 0) : Constraint(e >= 0);
}
int main() {
  int bad = 0, tot = 0;
  for (int it = 0; it < 6000; ++it) {
    int d = R(1, 3);
    std::vector<Constraint> all;
    MIP_Problem inc(d);
    Linear_Expression obj; for (int i = 0; i < d; ++i) obj += R(-2, 2) * Variable(i);
    inc.set_objective_function(obj);
    inc.set_optimization_mode(R(0,1) ? MAXIMIZATION : MINIMIZATION);
    Optimization_Mode mode = inc.optimization_mode();
    int rounds = R(2, 4);
    for (int r = 0; r < rounds; ++r) {
      int k = R(1, 3);
      for (int j = 0; j < k; ++j) { Constraint c = (R(0,2) == 0) ? Constraint(Variable(R(0,d-1)) >= R(-2,2)) : rc(d); all.push_back(c); inc.add_constraint(c); }
      MIP_Problem_Status s1 = inc.solve();
      MIP_Problem fresh(d);
      for (auto& c : all) fresh.add_constraint(c);
      fresh.set_objective_function(obj); fresh.set_optimization_mode(mode);
      MIP_Problem_Status s2 = fresh.solve();
      ++tot;
      bool same = (s1 == s2);
      if (same && s1 == OPTIMIZED_MIP_PROBLEM) {
        Coefficient n1, d1, n2, d2; inc.optimal_value(n1, d1); fresh.optimal_value(n2, d2);
        same = (n1 * d2 == n2 * d1);
        // the point must satisfy all constraints
        const Generator& g = inc.optimizing_point();
        for (auto& c : all) {
          Coefficient sp = 0; 
          Linear_Expression le(c.expression());
          sp = c.inhomogeneous_term() * g.divisor();
          for (int i = 0; i < (int) c.space_dimension() && i < (int) g.space_dimension(); ++i) sp += c.coefficient(Variable(i)) * g.coefficient(Variable(i));
          if (c.is_equality() ? sp != 0 : sp < 0) same = false;
        }
      }
      if (!same) { ++bad; break; }
      if (s1 == UNFEASIBLE_MIP_PROBLEM) break;
    }
  }
  std::cout << "solves " << tot << " disagreements " << bad << "\n";
  return bad != 0;
}
