// Replay for C03 / R3.4: Box::generalized_affine_preimage(var, relsym, expr, d) with `var' not
// occurring in `expr' multiplied by a never-written dirty temporary (<, <= cases) and dropped the
// inhomogeneous term of `expr' (all cases): the result lost points of the exact preimage.
#include <ppl.hh>
#include <iostream>
using namespace Parma_Polyhedra_Library;
using namespace Parma_Polyhedra_Library::IO_Operators;
int main() {
  Variable A(0), B(1);
  Rational_Box box(2);
  box.add_constraint(A >= 3); box.add_constraint(A <= 6); box.add_constraint(B == -1);
  int bad = 0;
  {
    C_Polyhedron ph(box); Rational_Box b(box);
    ph.generalized_affine_preimage(B, GREATER_OR_EQUAL, Linear_Expression(-3), 2);
    b.generalized_affine_preimage(B, GREATER_OR_EQUAL, Linear_Expression(-3), 2);
    std::cout << "preimage of B' >= -3/2 : exact " << ph << "   box " << b << "\n";
    if (!b.contains(Rational_Box(ph))) ++bad;
  }
  {
    C_Polyhedron ph(box); Rational_Box b(box);
    ph.generalized_affine_preimage(B, GREATER_OR_EQUAL, A - 5, 1);
    b.generalized_affine_preimage(B, GREATER_OR_EQUAL, A - 5, 1);
    std::cout << "preimage of B' >= A - 5: exact " << ph << "   box " << b << "\n";
    if (!b.contains(Rational_Box(ph))) ++bad;
  }
  std::cout << (bad ? "FAIL: the box result does not contain the exact preimage\n" : "PASS\n");
  return bad != 0;
}
