// limited_CC76_extrapolation_assign / limited_BHMZ05_extrapolation_assign
// (Octagonal_Shape::get_limiting_octagon, BD_Shape::get_limiting_shape):
// a constraint of `cs' without variables is not filtered out.
// Constraint_System::const_iterator skips tautologies, but NOT an
// inconsistent constraint such as  0 >= 1.  For it,
// extract_octagonal_difference()/extract_bounded_difference() return
// num_vars == 0, i == cs.space_dimension() + 1, j == 0 and leave `coeff'
// untouched (stale value of the previous constraint); the callers go on and
// use matrix[i][j] / dbm[j][i]:
//  - if cs.space_dimension() <  space_dim the cell belongs to some unrelated
//    variable(s), and a limiting constraint that does not occur in cs
//    is invented (wrong result, shown below: A - B <= -1 for the octagon,
//    B <= -1 for the BD shape);
//  - if cs.space_dimension() == space_dim (and space_dim == 1 for octagons,
//    any space_dim for BD shapes) the row/column index is one past the end of
//    the matrix: out-of-bounds read and possibly write (we observed SIGSEGV
//    and "realloc(): invalid pointer" when fuzzing).
// Since the constraint 0 >= 1 is not satisfied by the (non-empty) shape, the
// limited extrapolation must coincide with the plain widening.
#include "ppl.hh"
#include <iostream>
using namespace Parma_Polyhedra_Library;
using namespace Parma_Polyhedra_Library::IO_Operators;

template <typename SH>
int run(const char* name) {
  Variable A(0), B(1), C(2);
  SH x(3), y(3);
  x.add_constraint(A <= 5); x.add_constraint(A - B <= -2); x.add_constraint(B <= -2);
  y.add_constraint(A <= 5); y.add_constraint(A - B <= -3); y.add_constraint(B <= -3);
  // cs has space dimension 1 and contains A <= 5 and the inconsistent 0 >= 1.
  Constraint_System cs;
  cs.insert(A <= 5);
  cs.insert(Linear_Expression(0) >= 1);
  SH w(x);  w.BHMZ05_widening_assign(y);
  SH lw(x); lw.limited_BHMZ05_extrapolation_assign(y, cs);
  SH expected(w); expected.add_constraint(A <= 5);
  std::cout << name << ": x = " << x << "\n  y = " << y << "\n  cs = " << cs
            << "\n  BHMZ05 widening             : " << w
            << "\n  limited BHMZ05 extrapolation: " << lw << std::endl;
  if (!(lw == expected)) {
    std::cout << "FAIL: the limited extrapolation contains a constraint that is "
                 "neither in the widening nor in cs\n";
    return 1;
  }
  return 0;
}

int main() {
  int fails = 0;
  fails += run<Octagonal_Shape<mpq_class> >("Octagonal_Shape<mpq_class>");
  fails += run<BD_Shape<mpq_class> >("BD_Shape<mpq_class>");
  if (fails) return 1;
  std::cout << "PASS\n";
  return 0;
}
