// Replay for C03 / R3.4: Box::bounded_affine_preimage divides by the coefficient of `var'
// in the bounding expressions without testing it for zero.
#include <ppl.hh>
#include <iostream>
using namespace Parma_Polyhedra_Library;
using namespace Parma_Polyhedra_Library::IO_Operators;
int main() {
  std::cout.setf(std::ios::unitbuf);
  Variable A(0), B(1);
  Rational_Box box(2);
  box.add_constraint(B >= 0); box.add_constraint(B <= 3);
  box.add_constraint(A >= 0); box.add_constraint(A <= 1);
  C_Polyhedron ph(box);
  // A' in [0, 5]: neither bound mentions A.
  ph.bounded_affine_preimage(A, Linear_Expression(0), Linear_Expression(5));
  std::cout << "polyhedron: " << ph << "\n";
  box.bounded_affine_preimage(A, Linear_Expression(0), Linear_Expression(5));   // SIGFPE before the fix
  std::cout << "box       : " << box << "\n";
  if (!box.contains(Rational_Box(ph))) { std::cout << "FAIL: box result does not contain the exact result\n"; return 1; }
  std::cout << "PASS\n";
  return 0;
}
