#include "ppl.hh"
#include <iostream>
using namespace Parma_Polyhedra_Library;
int main() {
  Variable A(0), B(1);
  int bad = 0;
  {
    Generator_System gs; gs.insert(point(0*B)); gs.insert(line(A));
    C_Polyhedron ph(gs);                    // the line {B = 0}: A is free
    bool r1 = ph.constrains(A);
    (void) ph.constraints();
    bool r2 = ph.constrains(A);
    std::cout << "C_Polyhedron {point(0), line(A)}: constrains(A) = " << r1 << " before constraints(), " << r2 << " after\n";
    bad += (r1 != r2) || r1;
  }
  {
    Generator_System gs; gs.insert(point(0*B)); gs.insert(ray(A)); gs.insert(ray(-A));
    C_Polyhedron ph(gs);
    bool r1 = ph.constrains(A);
    (void) ph.constraints();
    bool r2 = ph.constrains(A);
    std::cout << "C_Polyhedron {point(0), ray(A), ray(-A)}: constrains(A) = " << r1 << " before, " << r2 << " after\n";
    bad += (r1 != r2) || r1;
  }
  {
    Grid g(2, EMPTY);
    g.add_grid_generator(grid_point(0*B));
    g.add_grid_generator(grid_line(A));
    bool r1 = g.constrains(A);
    (void) g.congruences();
    bool r2 = g.constrains(A);
    std::cout << "Grid {point(0), line(A)}: constrains(A) = " << r1 << " before congruences(), " << r2 << " after\n";
    bad += (r1 != r2) || r1;
  }
  std::cout << (bad ? "FAIL" : "PASS") << "\n";
  return bad != 0;
}
