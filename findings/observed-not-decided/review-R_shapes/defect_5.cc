// simplify_using_context_assign(y) of Octagonal_Shape and BD_Shape is
// documented: "If false is returned, then the intersection is empty."
// The early exit for "*this contains y" returns false unconditionally (it was
// written for the sub-case "y is empty" only), so false is returned whenever
// x contains a NON-empty y, i.e., when the intersection is y itself.
// C_Polyhedron and Box return true in this case.
#include "ppl.hh"
#include <iostream>
using namespace Parma_Polyhedra_Library;
using namespace Parma_Polyhedra_Library::IO_Operators;

template <typename SH>
int run(const char* name) {
  Variable A(0), B(1);
  int fails = 0;
  {
    SH x(2), y(2);
    x.add_constraint(A >= 0);
    y.add_constraint(A >= 1); y.add_constraint(B == 0);
    C_Polyhedron px(x.constraints()), py(y.constraints());
    bool pr = px.simplify_using_context_assign(py);
    SH meet(x); meet.intersection_assign(y);
    bool r = x.simplify_using_context_assign(y);
    std::cout << name << ": x = {A >= 0}, y = {A >= 1, B = 0}: returns " << r
              << " (C_Polyhedron returns " << pr << "), x /\\ y is "
              << (meet.is_empty() ? "empty" : "NOT empty") << std::endl;
    if (!r && !meet.is_empty()) {
      std::cout << "FAIL: false returned although the intersection is not empty\n";
      ++fails;
    }
  }
  {
    SH x(2), y(2);       // both universe
    bool r = x.simplify_using_context_assign(y);
    std::cout << name << ": x = universe, y = universe: returns " << r << std::endl;
    if (!r) {
      std::cout << "FAIL: false returned although the intersection is not empty\n";
      ++fails;
    }
  }
  return fails;
}

int main() {
  int fails = 0;
  fails += run<Octagonal_Shape<mpq_class> >("Octagonal_Shape");
  fails += run<BD_Shape<mpq_class> >("BD_Shape");
  if (fails) return 1;
  std::cout << "PASS\n";
  return 0;
}
