// relation_with(const Congruence&) of Octagonal_Shape and BD_Shape, proper
// congruence  e == 0 (mod m):
//  (a) to find the largest value <= max(e) that satisfies the congruence the
//      code does   max_value += max_value % modulus   instead of   -=  ; when
//      the remainder is not zero the candidate overshoots, is lowered by a
//      whole modulus and ends up below the true value (and is not even a
//      multiple of the modulus), so that IS_DISJOINT is answered although
//      points of the shape satisfy the congruence;
//  (b) when min(e) == max(e) is a multiple of the modulus every point of the
//      shape satisfies the congruence, but STRICTLY_INTERSECTS ("some points
//      satisfy it and some do not") is answered instead of IS_INCLUDED; the
//      same happens for a trivially true congruence such as 4 == 0 (mod 4).
#include "ppl.hh"
#include <iostream>
using namespace Parma_Polyhedra_Library;
using namespace Parma_Polyhedra_Library::IO_Operators;

template <typename SH>
int run(const char* name) {
  Variable A(0);
  int fails = 0;
  struct { int lo, hi, witness; } t[] = { {5, 7, 6}, {2, 4, 3}, {-4, -2, -3}, {-13, -10, -12} };
  for (unsigned k = 0; k < sizeof(t)/sizeof(t[0]); ++k) {
    SH s(1);
    s.add_constraint(A >= t[k].lo);
    s.add_constraint(A <= t[k].hi);
    Congruence cg = (A %= 0) / 3;
    Poly_Con_Relation r = s.relation_with(cg);
    std::cout << name << " {" << t[k].lo << " <= A <= " << t[k].hi
              << "}.relation_with(A = 0 mod 3) = " << r
              << "   (A = " << t[k].witness << " is in the shape)" << std::endl;
    if (r.implies(Poly_Con_Relation::is_disjoint())) {
      std::cout << "FAIL (a): IS_DISJOINT, but a point of the shape satisfies the congruence\n";
      ++fails;
    }
  }
  {
    SH s(1);
    s.add_constraint(A == 6);
    Poly_Con_Relation r = s.relation_with((A %= 0) / 3);
    Poly_Con_Relation pr = C_Polyhedron(s.constraints()).relation_with((A %= 0) / 3);
    std::cout << name << " {A = 6}.relation_with(A = 0 mod 3) = " << r
              << "   (C_Polyhedron: " << pr << ")" << std::endl;
    if (!r.implies(Poly_Con_Relation::is_included())) {
      std::cout << "FAIL (b): every point satisfies the congruence, IS_INCLUDED expected\n";
      ++fails;
    }
    SH u(1);
    Poly_Con_Relation r2 = u.relation_with((Linear_Expression(4) %= 0) / 4);
    std::cout << name << " universe.relation_with(4 = 0 mod 4) = " << r2 << std::endl;
    if (!r2.implies(Poly_Con_Relation::is_included())) {
      std::cout << "FAIL (b): trivially true congruence, IS_INCLUDED expected\n";
      ++fails;
    }
  }
  return fails;
}

int main() {
  int fails = 0;
  fails += run<Octagonal_Shape<mpq_class> >("Octagonal_Shape");
  fails += run<BD_Shape<mpq_class> >("BD_Shape");
  if (fails) return 1;
  std::cout << "PASS\n";
  return 0;
}
