// General case of affine_image() of BD_Shape<T> and Octagonal_Shape<T> (the
// same code pattern is repeated in refine(), bounded_affine_image(),
// generalized_affine_image(), max_min()): every coefficient a_i of the
// expression is converted to T rounding UP ("assign_r(coeff_i, sc_i,
// ROUND_UP)") and then multiplied by the upper bound of x_i (or of -x_i).
// That is an upper approximation of a_i * bound only if the bound is >= 0:
// when the bound is negative the coefficient has to be rounded DOWN, and when
// the bound is 0 an overflowed (+inf) coefficient yields +inf * 0 = NaN.
// So whenever a coefficient is not exactly representable in T (bounded
// integers: |a_i| > max; floats: more than 53 significant bits) points of
// the exact image are lost, the shape may even become empty (-inf stored as a
// bound), or a NaN is stored in the matrix.  (This is NOT the known problem
// of the quotient by a non-representable denominator: denominator is 1 here.)
#include "ppl.hh"
#include <iostream>
using namespace Parma_Polyhedra_Library;
using namespace Parma_Polyhedra_Library::IO_Operators;

template <template <typename> class SH>
int run(const char* name) {
  Variable A(0), B(1);
  int fails = 0;
  {
    // T = int8_t, B := 200*A with A == -1.  Exact image: A == -1, B == -200.
    // A sound int8_t approximation keeps A == -1 and has either no upper
    // bound for B or one in [-128, 127].
    SH<int8_t> s(2);
    s.add_constraint(A == -1);
    s.affine_image(B, 200*A);
    const bool ok = s.OK();
    std::cout << name << "<int8_t> {A = -1}.affine_image(B, 200*A) = ";
    try { std::cout << s; } catch (...) { std::cout << "<printing threw>"; }
    std::cout << ", OK() = " << (ok ? "true" : "false") << "\n";
    if (!ok) {
      std::cout << "FAIL: upper bound of B computed as (+inf) * (-1) = -inf, "
                   "i.e. the image of a non-empty shape has no points\n";
      ++fails;
    }
  }
  {
    // Bound equal to zero: +inf * 0.
    SH<int8_t> s(2);
    s.add_constraint(A == 0);
    s.affine_image(B, 200*A + 1);       // exact image: A == 0, B == 1
    const bool ok = s.OK();
    std::cout << name << "<int8_t> {A = 0}.affine_image(B, 200*A + 1): OK() = "
              << (ok ? "true" : "false") << "\n";
    if (!ok) {
      std::cout << "FAIL: a NaN has been stored in the matrix ((+inf) * 0)\n";
      ++fails;
    }
  }
  {
    // T = double: 2^53 + 1 is not a double; it is rounded up to 2^53 + 2.
    Coefficient c("9007199254740993");
    SH<double> s(2);
    s.add_constraint(A == -1);
    s.affine_image(B, c*A);             // exact image: B == -(2^53 + 1)
    C_Polyhedron exact(2);
    exact.add_constraint(A == -1);
    exact.affine_image(B, c*A);
    C_Polyhedron approx(s.constraints());
    std::cout << name << "<double> {A = -1}.affine_image(B, (2^53+1)*A) = "
              << approx.minimized_constraints() << "\n"
              << "   exact image = " << exact.minimized_constraints() << "\n";
    if (!approx.contains(exact)) {
      std::cout << "FAIL: the computed shape does not contain the exact image\n";
      ++fails;
    }
  }
  return fails;
}

int main() {
  int fails = 0;
  fails += run<BD_Shape>("BD_Shape");
  fails += run<Octagonal_Shape>("Octagonal_Shape");
  if (fails) return 1;
  std::cout << "PASS\n";
  return 0;
}
