// max_min() (maximize()/minimize() without generator) of BD_Shape<T> and
// Octagonal_Shape<T>, case of an expression that is a bounded/octagonal
// difference: the extremum   b + |a| * bound   is computed in the (possibly
// bounded) type N with assign_r/add_mul_assign_r(... ROUND_UP) and the result
// is passed to numer_denom() without checking that it is finite.  For a
// bounded integer T the computation overflows to +infinity as soon as
// |a|*bound does not fit in T; numer_denom(+inf) then leaves ext_n/ext_d
// untouched and the method returns true ("bounded") with a garbage extremum.
#include "ppl.hh"
#include <iostream>
using namespace Parma_Polyhedra_Library;
using namespace Parma_Polyhedra_Library::IO_Operators;

template <typename SH>
int check(const char* name, long ub, long coeff) {
  Variable A(0);
  SH s(1);
  s.add_constraint(A <= ub);
  s.add_constraint(A >= 0);
  Coefficient n, d, en, ed;
  bool max, emax;
  const bool r = s.maximize(Coefficient(coeff)*A, n, d, max);
  // Reference: the very same constraints, seen as a polyhedron.
  C_Polyhedron ph(s.constraints());
  const bool er = ph.maximize(Coefficient(coeff)*A, en, ed, emax);
  std::cout << name << " {0 <= A <= " << ub << "}.maximize("
            << coeff << "*A): returns " << r << ", sup = " << n << "/" << d
            << "   [C_Polyhedron on the same constraints: " << er << ", sup = "
            << en << "/" << ed << "]\n";
  if (r && n * ed != en * d) {
    std::cout << "FAIL: wrong supremum\n";
    return 1;
  }
  return 0;
}

int main() {
  int fails = 0;
  fails += check<BD_Shape<mpz_class> >("BD_Shape<mpz_class>", 2, 100);
  fails += check<BD_Shape<int8_t> >("BD_Shape<int8_t>", 2, 100);
  fails += check<BD_Shape<int32_t> >("BD_Shape<int32_t>", 100000, 100000);
  fails += check<Octagonal_Shape<mpz_class> >("Octagonal_Shape<mpz_class>", 2, 100);
  fails += check<Octagonal_Shape<int8_t> >("Octagonal_Shape<int8_t>", 2, 100);
  fails += check<Octagonal_Shape<int32_t> >("Octagonal_Shape<int32_t>", 100000, 100000);
  if (fails) return 1;
  std::cout << "PASS\n";
  return 0;
}
