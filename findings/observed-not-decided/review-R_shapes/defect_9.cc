// Exception contracts of BD_Shape and Octagonal_Shape:
// (a) expand_space_dimension(var, m) is documented to throw std::length_error
//     when adding m dimensions would exceed max_space_dimension() (as
//     C_Polyhedron does); it throws std::invalid_argument instead
//     (throw_invalid_argument("expand_dimension(v, m)", ...)).
// (b) add_constraints(cs) / add_congruences(cgs) are documented to throw
//     std::invalid_argument when the system and *this are
//     dimension-incompatible.  They only loop over the elements calling
//     add_constraint()/add_congruence(), so the check is performed per
//     element: a system of greater space dimension whose iterator range is
//     empty (no element, or tautologies only, which
//     Constraint_System::const_iterator skips) is silently accepted.
//     refine_with_constraints() (same file) and C_Polyhedron check the space
//     dimension of the system up front.
#include "ppl.hh"
#include <iostream>
#include <stdexcept>
#include <string>
using namespace Parma_Polyhedra_Library;

template <typename PH>
std::string probe_expand() {
  PH ph(2);
  try { ph.expand_space_dimension(Variable(0), PH::max_space_dimension()); }
  catch (const std::length_error&) { return "std::length_error"; }
  catch (const std::invalid_argument&) { return "std::invalid_argument"; }
  catch (const std::exception&) { return "another std::exception"; }
  return "nothing";
}

template <typename PH>
int probe_add(const char* name) {
  Variable E(4);
  Constraint_System cs;
  cs.insert(0*E >= -1);                 // space dimension 5, a tautology only
  Congruence_System cgs(Grid(5).congruences());   // space dimension 5
  int fails = 0;
  {
    PH ph(2); bool thrown = false;
    try { ph.add_constraints(cs); } catch (const std::invalid_argument&) { thrown = true; }
    std::cout << name << "(2).add_constraints(cs of dimension 5): "
              << (thrown ? "std::invalid_argument" : "no exception") << "\n";
    if (!thrown) { std::cout << "FAIL (b): dimension-incompatible cs accepted\n"; ++fails; }
  }
  {
    PH ph(2); bool thrown = false;
    try { ph.add_congruences(cgs); } catch (const std::invalid_argument&) { thrown = true; }
    std::cout << name << "(2).add_congruences(cgs of dimension 5): "
              << (thrown ? "std::invalid_argument" : "no exception") << "\n";
    if (!thrown) { std::cout << "FAIL (b): dimension-incompatible cgs accepted\n"; ++fails; }
  }
  return fails;
}

int main() {
  int fails = 0;
  std::string ph = probe_expand<C_Polyhedron>();
  std::string bd = probe_expand<BD_Shape<mpq_class> >();
  std::string os = probe_expand<Octagonal_Shape<mpq_class> >();
  std::cout << "expand_space_dimension(A, max_space_dimension()):\n"
            << "  C_Polyhedron    throws " << ph << "\n"
            << "  BD_Shape        throws " << bd << "\n"
            << "  Octagonal_Shape throws " << os << "\n";
  if (bd != "std::length_error") { std::cout << "FAIL (a): BD_Shape: documented std::length_error not thrown\n"; ++fails; }
  if (os != "std::length_error") { std::cout << "FAIL (a): Octagonal_Shape: documented std::length_error not thrown\n"; ++fails; }
  fails += probe_add<C_Polyhedron>("C_Polyhedron");
  fails += probe_add<BD_Shape<mpq_class> >("BD_Shape");
  fails += probe_add<Octagonal_Shape<mpq_class> >("Octagonal_Shape");
  if (fails) return 1;
  std::cout << "PASS\n";
  return 0;
}
