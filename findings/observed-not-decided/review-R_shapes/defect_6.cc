// Octagonal_Shape<T>::maximize/minimize(expr, n, d, included, Generator& g)
// (max_min() with generator): the body is guarded by `if (!is_universe())',
// on the assumption that every expression is unbounded on the universe
// octagon.  That is false for a constant expression (and the 4-argument
// overload, bounds_from_above() and C_Polyhedron all agree that it is
// bounded): the 5-argument overload returns false, i.e. "unbounded/empty".
#include "ppl.hh"
#include <iostream>
using namespace Parma_Polyhedra_Library;
using namespace Parma_Polyhedra_Library::IO_Operators;

int main() {
  Variable A(0), B(1);
  int fails = 0;
  Octagonal_Shape<mpq_class> os(2);           // universe
  Linear_Expression e = 0*B - 3;              // the constant -3
  Coefficient n, d; bool incl; Generator g = point();
  bool r4 = os.maximize(e, n, d, incl);
  std::cout << "universe.maximize(-3, n, d, incl)    = " << r4 << "  value " << n << "/" << d << std::endl;
  bool b = os.bounds_from_above(e);
  std::cout << "universe.bounds_from_above(-3)       = " << b << std::endl;
  bool r5 = os.maximize(e, n, d, incl, g);
  std::cout << "universe.maximize(-3, n, d, incl, g) = " << r5 << std::endl;
  bool r6 = os.minimize(e, n, d, incl, g);
  std::cout << "universe.minimize(-3, n, d, incl, g) = " << r6 << std::endl;
  C_Polyhedron ph(2);
  bool p = ph.maximize(e, n, d, incl, g);
  std::cout << "C_Polyhedron universe.maximize(-3, n, d, incl, g) = " << p << "  value " << n << "/" << d << ", g = " << g << std::endl;
  if (!r5 || !r6) {
    std::cout << "FAIL: a constant expression reported as not bounded on the universe octagon\n";
    ++fails;
  }
  // Same with a BD shape, for comparison.
  BD_Shape<mpq_class> bd(2);
  bool rb = bd.maximize(e, n, d, incl, g);
  std::cout << "BD_Shape universe.maximize(-3, n, d, incl, g) = " << rb << std::endl;
  if (!rb) {
    std::cout << "FAIL: BD_Shape too\n";
    ++fails;
  }
  if (fails) return 1;
  std::cout << "PASS\n";
  return 0;
}
