// Octagonal_Shape<T>::simplify_using_context_assign(y) aborts the process
// (PPL_UNREACHABLE -> abort()) on perfectly legal arguments.
//
// In the last loop of the function (proper inequalities) the redundancy
// information computed by non_redundant_matrix_entries() is looked up with
// the wrong indices: for i < j the code tests x_non_redundant[j][i], but the
// entry (i, j) of the pseudo-triangular matrix is stored in row i itself when
// j == i + 1 (i even: the unary constraint  -2*x <= c) and in row cj, column
// ci otherwise.  So the unary lower bound  -x <= c  of x is only ever
// considered when the *upper* bound of x happens to be non-redundant too.
// When the lower bound is needed to reach the target, no constraint is ever
// found and control reaches PPL_UNREACHABLE.
#include "ppl.hh"
#include <iostream>
#include <csignal>
#include <unistd.h>
using namespace Parma_Polyhedra_Library;
using namespace Parma_Polyhedra_Library::IO_Operators;

static void on_abort(int) {
  const char msg[] =
    "FAIL: simplify_using_context_assign() called abort() "
    "(PPL_UNREACHABLE reached)\n";
  ssize_t w = write(1, msg, sizeof(msg) - 1);
  (void) w;
  _exit(1);
}

int main() {
  signal(SIGABRT, on_abort);
  Variable A(0), B(1);
  typedef Octagonal_Shape<mpq_class> OS;
  OS x(2), y(2);
  x.add_constraint(A >= 2);
  x.add_constraint(B - A >= -6);
  y.add_constraint(-A - B >= 1);
  std::cout << "x = " << x << ",  y = " << y << std::endl;
  // Reference result.
  C_Polyhedron px(x.constraints()), py(y.constraints());
  C_Polyhedron meet(px); meet.intersection_assign(py);
  bool pr = px.simplify_using_context_assign(py);
  std::cout << "C_Polyhedron: returns " << pr << ", result " << px << std::endl;

  OS r(x);
  bool b = r.simplify_using_context_assign(y);      // aborts here
  std::cout << "Octagonal_Shape: returns " << b << ", result " << r << std::endl;
  C_Polyhedron check(r.constraints());
  check.intersection_assign(py);
  if (!b || check != meet) {
    std::cout << "FAIL: result is not a meet-preserving simplification\n";
    return 1;
  }
  std::cout << "PASS\n";
  return 0;
}
