// Octagonal_Shape<T> with an integer coefficient type T (mpz_class, int8_t ...
// int64_t): minimized_constraints() (strong_reduction_assign() /
// non_redundant_matrix_entries()) silently drops constraints, and - since the
// reduction is performed in place on the (mutable) representation of a const
// object - the shape itself changes: later queries give different answers.
//
// Unary constraints are stored doubled, so  2*A == 1  is representable in an
// integer octagon (matrix[0][1] == -1, matrix[1][0] == 1).  Strong coherence
// rounds (m[i][ci] + m[cj][j])/2 upwards, hence a variable with an odd
// doubled value (A) and one with an even doubled value (B == 0) are both
// "singular" (constant) but are NOT zero-equivalent to each other in the
// closed matrix: there are two distinct singular equivalence classes.
// compute_leaders(successor, no_sing_leaders, exist_sing_class, sing_leader)
// can record a single singular leader only (the last one found overwrites the
// previous ones) and non_redundant_matrix_entries() emits the 0-cycle of that
// class only: all the constraints of the other singular classes are flagged
// as redundant and thrown away.  BHMZ05_widening_assign(y) calls
// y.strong_reduction_assign() too, thereby corrupting its argument.
#include "ppl.hh"
#include <iostream>
using namespace Parma_Polyhedra_Library;
using namespace Parma_Polyhedra_Library::IO_Operators;

template <typename SH>
int run(const char* name) {
  Variable A(0), B(1);
  int fails = 0;
  SH x(2);
  x.add_constraint(2*A == 1);
  x.add_constraint(B == 0);
  const SH before(x);
  std::cout << name << ":\n  constraints()            = " << x.constraints() << std::endl;
  const SH& cx = x;
  Constraint_System mcs = cx.minimized_constraints();
  std::cout << "  minimized_constraints()  = " << mcs << std::endl;
  std::cout << "  constraints() afterwards = " << x.constraints() << std::endl;
  if (C_Polyhedron(mcs) != C_Polyhedron(before.constraints())) {
    std::cout << "FAIL: minimized_constraints() does not describe the shape (2*A = 1 lost)\n";
    ++fails;
  }
  if (!(x == before)) {
    std::cout << "FAIL: the const method minimized_constraints() changed the shape\n";
    ++fails;
  }
  Poly_Con_Relation r1 = before.relation_with(A >= 1), r2 = x.relation_with(A >= 1);
  std::cout << "  relation_with(A >= 1): before " << r1 << ", afterwards " << r2 << std::endl;
  if (r1 != r2) {
    std::cout << "FAIL: the answer of relation_with() depends on the history of the object\n";
    ++fails;
  }
  // The argument of the widening is damaged in the same way.
  Variable C(2);
  SH big(3), y(3);
  y.add_constraint(2*A == 1); y.add_constraint(B == 0);
  y.add_constraint(C >= 0); y.add_constraint(C <= 1);
  big.add_constraint(2*A == 1); big.add_constraint(B == 0);
  big.add_constraint(C >= 0); big.add_constraint(C <= 2);
  const SH y_before(y);
  big.BHMZ05_widening_assign(y);
  if (!(y == y_before)) {
    std::cout << "FAIL: x.BHMZ05_widening_assign(y) changed y from " << y_before
              << " to " << y << "\n";
    ++fails;
  }
  return fails;
}

int main() {
  int fails = 0;
  fails += run<Octagonal_Shape<mpq_class> >("Octagonal_Shape<mpq_class> (reference)");
  fails += run<Octagonal_Shape<mpz_class> >("Octagonal_Shape<mpz_class>");
  fails += run<Octagonal_Shape<int32_t> >("Octagonal_Shape<int32_t>");
  if (fails) return 1;
  std::cout << "PASS\n";
  return 0;
}
