// Grid::is_discrete() (Grid_public.cc) never looks at row 0 of the generator
// system; when the generators are not minimized a line can sit in row 0 and
// a grid that is a whole line is reported as discrete.  The answer changes
// once the generators get minimized (history dependent).
#include "ppl.hh"
#include <iostream>
using namespace Parma_Polyhedra_Library;
int main() {
  Variable A(0);
  Grid_Generator_System gs;
  gs.insert(grid_line(A));
  gs.insert(grid_point(0*A));
  Grid gr(gs);                 // the whole real line
  Grid copy(gr);
  bool before = gr.is_discrete();
  (void) copy.minimized_grid_generators();
  bool after = copy.is_discrete();
  std::cout << "is_discrete() of the grid {point 0, line A}: " << before
            << "   after minimizing the generators: " << after
            << "   is_universe(): " << gr.is_universe() << std::endl;
  if (before || after) {
    std::cout << "FAIL: a grid containing a line was reported discrete" << std::endl;
    return 1;
  }
  std::cout << "PASS" << std::endl;
  return 0;
}
