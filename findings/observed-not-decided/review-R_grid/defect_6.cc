// Grid::simplify_using_context_assign(y) (Grid_public.cc): when *this is
// empty and y is the universe no congruence of y can be contradicted, but
// the code still replaces *this by the universe grid.  The result is not
// meet-preserving: (*this /\ y) was empty and becomes the universe.
#include "ppl.hh"
#include <iostream>
using namespace Parma_Polyhedra_Library;
using namespace Parma_Polyhedra_Library::IO_Operators;
int main() {
  Grid x(2, EMPTY);
  Grid y(2, UNIVERSE);
  Grid meet_before(x);
  meet_before.intersection_assign(y);
  bool r = x.simplify_using_context_assign(y);
  Grid meet_after(x);
  meet_after.intersection_assign(y);
  std::cout << "returned " << r << ", x = " << x
            << ", x /\\ y before = " << meet_before
            << ", x /\\ y after = " << meet_after << std::endl;
  if (!(meet_before == meet_after) || (!r && !meet_after.is_empty())) {
    std::cout << "FAIL: the simplification of the empty grid in the universe "
                 "context is not meet-preserving (false was returned, which "
                 "promises an empty intersection)" << std::endl;
    return 1;
  }
  std::cout << "PASS" << std::endl;
  return 0;
}
