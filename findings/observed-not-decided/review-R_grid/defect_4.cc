// Grid::relation_with(const Constraint&) (Grid_public.cc), a const query,
// rewrites in place every point after the first one into a parameter and
// strongly normalizes it.  The normalization changes the divisor of that
// parameter, breaking the invariant that all points/parameters of gen_sys
// share one divisor; later conversions silently re-interpret the parameter
// with the system divisor, so the grid itself changes.
#include "ppl.hh"
#include <iostream>
using namespace Parma_Polyhedra_Library;
using namespace Parma_Polyhedra_Library::IO_Operators;
int main() {
  Variable A(0), B(1);
  Grid_Generator_System gs;
  gs.insert(grid_point(A + 0*B, 2));      // (1/2, 0)
  gs.insert(grid_point(3*A + 0*B, 2));    // (3/2, 0)
  Grid gr(gs);                            // { (1/2 + k, 0) : k integer }
  const Grid reference(gr);
  Grid witness(2, EMPTY);
  witness.add_grid_generator(grid_point(2*A + 0*B, 2));   // (1, 0): NOT in gr
  std::cout << "before: generators " << gr.grid_generators() << std::endl;
  Poly_Con_Relation rel = gr.relation_with(B >= 0);       // const query
  std::cout << "relation_with(B >= 0): " << rel << std::endl;
  std::cout << "after:  generators " << gr.grid_generators() << std::endl;
  std::cout << "after:  congruences " << gr.congruences() << std::endl;
  Grid ref2(reference);
  std::cout << "reference congruences " << ref2.congruences() << std::endl;
  bool ok = true;
  if (gr.contains(witness)) {
    std::cout << "the grid now contains the point (1, 0)" << std::endl;
    ok = false;
  }
  if (!(gr == reference)) {
    std::cout << "the grid differs from its copy taken before the query" << std::endl;
    ok = false;
  }
  std::cout << (ok ? "PASS" : "FAIL: relation_with(Constraint) changed the grid") << std::endl;
  return ok ? 0 : 1;
}
