// Grid::generalized_affine_preimage(var, EQUAL, expr, denominator, modulus)
// (Grid_public.cc) computes the preimage of  var' = expr/denominator (mod m)
// as the image of the inverse relation but keeps the modulus m unchanged;
// solving for var divides the modulus by coefficient(var)/denominator.
// With |coefficient| > |denominator| points of the preimage are lost.
#include "ppl.hh"
#include <iostream>
using namespace Parma_Polyhedra_Library;
using namespace Parma_Polyhedra_Library::IO_Operators;
int main() {
  Variable A(0);
  // gr = { 0 }.  Relation: A' = 3*A (mod 1).
  // Preimage = { a : 0 = 3a (mod 1) } = { k/3 : k integer }.
  Grid gr(1);
  gr.add_constraint(A == 0);
  gr.generalized_affine_preimage(A, EQUAL, 3*A, 1, 1);
  std::cout << "preimage of {0} under A' = 3*A (mod 1): " << gr << std::endl;

  // Cross-check through the generic (lhs, rhs) version, which is right.
  Grid gr2(1);
  gr2.add_constraint(A == 0);
  gr2.generalized_affine_preimage(Linear_Expression(A), EQUAL, 3*A, 1);
  std::cout << "same through generalized_affine_preimage(lhs, EQUAL, rhs, m): " << gr2 << std::endl;

  bool ok = true;
  // a = 1/3 is related to 1 = 0 (mod 1), so it belongs to the preimage.
  if (gr.relation_with(grid_point(A, 3)) != Poly_Gen_Relation::subsumes()) {
    std::cout << "the point A = 1/3 (3*(1/3) = 1 = 0 mod 1) is missing" << std::endl;
    ok = false;
  }
  if (!(gr == gr2)) {
    std::cout << "the two overloads disagree" << std::endl;
    ok = false;
  }
  std::cout << (ok ? "PASS" : "FAIL: generalized_affine_preimage loses points") << std::endl;
  return ok ? 0 : 1;
}
