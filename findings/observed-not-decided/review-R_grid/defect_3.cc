// Grid::relation_with(const Congruence&) (Grid_public.cc) is only correct
// when every point of the generator system is scanned before the parameters.
// With a (legal, non-minimized) generator system that lists a parameter
// first, the modulus `div' has already been reduced when the point is
// tested, the point is wrongly taken to satisfy the congruence and
// "is_included" is returned.  difference_assign() and the limited
// extrapolations rely on this answer and become unsound.
#include "ppl.hh"
#include <iostream>
using namespace Parma_Polyhedra_Library;
using namespace Parma_Polyhedra_Library::IO_Operators;
int main() {
  Variable A(0);
  bool ok = true;
  Grid_Generator_System gs1, gs2;
  gs1.insert(grid_point(0*A)); gs1.insert(parameter(2*A));   // point first
  gs2.insert(parameter(2*A)); gs2.insert(grid_point(0*A));   // parameter first
  Grid x1(gs1), x2(gs2);                                     // both are 2Z
  Congruence cg((A %= 1) / 3);                               // A = 1 (mod 3)
  Poly_Con_Relation r1 = x1.relation_with(cg);
  Poly_Con_Relation r2 = x2.relation_with(cg);
  std::cout << "x1 == x2: " << (x1 == x2) << std::endl;
  std::cout << "relation of 2Z with A = 1 (mod 3), point first:     " << r1 << std::endl;
  std::cout << "relation of 2Z with A = 1 (mod 3), parameter first: " << r2 << std::endl;
  if (r1 != Poly_Con_Relation::strictly_intersects()
      || r2 != Poly_Con_Relation::strictly_intersects())
    ok = false;

  // Consequence: the difference 2Z \ {A = 1 (mod 3)} loses the point 0.
  Grid y(1);
  y.add_congruence(cg);
  Grid d(gs2);
  d.difference_assign(y);
  std::cout << "2Z \\ (1 + 3Z) = " << d << std::endl;
  if (d.relation_with(grid_point(0*A)) != Poly_Gen_Relation::subsumes()) {
    std::cout << "  the point 0 (in 2Z, not in 1 + 3Z) was lost" << std::endl;
    ok = false;
  }
  // Consequence: limited extrapolation adds a congruence x does not satisfy.
  Grid x(gs2), x_prev(1, EMPTY);
  x_prev.add_grid_generator(grid_point(4*A));
  Congruence_System cgs(cg);
  x.limited_extrapolation_assign(x_prev, cgs);
  std::cout << "limited_extrapolation_assign(2Z, {4}, {A = 1 (mod 3)}) = " << x << std::endl;
  if (x.relation_with(grid_point(0*A)) != Poly_Gen_Relation::subsumes()) {
    std::cout << "  the result does not contain the point 0 of the first argument" << std::endl;
    ok = false;
  }
  std::cout << (ok ? "PASS" : "FAIL: relation_with(Congruence) depends on the order of the generators") << std::endl;
  return ok ? 0 : 1;
}
