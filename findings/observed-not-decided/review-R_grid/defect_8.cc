// Grid::frequency() (Grid::frequency_no_check, Grid_nonpublic.cc) documents
// val_n/val_d as "the value of expr at a point in the grid that is closest
// to zero", but just takes the C++ remainder of the value at the generating
// point, which can be farther from zero than another grid value.
// In the zero-dimensional case (Grid::frequency, Grid_public.cc) the value
// of a constant expression is reported as 0 whatever the constant.
#include "ppl.hh"
#include <iostream>
using namespace Parma_Polyhedra_Library;
int main() {
  Variable A(0);
  Grid gr(1);
  gr.add_congruence((A %= 0) / 3);          // A in 3Z
  Coefficient fn, fd, vn, vd;
  bool r = gr.frequency(A - 2, fn, fd, vn, vd);   // values ..., -5, -2, 1, 4, ...
  std::cout << "frequency(A - 2) on 3Z: returned " << r << ", frequency " << fn << "/" << fd
            << ", value " << vn << "/" << vd << "   (closest to zero is 1)" << std::endl;
  bool ok = true;
  if (!r || fn != 3 || fd != 1 || vn != 1 || vd != 1) {
    std::cout << "  the returned value is not the one closest to zero" << std::endl;
    ok = false;
  }
  Grid zd(0);
  r = zd.frequency(Linear_Expression(3), fn, fd, vn, vd);
  std::cout << "frequency(3) on the 0-dimensional universe: returned " << r << ", frequency "
            << fn << "/" << fd << ", value " << vn << "/" << vd << "   (the value is 3)" << std::endl;
  if (!r || fn != 0 || vn != 3 * vd) {
    std::cout << "  the value of the constant expression 3 is not 3" << std::endl;
    ok = false;
  }
  if (!ok) {
    std::cout << "FAIL: frequency() returns a wrong value" << std::endl;
    return 1;
  }
  std::cout << "PASS" << std::endl;
  return 0;
}
