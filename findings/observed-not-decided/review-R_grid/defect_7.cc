// Grid::wrap_assign() (Grid_public.cc) contradicts its documentation:
//  (a) OVERFLOW_WRAPS with a signed type leaves the wrapped constant outside
//      the range [-2^(w-1), 2^(w-1));
//  (b) OVERFLOW_IMPOSSIBLE collapses the variable to a single value as soon
//      as 2*frequency >= 2^w, although two (or zero) grid values may lie in
//      the range: values are lost / an empty result is missed.
#include "ppl.hh"
#include <iostream>
using namespace Parma_Polyhedra_Library;
using namespace Parma_Polyhedra_Library::IO_Operators;
static bool has(const Grid& g, long v) {
  return g.relation_with(grid_point(v * Variable(0))) == Poly_Gen_Relation::subsumes();
}
int main() {
  Variable A(0);
  Variables_Set vs(A);
  bool ok = true;
  {
    Grid gr(1);
    gr.add_constraint(A == 200);
    gr.wrap_assign(vs, BITS_8, SIGNED_2_COMPLEMENT, OVERFLOW_WRAPS);
    std::cout << "(a) signed 8-bit wrap of {A = 200}: " << gr << "   (expected A = -56)" << std::endl;
    if (!has(gr, -56)) ok = false;
  }
  {
    Grid gr(1);
    gr.add_congruence((A %= 128) / 256);
    gr.wrap_assign(vs, BITS_8, SIGNED_2_COMPLEMENT, OVERFLOW_WRAPS);
    std::cout << "(a) signed 8-bit wrap of {A = 128 mod 256}: " << gr << "   (expected A = -128)" << std::endl;
    if (!has(gr, -128)) ok = false;
  }
  {
    Grid gr(1);
    gr.add_congruence((A %= 0) / 128);
    gr.wrap_assign(vs, BITS_8, UNSIGNED, OVERFLOW_IMPOSSIBLE);
    std::cout << "(b) unsigned 8-bit, overflow impossible, {A = 0 mod 128}: " << gr
              << "   (0 and 128 are both in [0, 255]: expected unchanged)" << std::endl;
    if (!has(gr, 128)) ok = false;
  }
  {
    Grid gr(1);
    gr.add_congruence((A %= 10) / 200);
    gr.wrap_assign(vs, BITS_8, UNSIGNED, OVERFLOW_IMPOSSIBLE);
    std::cout << "(b) unsigned 8-bit, overflow impossible, {A = 10 mod 200}: " << gr
              << "   (10 and 210 are both in [0, 255]: expected unchanged)" << std::endl;
    if (!has(gr, 210)) ok = false;
  }
  {
    Grid gr(1);
    gr.add_congruence((A %= 300) / 512);
    gr.wrap_assign(vs, BITS_8, UNSIGNED, OVERFLOW_IMPOSSIBLE);
    std::cout << "(b) unsigned 8-bit, overflow impossible, {A = 300 mod 512}: " << gr
              << "   (no value in [0, 255]: expected false)" << std::endl;
    if (!gr.is_empty()) ok = false;
  }
  std::cout << (ok ? "PASS" : "FAIL: wrap_assign gives results outside / smaller than documented") << std::endl;
  return ok ? 0 : 1;
}
