// Grid::maximize()/minimize() (Grid::max_min, Grid_nonpublic.cc) forget to
// scale the inhomogeneous term of the expression by the divisor of the
// grid point: on the grid {A = 1/2} the value of A + 1 is reported as 1
// instead of 3/2.  In the zero-dimensional case the inhomogeneous term is
// dropped altogether (value 0 for the constant expression 3).
#include "ppl.hh"
#include <iostream>
using namespace Parma_Polyhedra_Library;
using namespace Parma_Polyhedra_Library::IO_Operators;
int main() {
  Variable A(0);
  Grid gr(1, EMPTY);
  gr.add_grid_generator(grid_point(A, 2));          // the single point A = 1/2
  Coefficient n, d; bool is_max; Generator g = point();
  bool ok = true;
  bool r = gr.maximize(A + 1, n, d, is_max, g);
  std::cout << "maximize(A + 1) over {A = 1/2}: returned " << r
            << ", value " << n << "/" << d << ", at " << g << std::endl;
  if (!r || n * 2 != 3 * d) {
    std::cout << "  expected 3/2" << std::endl;
    ok = false;
  }
  r = gr.minimize(Linear_Expression(5), n, d, is_max);
  std::cout << "minimize(5) over {A = 1/2}: returned " << r
            << ", value " << n << "/" << d << std::endl;
  if (!r || n != 5 * d) {
    std::cout << "  expected 5" << std::endl;
    ok = false;
  }
  // Zero-dimensional universe grid: the constant expression 3 has value 3.
  Grid zd(0);
  r = zd.maximize(Linear_Expression(3), n, d, is_max);
  std::cout << "maximize(3) over the 0-dimensional universe: returned " << r
            << ", value " << n << "/" << d << std::endl;
  if (!r || n != 3 * d) {
    std::cout << "  expected 3" << std::endl;
    ok = false;
  }
  // frequency() on the same grid gets it right, for comparison.
  Coefficient fn, fd, vn, vd;
  gr.frequency(A + 1, fn, fd, vn, vd);
  std::cout << "frequency(A + 1): value " << vn << "/" << vd << std::endl;
  std::cout << (ok ? "PASS" : "FAIL: maximize/minimize ignore the point divisor "
                "when adding the inhomogeneous term") << std::endl;
  return ok ? 0 : 1;
}
