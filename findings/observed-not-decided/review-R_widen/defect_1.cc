// Polyhedron::relation_with(const Congruence&): the scalar product of the
// "arbitrary generator point" is computed with the auxiliary constraint
// `c = (expr == 0)' (which has been sign- and gcd-normalized on construction)
// and with the generator's homogeneous coordinates (ignoring its divisor),
// but it is then used as if it were the value of `expr' at that point.
#include "ppl.hh"
#include <iostream>
using namespace Parma_Polyhedra_Library;
using namespace Parma_Polyhedra_Library::IO_Operators;

static int fails = 0;
static void check(const char* what, const Polyhedron& ph, const Congruence& cg,
                  const Poly_Con_Relation& expected) {
  Poly_Con_Relation got = ph.relation_with(cg);
  const bool ok = (got == expected);
  std::cout << (ok ? "ok   " : "WRONG") << " " << what << ": { " << ph << " } vs "
            << cg << " -> " << got << " (expected " << expected << ")\n";
  if (!ok) ++fails;
}

int main() {
  Variable A(0), B(1);
  const Poly_Con_Relation SI = Poly_Con_Relation::strictly_intersects();
  const Poly_Con_Relation INC = Poly_Con_Relation::is_included() && Poly_Con_Relation::saturates();

  // (a) sign normalization: B = 0 and B = 2 belong to the strip and satisfy the congruence.
  C_Polyhedron strip(2);
  strip.add_constraint(B >= 0);
  strip.add_constraint(B <= 3);
  check("a1  B == 0 (mod 2)", strip, (B %= 0) / 2, SI);
  check("a2 -B == 0 (mod 2)", strip, (-B %= 0) / 2, SI);   // same congruence, negated

  // (a) gcd normalization: at the only point A = 2 we have 2*A = 4 == 0 (mod 4).
  C_Polyhedron two(1);
  two.add_constraint(A == 2);
  check("a3 2*A == 0 (mod 4)", two, (2*A %= 0) / 4, INC);

  // (a) a tautological proper congruence: 2 == 0 (mod 1).
  check("a4 2 == 0 (mod 1)", strip, (Linear_Expression(2) %= 0) / 1, INC);

  // (b) divisor of the generator ignored: the only point is (1/2, 1/2), where A + B = 1.
  C_Polyhedron pt(2);
  pt.add_constraint(2*A == 1);
  pt.add_constraint(2*B == 1);
  check("b1 A + B == 0 (mod 1)", pt, (A + B %= 0) / 1, INC);
  // (b) the only point is A = 3/2, where 2*A = 3 == 1 (mod 2).
  C_Polyhedron pt2(1);
  pt2.add_constraint(2*A == 3);
  check("b2 2*A == 1 (mod 2)", pt2, (2*A %= 1) / 2, INC);

  std::cout << (fails == 0 ? "PASS" : "FAIL") << "\n";
  return fails == 0 ? 0 : 1;
}
