// Polyhedron::drop_some_non_integer_points() applied to the zero-dimensional
// universe polyhedron makes it empty, although its only point (the origin of
// R^0) is, by convention, an integer point: the operator must never drop
// integer points.  Box, BD_Shape, Octagonal_Shape and Grid leave it unchanged.
#include "ppl.hh"
#include <iostream>
using namespace Parma_Polyhedra_Library;

int main() {
  int fails = 0;
  C_Polyhedron c(0, UNIVERSE);
  std::cout << "C   0-dim universe: contains_integer_point() = " << c.contains_integer_point() << "\n";
  c.drop_some_non_integer_points();
  std::cout << "  after drop_some_non_integer_points(): is_empty() = " << c.is_empty() << "\n";
  if (c.is_empty()) ++fails;

  NNC_Polyhedron n(0, UNIVERSE);
  n.drop_some_non_integer_points(POLYNOMIAL_COMPLEXITY);
  std::cout << "NNC 0-dim universe after drop_some_non_integer_points(): is_empty() = " << n.is_empty() << "\n";
  if (n.is_empty()) ++fails;

  // Sibling implementations.
  Rational_Box b(0); b.drop_some_non_integer_points();
  BD_Shape<mpq_class> bd(0); bd.drop_some_non_integer_points();
  Octagonal_Shape<mpq_class> oc(0); oc.drop_some_non_integer_points();
  Grid g(0); g.drop_some_non_integer_points();
  std::cout << "siblings empty after the same call: Box " << b.is_empty() << ", BD_Shape " << bd.is_empty()
            << ", Octagonal_Shape " << oc.is_empty() << ", Grid " << g.is_empty() << "\n";

  // A visible consequence: the result is not even an upper bound of the
  // integer points of the argument when going through a dimension change.
  C_Polyhedron p(1);
  p.add_constraint(Variable(0) == 3);
  p.remove_higher_space_dimensions(0);       // non-empty, zero-dimensional
  p.drop_some_non_integer_points();
  p.add_space_dimensions_and_embed(1);
  std::cout << "{A = 3} projected to R^0, tightened, embedded back in R^1: is_empty() = " << p.is_empty() << "\n";
  if (p.is_empty()) ++fails;

  std::cout << (fails == 0 ? "PASS" : "FAIL") << "\n";
  return fails == 0 ? 0 : 1;
}
