// Polyhedron::simplify_using_context_assign(y) is not meet-preserving when an
// implicit equality of the intersection is produced by SEVERAL inequalities of
// *this (in the context of y): only the first saturated inequality found is
// kept ("masked equality"), all the other saturated inequalities are then
// dropped as redundant.
#include "ppl.hh"
#include <iostream>
using namespace Parma_Polyhedra_Library;
using namespace Parma_Polyhedra_Library::IO_Operators;

template <typename PH>
int test(const char* name) {
  Variable A(0), B(1);
  PH x(2);                        // the cone  -A <= B <= A
  x.add_constraint(A - B >= 0);
  x.add_constraint(A + B >= 0);
  PH y(2);                        // the line  A = 0
  y.add_constraint(A == 0);
  PH x_meet_y(x);
  x_meet_y.intersection_assign(y);           // the origin only

  PH r(x);
  bool nonempty = r.simplify_using_context_assign(y);
  PH r_meet_y(r);
  r_meet_y.intersection_assign(y);
  std::cout << name << ": x = { " << x << " }, y = { " << y << " }\n"
            << "  simplified x = { " << r << " } (returned " << nonempty << ")\n"
            << "  x /\\ y = { " << x_meet_y << " }\n"
            << "  r /\\ y = { " << r_meet_y << " }\n";
  bool ok = nonempty && (r_meet_y == x_meet_y) && r.contains(x);
  std::cout << "  meet-preserving: " << (r_meet_y == x_meet_y) << ", enlargement: " << r.contains(x) << "\n";
  return ok ? 0 : 1;
}

int main() {
  int fails = test<C_Polyhedron>("C_Polyhedron") + test<NNC_Polyhedron>("NNC_Polyhedron");
  std::cout << (fails == 0 ? "PASS" : "FAIL") << "\n";
  return fails == 0 ? 0 : 1;
}
