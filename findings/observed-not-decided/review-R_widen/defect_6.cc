// Polyhedron::simplify_using_context_assign(y) can return a polyhedron that is
// NOT an enlargement of *this (the documentation promises a "meet-preserving
// enlargement simplification"): when an implicit equality of the intersection
// is due to an inequality of the CONTEXT y, that inequality of y is copied
// into the result (in a debug build the assertion `i >= y_cs_num_ineq' fails).
#include "ppl.hh"
#include <iostream>
using namespace Parma_Polyhedra_Library;
using namespace Parma_Polyhedra_Library::IO_Operators;

template <typename PH>
int test(const char* name) {
  Variable A(0), B(1);
  PH x(2);                        // the half-line  A = 0, B >= 1
  x.add_constraint(A == 0);
  x.add_constraint(B >= 1);
  PH y(2);                        // a wedge in A >= 0 with apex (0, 2)
  y.add_constraint(A + B <= 2);
  y.add_constraint(2*A + B >= 2);
  PH x_meet_y(x);
  x_meet_y.intersection_assign(y);           // the point (0, 2)

  PH r(x);
  bool nonempty = r.simplify_using_context_assign(y);
  PH r_meet_y(r);
  r_meet_y.intersection_assign(y);
  std::cout << name << ": x = { " << x << " }, y = { " << y << " }\n"
            << "  simplified x = { " << r << " } (returned " << nonempty << ")\n"
            << "  meet-preserving: " << (r_meet_y == x_meet_y)
            << ", enlargement (result contains x): " << r.contains(x) << "\n";
  if (!r.contains(x))
    std::cout << "  e.g. the point (0, 1) of x is not in the result: "
              << (r.relation_with(point(B)) == Poly_Gen_Relation::subsumes() ? "in" : "out") << "\n";
  bool ok = nonempty && (r_meet_y == x_meet_y) && r.contains(x);
  return ok ? 0 : 1;
}

int main() {
  int fails = test<C_Polyhedron>("C_Polyhedron") + test<NNC_Polyhedron>("NNC_Polyhedron");
  std::cout << (fails == 0 ? "PASS" : "FAIL") << "\n";
  return fails == 0 ? 0 : 1;
}
