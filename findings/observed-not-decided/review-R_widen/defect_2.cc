// Polyhedron::relation_with(const Congruence&): a polyhedron that only
// *touches* one of the two hyperplanes surrounding the chosen generator point
// (i.e. it is included in the corresponding half-space but has points on its
// boundary) is reported as IS_DISJOINT, although the touching points satisfy
// the congruence.  The outcome also depends on which generator happens to be
// the first point of the generator system.
// (The examples use unit, positive coefficients and integral vertices, so they
// are not affected by the scalar-product problem shown in defect_1.cc.)
#include "ppl.hh"
#include <iostream>
using namespace Parma_Polyhedra_Library;
using namespace Parma_Polyhedra_Library::IO_Operators;

static int fails = 0;
static void check(const Polyhedron& ph, const Congruence& cg,
                  const Poly_Con_Relation& expected) {
  Poly_Con_Relation got = ph.relation_with(cg);
  const bool ok = (got == expected);
  std::cout << (ok ? "ok   " : "WRONG") << " { " << ph << " } vs "
            << cg << " -> " << got << " (expected " << expected << ")\n";
  if (!ok) ++fails;
}

int main() {
  Variable A(0), B(1);
  const Poly_Con_Relation SI = Poly_Con_Relation::strictly_intersects();
  const Congruence cg = (A %= 0) / 4;    // A in { ..., -4, 0, 4, 8, ... }

  // Segments having exactly one end point on a hyperplane A = 4k.
  C_Polyhedron s1(1); s1.add_constraint(A >= 1); s1.add_constraint(A <= 4);   // contains A = 4
  C_Polyhedron s2(1); s2.add_constraint(A >= 4); s2.add_constraint(A <= 7);   // contains A = 4
  C_Polyhedron s3(1); s3.add_constraint(A >= 0); s3.add_constraint(A <= 2);   // contains A = 0
  C_Polyhedron s4(1); s4.add_constraint(A >= -2); s4.add_constraint(A <= 0);  // contains A = 0
  check(s1, cg, SI);
  check(s2, cg, SI);
  check(s3, cg, SI);
  check(s4, cg, SI);

  // The same set, described by two different generator systems.
  Generator_System g1; g1.insert(point(A)); g1.insert(point(4*A));
  Generator_System g2; g2.insert(point(4*A)); g2.insert(point(A));
  C_Polyhedron p1(g1), p2(g2);
  Poly_Con_Relation r1 = p1.relation_with(cg), r2 = p2.relation_with(cg);
  std::cout << "[1,4] built from {p(A), p(4A)}: " << r1
            << ";  built from {p(4A), p(A)}: " << r2 << "\n";
  if (r1 != SI || r2 != SI) ++fails;

  // A triangle with an edge on A = 4, lying in 1 <= A <= 4.
  NNC_Polyhedron t(2);
  t.add_constraint(A <= 4); t.add_constraint(A - B >= 1); t.add_constraint(A + B >= 1);
  check(t, cg, SI);

  std::cout << (fails == 0 ? "PASS" : "FAIL") << "\n";
  return fails == 0 ? 0 : 1;
}
