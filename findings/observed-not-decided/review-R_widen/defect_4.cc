// BHRZ03_Certificate (and hence Polyhedron::BHRZ03_widening_assign) depends on
// the internal representation of the argument: for a polyhedron with a
// non-trivial lineality space the rays of the minimized generator system are
// only determined modulo the lines, and the certificate counts their null
// coordinates as they happen to be stored.  Two equal C polyhedra therefore
// get different certificates, and widening the same `x' with two equal `y'
// gives two different results.
#include "ppl.hh"
#include <iostream>
using namespace Parma_Polyhedra_Library;
using namespace Parma_Polyhedra_Library::IO_Operators;

int main() {
  Variable A(0), B(1), C(2);
  int fails = 0;

  Constraint_System y_cs;
  y_cs.insert(-A + 3*B >= 3);
  y_cs.insert(3*A + 2*B + 2*C >= -1);
  C_Polyhedron y1(y_cs);                      // described by constraints
  C_Polyhedron y2(y1.generators());           // same set, described by generators
  std::cout << "y1 == y2: " << (y1 == y2) << "\n";
  std::cout << "minimized generators of y1: " << y1.minimized_generators() << "\n";
  std::cout << "minimized generators of y2: " << y2.minimized_generators() << "\n";

  BHRZ03_Certificate c1(y1), c2(y2);
  int cmp = c1.compare(c2);
  std::cout << "BHRZ03_Certificate(y1).compare(BHRZ03_Certificate(y2)) = " << cmp << " (expected 0)\n";
  if (cmp != 0) ++fails;
  std::cout << "BHRZ03_Certificate(y1).compare(y2) = " << c1.compare(y2) << " (expected 0)\n";

  Constraint_System x_cs;
  x_cs.insert(-2*A + 6*B >= -7);
  x_cs.insert(3*A + 2*B + 2*C >= -9);
  C_Polyhedron x(x_cs);
  std::cout << "x contains y: " << x.contains(y1) << "\n";
  C_Polyhedron x1(x), x2(x);
  x1.BHRZ03_widening_assign(y1);
  x2.BHRZ03_widening_assign(y2);
  std::cout << "x widened with y1: " << x1 << "\n";
  std::cout << "x widened with y2: " << x2 << "\n";
  if (!(x1 == x2)) ++fails;

  std::cout << (fails == 0 ? "PASS" : "FAIL") << "\n";
  return fails == 0 ? 0 : 1;
}
