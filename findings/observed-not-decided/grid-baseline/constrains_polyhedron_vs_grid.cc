#include "ppl.hh"
#include <iostream>
using namespace Parma_Polyhedra_Library;
int main() {
  Variable A(0), B(1);
  Generator_System gs; gs.insert(point(0*B)); gs.insert(line(A));
  C_Polyhedron p(2, EMPTY); p = C_Polyhedron(gs);
  std::cout << "polyhedron p(0), l(A): constrains(A) = " << p.constrains(A) << " (expected 0), constrains(B) = " << p.constrains(B) << " (expected 1)\n";
  Generator_System gs2; gs2.insert(point(0*B)); gs2.insert(ray(A)); gs2.insert(ray(-A));
  C_Polyhedron q(gs2);
  std::cout << "polyhedron p(0), r(A), r(-A): constrains(A) = " << q.constrains(A) << " (expected 0)\n";
  Grid_Generator_System ggs; ggs.insert(grid_point(0*B)); ggs.insert(grid_line(A));
  Grid g(ggs);
  std::cout << "grid p(0), l(A): constrains(A) = " << g.constrains(A) << " (expected 0), constrains(B) = " << g.constrains(B) << " (expected 1)\n";
  return 0;
}
