// Baseline defect: Grid::relation_with(const Congruence&) ignores the divisor
// of grid points (and the reduction of the scalar product is done modulo the
// modulus instead of modulus * divisor).
#include "ppl.hh"
#include <iostream>

using namespace Parma_Polyhedra_Library;
using namespace Parma_Polyhedra_Library::IO_Operators;

static const char* name(const Poly_Con_Relation& r) {
  if (r == Poly_Con_Relation::is_disjoint()) return "is_disjoint";
  if (r == Poly_Con_Relation::is_included()) return "is_included";
  if (r == Poly_Con_Relation::strictly_intersects())
    return "strictly_intersects";
  if (r == (Poly_Con_Relation::is_included() && Poly_Con_Relation::saturates()))
    return "is_included && saturates";
  return "(other)";
}

int main() {
  Variable A(0);
  int bad = 0;

  // 1. The single point A = 1/2 against "A is an integer".
  {
    Grid g(1, EMPTY);
    g.add_grid_generator(grid_point(A, 2));
    Poly_Con_Relation r = g.relation_with(A %= 0);
    Grid meet(g);
    meet.add_congruence(A %= 0);
    std::cout << "grid {1/2}, congruence A = 0 (mod 1): relation_with = "
              << name(r) << "; expected is_disjoint (intersection is_empty() = "
              << meet.is_empty() << ")" << std::endl;
    if (!(r == Poly_Con_Relation::is_disjoint())) ++bad;
  }
  // 2. The half-integer grid {1/2 + k} against "A is an integer".
  {
    Grid g(1, EMPTY);
    g.add_grid_generator(grid_point(A, 2));
    g.add_grid_generator(parameter(A));
    Poly_Con_Relation r = g.relation_with(A %= 0);
    Grid meet(g);
    meet.add_congruence(A %= 0);
    std::cout << "grid {1/2 + k}, congruence A = 0 (mod 1): relation_with = "
              << name(r) << "; expected is_disjoint (intersection is_empty() = "
              << meet.is_empty() << ")" << std::endl;
    if (!(r == Poly_Con_Relation::is_disjoint())) ++bad;
  }
  // 3. The grid {k/2} against "A is an integer": some points in, some out.
  {
    Grid g(1, EMPTY);
    g.add_grid_generator(grid_point());
    g.add_grid_generator(parameter(A, 2));
    Poly_Con_Relation r = g.relation_with(A %= 0);
    std::cout << "grid {k/2}, congruence A = 0 (mod 1): relation_with = "
              << name(r) << "; expected strictly_intersects" << std::endl;
    if (!(r == Poly_Con_Relation::strictly_intersects())) ++bad;
  }
  // 4. The grid {1/2 + 2k} against A = 1 (mod 2) (odd integers): disjoint.
  {
    Grid g(1, EMPTY);
    g.add_grid_generator(grid_point(A, 2));
    g.add_grid_generator(parameter(2*A));
    Poly_Con_Relation r = g.relation_with((A %= 1) / 2);
    std::cout << "grid {1/2 + 2k}, congruence A = 1 (mod 2): relation_with = "
              << name(r) << "; expected is_disjoint" << std::endl;
    if (!(r == Poly_Con_Relation::is_disjoint())) ++bad;
  }
  std::cout << (bad ? "DEFECT SHOWN" : "no defect") << " (" << bad
            << " wrong answers)" << std::endl;
  return bad ? 1 : 0;
}
