// Baseline defect: Grid::constrains(var) answers true when it finds the
// generator line(var), i.e. exactly when var is certainly NOT constrained.
// The branch is taken when only the generators are up to date.
#include "ppl.hh"
#include <iostream>

using namespace Parma_Polyhedra_Library;
using namespace Parma_Polyhedra_Library::IO_Operators;

int main() {
  Variable A(0), B(1);
  // { (a, 0) : a real } : A is free, B is fixed to 0.
  Grid g(2, EMPTY);
  g.add_grid_generator(grid_point());
  g.add_grid_generator(grid_line(A));

  // Same grid, but with the congruences computed before asking.
  Grid h(g);
  (void) h.congruences();

  bool gA = g.constrains(A);
  bool hA = h.constrains(A);
  bool gB = g.constrains(B);
  std::cout << "grid: " << h.grid_generators() << "  i.e. "
            << h.congruences() << std::endl;
  std::cout << "generators only : constrains(A) = " << gA
            << "   (expected 0: line(A) is in the grid)" << std::endl;
  std::cout << "with congruences: constrains(A) = " << hA
            << "   (expected 0)" << std::endl;
  std::cout << "generators only : constrains(B) = " << gB
            << "   (expected 1)" << std::endl;
  bool defect = gA || hA || !gB;
  std::cout << (defect ? "DEFECT SHOWN" : "no defect") << std::endl;
  return defect ? 1 : 0;
}
