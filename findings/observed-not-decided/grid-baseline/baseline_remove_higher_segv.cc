// Baseline defect: Grid::remove_higher_space_dimensions() on a grid whose
// generators are minimized and whose affine dimension is lower than the
// space dimension.  Public API only.  Each scenario runs in a child process
// so that a crash can be reported.
#include "ppl.hh"
#include <iostream>
#include <sys/types.h>
#include <sys/wait.h>
#include <unistd.h>

using namespace Parma_Polyhedra_Library;
using namespace Parma_Polyhedra_Library::IO_Operators;

static int scenario(int n) {
  Variable A(0), B(1), C(2);
  Grid g(3, EMPTY);
  Grid expected(1, EMPTY);
  if (n == 1) {
    // The single point (1, 2, 3); projecting on A gives the point A = 1.
    g.add_grid_generator(grid_point(A + 2*B + 3*C));
    expected.add_grid_generator(grid_point(A));
  }
  else {
    // { (i, j, 0) : i, j integer } ; projecting on A gives the integers.
    g.add_grid_generator(grid_point());
    g.add_grid_generator(parameter(A));
    g.add_grid_generator(parameter(B));
    expected.add_grid_generator(grid_point());
    expected.add_grid_generator(parameter(A));
  }
  (void) g.minimized_grid_generators();   // generators minimized
  g.remove_higher_space_dimensions(1);
  std::cout << "  observed generators: " << g.grid_generators() << std::endl;
  std::cout << "  observed congruences: " << g.congruences() << std::endl;
  bool ok = g.space_dimension() == 1
    && g.contains(expected) && expected.contains(g);
  std::cout << "  result is " << (ok ? "" : "NOT ") << "the expected grid "
            << expected.grid_generators() << std::endl;
  return ok ? 0 : 1;
}

int main() {
  int bad = 0;
  for (int n = 1; n <= 2; ++n) {
    std::cout << "scenario " << n << ": 3-dim grid "
              << (n == 1 ? "{(1,2,3)}" : "{(i,j,0) : i, j integer}")
              << ", minimized generators, remove_higher_space_dimensions(1);"
              << " expected: the 1-dim grid "
              << (n == 1 ? "{A = 1}" : "{A integer}") << std::endl;
    std::cout.flush();
    pid_t pid = fork();
    if (pid == 0) {
      int r = scenario(n);
      std::cout.flush();
      _exit(r);
    }
    int status = 0;
    waitpid(pid, &status, 0);
    if (WIFSIGNALED(status)) {
      std::cout << "  observed: child killed by signal " << WTERMSIG(status)
                << " (crash)" << std::endl;
      ++bad;
    }
    else if (WEXITSTATUS(status) != 0) {
      std::cout << "  observed: wrong result" << std::endl;
      ++bad;
    }
    else
      std::cout << "  observed: correct" << std::endl;
  }
  std::cout << (bad ? "DEFECT SHOWN" : "no defect") << std::endl;
  return bad ? 1 : 0;
}
