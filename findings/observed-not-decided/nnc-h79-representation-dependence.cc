#include <ppl.hh>
#include <iostream>
#include <cstdlib>
#include <vector>
using namespace Parma_Polyhedra_Library;
using namespace Parma_Polyhedra_Library::IO_Operators;
static int rnd(int lo, int hi) { return lo + rand() % (hi - lo + 1); }
NNC_Polyhedron random_ph(int dim, bool allow_strict) {
  NNC_Polyhedron p(dim);
  int n = rnd(1, 4);
  for (int k = 0; k < n; ++k) {
    Linear_Expression e;
    for (int d = 0; d < dim; ++d) e += rnd(-2, 2) * Variable(d);
    e += rnd(-3, 3);
    int kind = rnd(0, allow_strict ? 3 : 2);
    if (kind == 0) p.add_constraint(e >= 0);
    else if (kind == 1) p.add_constraint(e == 0);
    else if (kind == 2) p.add_constraint(e <= 0);
    else p.add_constraint(e > 0);
  }
  return p;
}
NNC_Polyhedron rebuild(const NNC_Polyhedron& p, int how) {
  int dim = p.space_dimension();
  switch (how) {
  case 0: return p;
  case 1: { Generator_System gs = p.minimized_generators(); return NNC_Polyhedron(gs); }
  case 2: { std::vector<Constraint> v; for (Constraint_System::const_iterator i = p.constraints().begin(); i != p.constraints().end(); ++i) v.push_back(*i);
            NNC_Polyhedron q(dim); for (size_t k = v.size(); k-- > 0; ) q.add_constraint(v[k]); return q; }
  case 3: { std::vector<Generator> v; for (Generator_System::const_iterator i = p.generators().begin(); i != p.generators().end(); ++i) v.push_back(*i);
            NNC_Polyhedron q(dim, EMPTY);
            // points first so that insertion is legal
            for (size_t k = 0; k < v.size(); ++k) if (v[k].is_point()) q.add_generator(v[k]);
            for (size_t k = v.size(); k-- > 0; ) if (!v[k].is_point()) q.add_generator(v[k]);
            return q; }
  case 4: { NNC_Polyhedron q = rebuild(p, 1); (void) q.minimized_constraints(); return q; }
  case 5: { NNC_Polyhedron q = rebuild(p, 2); (void) q.minimized_generators(); (void) q.minimized_constraints(); return q; }
  }
  return p;
}
int main(int argc, char** argv) {
  int N = argc > 1 ? atoi(argv[1]) : 20000;
  srand(argc > 2 ? atoi(argv[2]) : 1);
  int bad = 0, done = 0;
  for (int it = 0; it < N && bad < 5; ++it) {
    int dim = rnd(1, 3);
    NNC_Polyhedron y = random_ph(dim, getenv("NOSTRICT") ? false : it % 2);
    if (y.is_empty()) continue;
    NNC_Polyhedron x = random_ph(dim, getenv("NOSTRICTX") ? false : it % 3 == 0);
    x.upper_bound_assign(y);
    ++done;
    NNC_Polyhedron ref;
    for (int hx = 0; hx < 6; ++hx)
      for (int hy = 0; hy < 6; ++hy) {
        NNC_Polyhedron xx = rebuild(x, hx), yy = rebuild(y, hy);
        if (xx != x || yy != y) { std::cout << "rebuild mismatch\n"; return 2; }
        xx.H79_widening_assign(yy);
        if (hx == 0 && hy == 0) ref = xx;
        else if (xx != ref) {
          ++bad;
          std::cout << "MISMATCH it=" << it << " hx=" << hx << " hy=" << hy << "\n y = " << y << "\n x = " << x << "\n ref = " << ref << "\n got = " << xx << std::endl;
          hx = 6; break;
        }
      }
  }
  std::cout << "done " << done << " bad " << bad << std::endl;
  return bad ? 1 : 0;
}
