#include <ppl.hh>
#include <iostream>
using namespace Parma_Polyhedra_Library;
using namespace Parma_Polyhedra_Library::IO_Operators;
int main() {
  Variable A(0), B(1);
  {
    PIP_Problem pip(2);
    pip.add_to_parameter_space_dimensions(Variables_Set(B));
    pip.add_constraint(-3*A - B >= 0);
    PIP_Problem_Status st = pip.solve();
    std::cout << "-3A - B >= 0 (B param): " << (st == UNFEASIBLE_PIP_PROBLEM ? "UNFEASIBLE" : "OPTIMIZED") << "\n";
    if (pip.solution()) pip.print_solution(std::cout);
  }
  {
    PIP_Problem pip(2);
    pip.add_to_parameter_space_dimensions(Variables_Set(B));
    pip.add_constraint(-A - B >= 0);
    PIP_Problem_Status st = pip.solve();
    std::cout << "-A - B >= 0 (B param): " << (st == UNFEASIBLE_PIP_PROBLEM ? "UNFEASIBLE" : "OPTIMIZED") << "\n";
    if (pip.solution()) pip.print_solution(std::cout);
  }
  {
    PIP_Problem pip(2);
    pip.add_to_parameter_space_dimensions(Variables_Set(B));
    pip.add_constraint(A + B <= 0);
    pip.add_constraint(B <= 0);
    PIP_Problem_Status st = pip.solve();
    std::cout << "with B<=0: " << (st == UNFEASIBLE_PIP_PROBLEM ? "UNFEASIBLE" : "OPTIMIZED") << "\n";
    if (pip.solution()) pip.print_solution(std::cout);
  }
}
