// Box::relation_with(const Generator&): when the generator has a smaller
// space dimension than the box, the coordinates of the missing dimensions
// (which are implicitly zero) are never compared with the box intervals,
// so a point lying outside the box is reported as subsumed.
#include "ppl.hh"
#include <iostream>
using namespace Parma_Polyhedra_Library;
using namespace Parma_Polyhedra_Library::IO_Operators;

int main() {
  Variable A(0), B(1);
  Rational_Box box(2);
  box.add_constraint(B >= 1);
  box.add_constraint(B <= 2);           // A free, B in [1,2]
  C_Polyhedron ph(box);

  Generator g1 = point(0*A);            // space dimension 1: the point (0, 0)
  Generator g2 = point(0*A + 0*B);      // space dimension 2: the same point

  Poly_Gen_Relation r1 = box.relation_with(g1);
  Poly_Gen_Relation r2 = box.relation_with(g2);
  Poly_Gen_Relation p1 = ph.relation_with(g1);
  std::cout << "box " << box << std::endl;
  std::cout << "g1 = " << g1 << " (space dim " << g1.space_dimension() << "): Box "
            << r1 << ", Polyhedron " << p1 << std::endl;
  std::cout << "g2 = " << g2 << " (space dim " << g2.space_dimension() << "): Box "
            << r2 << std::endl;
  if (r1 != r2 || r1 != p1) {
    std::cout << "FAIL: the point (0,0) is not in the box (B >= 1) but is reported as "
                 "subsumed when given as a 1-dimensional generator" << std::endl;
    return 1;
  }
  std::cout << "PASS" << std::endl;
  return 0;
}
