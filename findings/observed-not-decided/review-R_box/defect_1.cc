// Box::relation_with(const Constraint&): an interval constraint that is an
// UPPER bound (negative coefficient) on a variable whose interval is unbounded
// from above is always reported as "strictly intersects", even when the
// interval lies entirely above the bound (so that box and constraint are
// disjoint).  The mirror case (lower-bound constraint, interval unbounded
// from below) is handled correctly.
#include "ppl.hh"
#include <iostream>
using namespace Parma_Polyhedra_Library;
using namespace Parma_Polyhedra_Library::IO_Operators;

int main() {
  Variable A(0);
  int fails = 0;

  Rational_Box box(1);
  box.add_constraint(A >= 1);              // A in [1, +inf)
  NNC_Polyhedron ph(box);

  Constraint cs[] = { Constraint(A <= 0), Constraint(A < 1), Constraint(-3*A > -1) };
  for (unsigned k = 0; k < 3; ++k) {
    Poly_Con_Relation rb = box.relation_with(cs[k]);
    Poly_Con_Relation rp = ph.relation_with(cs[k]);
    std::cout << "box " << box << "  constraint " << cs[k]
              << "  Box: " << rb << "  Polyhedron: " << rp << std::endl;
    if (rb != rp) ++fails;
  }
  // Mirror image (handled correctly): A in (-inf, -1], constraint A >= 0.
  Rational_Box mbox(1);
  mbox.add_constraint(A <= -1);
  Poly_Con_Relation rm = mbox.relation_with(A >= 0);
  std::cout << "mirror: box " << mbox << "  constraint A >= 0  Box: " << rm << std::endl;
  if (rm != Poly_Con_Relation::is_disjoint()) ++fails;

  if (fails) {
    std::cout << "FAIL: relation_with(c) says STRICTLY_INTERSECTS for a box that is "
                 "disjoint from the constraint" << std::endl;
    return 1;
  }
  std::cout << "PASS" << std::endl;
  return 0;
}
