// Box::generalized_affine_preimage(lhs, relsym, rhs) with exactly ONE variable v
// in lhs, where v does not occur in rhs.  The preimage must leave v
// unconstrained (any old value of v is fine as long as SOME new value of v in
// the box satisfies the relation); Box keeps -- and even refines -- the
// interval of v, losing points of the exact preimage.
#include "ppl.hh"
#include <iostream>
using namespace Parma_Polyhedra_Library;
using namespace Parma_Polyhedra_Library::IO_Operators;

int main() {
  Variable A(0), B(1);
  int fails = 0;
  for (int k = 0; k < 2; ++k) {
    Rational_Box box(2);
    box.add_constraint(A >= 0); box.add_constraint(A <= 1);
    box.add_constraint(B >= 0); box.add_constraint(B <= 5);
    NNC_Polyhedron ph(box);
    Linear_Expression lhs = (k == 0) ? Linear_Expression(A) : Linear_Expression(-A - 2);
    Linear_Expression rhs = (k == 0) ? Linear_Expression(B) : Linear_Expression(2);
    Relation_Symbol rel = (k == 0) ? EQUAL : LESS_OR_EQUAL;
    std::cout << "box " << box << ";  preimage of  " << lhs << (k == 0 ? " == " : " <= ") << rhs << std::endl;
    box.generalized_affine_preimage(lhs, rel, rhs);
    ph.generalized_affine_preimage(lhs, rel, rhs);
    Rational_Box exact(ph);
    std::cout << "  Box result:               " << box << std::endl;
    std::cout << "  bounding box of exact one: " << exact << std::endl;
    if (!box.contains(exact)) ++fails;
  }
  if (fails) {
    std::cout << "FAIL: the Box preimage does not contain the exact preimage" << std::endl;
    return 1;
  }
  std::cout << "PASS" << std::endl;
  return 0;
}
