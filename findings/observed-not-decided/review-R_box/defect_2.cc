// Box::relation_with(const Congruence&): the computation of the congruence
// representative closest to the lower end of the interval is wrong, so that
// boxes that do contain points satisfying a proper congruence are reported
// as IS_DISJOINT.
#include "ppl.hh"
#include <iostream>
using namespace Parma_Polyhedra_Library;
using namespace Parma_Polyhedra_Library::IO_Operators;

static int check(const Rational_Box& box, const Congruence& cg, const Generator& witness) {
  Poly_Con_Relation r = box.relation_with(cg);
  // `witness' is a point of the box that satisfies the congruence.
  bool in_box = (box.relation_with(witness) == Poly_Gen_Relation::subsumes());
  Grid gr(box.space_dimension());
  gr.add_congruence(cg);
  bool sat = (gr.relation_with(Grid_Generator(grid_point(Linear_Expression(witness.expression()),
                                                         witness.divisor())))
              == Poly_Gen_Relation::subsumes());
  std::cout << "box " << box << "   cg " << cg << "   relation: " << r
            << "   witness " << witness << " in box: " << in_box
            << ", satisfies cg: " << sat << std::endl;
  return (in_box && sat && r.implies(Poly_Con_Relation::is_disjoint())) ? 1 : 0;
}

int main() {
  Variable A(0);
  int fails = 0;
  {
    Rational_Box box(1);
    box.add_constraint(A >= 2);
    box.add_constraint(A <= 4);
    fails += check(box, (A + 2 %= 0) / 3, point(4*A));       // 4 + 2 = 6 = 0 mod 3
  }
  {
    Rational_Box box(1);
    box.add_constraint(A >= -5);
    box.add_constraint(2*A <= -9);
    fails += check(box, (A - 1 %= 0) / 3, point(-5*A));      // -5 - 1 = -6 = 0 mod 3
  }
  {
    Rational_Box box(1);
    box.add_constraint(2*A >= 1);
    box.add_constraint(A <= 3);
    fails += check(box, (A %= 0) / 3, point(3*A));           // 3 = 0 mod 3
  }
  if (fails) {
    std::cout << "FAIL: " << fails << " box(es) reported disjoint from a congruence "
                 "they have a common point with" << std::endl;
    return 1;
  }
  std::cout << "PASS" << std::endl;
  return 0;
}
