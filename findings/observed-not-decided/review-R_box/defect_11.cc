// (Root cause outside Box/Interval: Linear_System::back_substitute(), reached
// through Polyhedron::simplified_constraints().)
// Box(const Polyhedron&, POLYNOMIAL_COMPLEXITY) throws std::length_error
// ("Variable(i): i exceeds the maximum allowed variable identifier") when the
// constraint system of the polyhedron contains the variable-free equality
// 0 = 1, which is exactly what Polyhedron::constraints() returns for an empty
// polyhedron.  The other complexity classes build the empty box.
#include "ppl.hh"
#include <iostream>
using namespace Parma_Polyhedra_Library;
using namespace Parma_Polyhedra_Library::IO_Operators;

int main() {
  Variable A(0);
  C_Polyhedron e(1);
  e.add_constraint(A >= 1);
  e.add_constraint(A <= 0);
  (void) e.is_empty();
  Constraint_System cs = e.constraints();      // { 0 = 1 } in a 1-dim space
  std::cout << "constraints of the empty polyhedron: " << cs << std::endl;
  int fails = 0;
  Complexity_Class cc[] = { ANY_COMPLEXITY, SIMPLEX_COMPLEXITY, POLYNOMIAL_COMPLEXITY };
  const char* nm[] = { "ANY_COMPLEXITY", "SIMPLEX_COMPLEXITY", "POLYNOMIAL_COMPLEXITY" };
  for (int k = 0; k < 3; ++k) {
    C_Polyhedron ph(cs);                       // not (yet) marked empty
    try {
      Rational_Box b(ph, cc[k]);
      std::cout << nm[k] << ": box = " << b << std::endl;
      if (!b.is_empty()) ++fails;
    }
    catch (const std::exception& ex) {
      std::cout << nm[k] << ": EXCEPTION " << ex.what() << std::endl;
      ++fails;
    }
  }
  if (fails) {
    std::cout << "FAIL: Box(ph, POLYNOMIAL_COMPLEXITY) throws on a legal (empty) polyhedron" << std::endl;
    return 1;
  }
  std::cout << "PASS" << std::endl;
  return 0;
}
