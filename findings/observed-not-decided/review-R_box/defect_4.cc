// Box::simplify_using_context_assign(y): when the meet of *this and y is empty
// because of the i-th interval, the code resets "the other" intervals to
// UNIVERSE, but the first reset loop also overwrites interval i itself.
// The result is the universe box, whose meet with y is y (not empty):
// the simplification is not meet-preserving.
#include "ppl.hh"
#include <iostream>
using namespace Parma_Polyhedra_Library;
using namespace Parma_Polyhedra_Library::IO_Operators;

int main() {
  Variable A(0), B(1);
  Rational_Box x(2), y(2);
  x.add_constraint(A >= 0); x.add_constraint(A <= 1);
  x.add_constraint(B >= 0); x.add_constraint(B <= 1);
  y.add_constraint(A >= 5); y.add_constraint(A <= 6);
  y.add_constraint(B >= 0); y.add_constraint(B <= 1);

  Rational_Box expected_meet(x);
  expected_meet.intersection_assign(y);          // empty

  Rational_Box s(x);
  bool ret = s.simplify_using_context_assign(y);
  Rational_Box meet(s);
  meet.intersection_assign(y);

  std::cout << "x = " << x << "\ny = " << y << std::endl;
  std::cout << "x.simplify_using_context_assign(y) returned " << ret
            << ", simplified x = " << s << std::endl;
  std::cout << "simplified x /\\ y = " << meet
            << "   original x /\\ y = " << expected_meet << std::endl;
  if (meet != expected_meet) {
    std::cout << "FAIL: simplification is not meet-preserving "
                 "(x /\\ y was empty, now it is not)" << std::endl;
    return 1;
  }
  std::cout << "PASS" << std::endl;
  return 0;
}
