// Box<ITV>::propagate_constraint_no_check() (used by refine_with_constraint(s)
// for non-interval constraints): in the branch computing an UPPER bound for a
// variable having a negative coefficient, the contribution of the other
// variables having a negative coefficient is accumulated with ROUND_UP instead
// of ROUND_DOWN.  With inexact (floating point) boundaries the computed upper
// bound can be too small: points satisfying the constraint are lost.
#include "ppl.hh"
#include <iostream>
#include <cmath>
using namespace Parma_Polyhedra_Library;
using namespace Parma_Polyhedra_Library::IO_Operators;

// Same policy as the Double_Box of the PPL language interfaces.
struct FP_Policy {
  const_bool_nodef(store_special, false);
  const_bool_nodef(store_open, true);
  const_bool_nodef(cache_empty, true);
  const_bool_nodef(cache_singleton, true);
  const_bool_nodef(cache_normalized, false);
  const_int_nodef(next_bit, 0);
  const_bool_nodef(may_be_empty, true);
  const_bool_nodef(may_contain_infinity, false);
  const_bool_nodef(check_empty_result, false);
  const_bool_nodef(check_inexact, false);
};
typedef Interval<double, Interval_Info_Bitset<unsigned int, FP_Policy> > DI;
typedef Box<DI> Double_Box;

int main() {
  Variable A(0), B(1);
  const double a = std::ldexp(1.0, -60);            // 2^-60
  const double b = 1.0 - std::ldexp(1.0, -53);      // largest double < 1
  // The point (a, b) satisfies  A + B <= 1  since  b + a = 1 - 2^-53 + 2^-60 < 1.
  DI ia; ia.assign(a);
  DI ib; ib.assign(b);

  Double_Box box(2);              // A = 2^-60, B unconstrained
  box.set_interval(A, ia);
  Double_Box pt(box);             // the single point (a, b)
  pt.set_interval(B, ib);

  Constraint c(-A - B + 1 >= 0);  // A + B <= 1

  Double_Box r(box);
  r.refine_with_constraint(c);
  Double_Box rp(pt);
  rp.refine_with_constraint(c);

  std::cout.precision(20);
  std::cout << "constraint: " << c << std::endl;
  std::cout << "refined box: " << r << std::endl;
  std::cout << "refined box contains the satisfying point (2^-60, 1-2^-53): "
            << r.contains(pt) << std::endl;
  std::cout << "refining the single-point box makes it empty: " << rp.is_empty() << std::endl;

  // Mirror image (lower bound for a variable with positive coefficient): correct.
  DI ina; ina.assign(-a);
  DI inb; inb.assign(-b);
  Double_Box mbox(2); mbox.set_interval(A, ina);
  Double_Box mpt(mbox); mpt.set_interval(B, inb);
  Double_Box mr(mbox); mr.refine_with_constraint(A + B + 1 >= 0);
  std::cout << "mirror (A + B >= -1): refined box " << mr
            << " contains (-2^-60, -(1-2^-53)): " << mr.contains(mpt) << std::endl;

  if (!r.contains(pt) || rp.is_empty()) {
    std::cout << "FAIL: refine_with_constraint lost a point that satisfies the constraint "
                 "(unsound rounding)" << std::endl;
    return 1;
  }
  std::cout << "PASS" << std::endl;
  return 0;
}
