// Box::CC76_narrowing_assign(y): the finite bounds of *this are replaced by the
// VALUES of the bounds of y, but the open/closed flag of y's bound is not
// copied.  The result is not contained in y, which violates the narrowing
// contract  x <= (y narrow x) <= y.
#include "ppl.hh"
#include <iostream>
using namespace Parma_Polyhedra_Library;
using namespace Parma_Polyhedra_Library::IO_Operators;

int main() {
  Variable A(0);
  Rational_Box x(1), y(1);
  x.add_constraint(A >= 1); x.add_constraint(A <= 2);   // [1, 2]
  y.add_constraint(A > 0);  y.add_constraint(A < 3);    // (0, 3)   (y contains x)
  Rational_Box r(x);
  r.CC76_narrowing_assign(y);
  std::cout << "x = " << x << ", y = " << y << ", narrowing result = " << r << std::endl;
  std::cout << "result contains x: " << r.contains(x)
            << ", y contains result: " << y.contains(r) << std::endl;
  if (!r.contains(x) || !y.contains(r)) {
    std::cout << "FAIL: the narrowing result is not contained in y "
                 "(it contains the points 0 and 3)" << std::endl;
    return 1;
  }
  std::cout << "PASS" << std::endl;
  return 0;
}
