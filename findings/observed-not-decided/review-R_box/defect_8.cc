// Interval::simplify_using_context_assign(y) (hence Box::simplify_using_context_assign)
// compares only the boundary VALUES and ignores their openness: a strict bound
// of *this is dropped when y has the same bound value but closed, so the
// result is not meet-preserving.
#include "ppl.hh"
#include <iostream>
using namespace Parma_Polyhedra_Library;
using namespace Parma_Polyhedra_Library::IO_Operators;

int main() {
  Variable A(0);
  Rational_Box x(1), y(1);
  x.add_constraint(A >= 0); x.add_constraint(A < 3);    // [0, 3)
  y.add_constraint(A >= 1); y.add_constraint(A <= 3);   // [1, 3]

  Rational_Box expected(x); expected.intersection_assign(y);   // [1, 3)
  Rational_Box s(x);
  bool ret = s.simplify_using_context_assign(y);
  Rational_Box meet(s); meet.intersection_assign(y);
  std::cout << "x = " << x << ", y = " << y << std::endl;
  std::cout << "simplified x = " << s << " (returned " << ret << ")" << std::endl;
  std::cout << "simplified x /\\ y = " << meet << ", x /\\ y = " << expected << std::endl;
  if (meet != expected) {
    std::cout << "FAIL: the strict bound A < 3 was dropped although y only gives A <= 3" << std::endl;
    return 1;
  }
  std::cout << "PASS" << std::endl;
  return 0;
}
