#include "ppl.hh"
#include <iostream>
using namespace Parma_Polyhedra_Library;
int main() {
  Variable A(0), B(1);
  typedef Pointset_Powerset<NNC_Polyhedron> PS;
  PS ps(1, EMPTY);
  NNC_Polyhedron d1(1), d2(1);
  d1.add_constraint(A > 0); d1.add_constraint(A <= 1);
  d2.add_constraint(A >= 0); d2.add_constraint(A < 1);
  ps.add_disjunct(d1); ps.add_disjunct(d2);
  ps.omega_reduce();                       // neither entails the other: 2 disjuncts, claim set
  ps.topological_closure_assign();         // both become [0,1]
  PS ref(1, EMPTY); NNC_Polyhedron c(1); c.add_constraint(A >= 0); c.add_constraint(A <= 1); ref.add_disjunct(c);
  std::cout << "size after closure: " << ps.size() << " (an omega-reduced sequence has 1), geometrically_equals(ref) = " << ps.geometrically_equals(ref)
            << ", syntactic == ref: " << (ps == ref) << ", OK() = " << ps.OK() << "\n";
  return 0;
}
