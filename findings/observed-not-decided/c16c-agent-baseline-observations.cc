#include "ppl.hh"
#include <iostream>
#include <cstdlib>
using namespace Parma_Polyhedra_Library;
using namespace Parma_Polyhedra_Library::IO_Operators;
int main() { std::cout << std::unitbuf;
  Variable A(0), B(1), C(2), D(3);
  // 1. Sparse from Dense with smaller dimension.
  {
    Linear_Expression d(DENSE);
    d.set_space_dimension(4);
    d += A; add_mul_assign(d, 7, D); d += Coefficient(3);
    Linear_Expression s(d, 2, SPARSE);
    std::cout << "obs1: dim=" << s.space_dimension() << " OK=" << s.OK() << " expr=" << s << " ; ";
    s.ascii_dump(std::cout);
    Linear_Expression s2(d, 2, DENSE);
    std::cout << "   dense target: " << s2 << " equal? " << s.is_equal_to(s2) << "\n";
    s.set_space_dimension(4);
    std::cout << "   after re-extending to dim 4: " << s << " coeff(D)=" << s.coefficient(D) << "\n";
  }
  // 2. Dense_Row = Sparse_Row
  {
    Sparse_Row sr(4);
    sr.insert(1, Coefficient(5)); sr.insert(3, Coefficient(9));
    Dense_Row dr(4);
    dr[0] = 1; dr[1] = 2; dr[2] = 3; dr[3] = 4;
    if (getenv("OBS2")) dr = sr;
    std::cout << "obs2 (same size): ";
    for (dimension_type i = 0; i < dr.size(); ++i) std::cout << dr[i] << " ";
    std::cout << " expected 0 5 0 9\n";
  }
  // 3. linear_combine_lax c1 == 0, sparse x, dense y with zeros
  {
    Linear_Expression x(SPARSE); x.set_space_dimension(4); x += A;
    Linear_Expression y(DENSE); y.set_space_dimension(4); add_mul_assign(y, 2, B); add_mul_assign(y, 3, D);
    x.linear_combine_lax(y, 0, 5);
    std::cout << "obs3: x=" << x << " OK=" << x.OK() << " ; "; x.ascii_dump(std::cout);
    int n = 0;
    for (Linear_Expression::const_iterator i = x.begin(), e = x.end(); i != e; ++i) { ++n; std::cout << "  it " << i.variable().id() << ":" << *i; }
    std::cout << " (" << n << " iterated)\n";
  }
  return 0;
}
