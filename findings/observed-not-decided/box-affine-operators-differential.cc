#include <ppl.hh>
#include <iostream>
#include <cstdlib>
#include <csignal>
#include <unistd.h>
#include <sys/wait.h>
using namespace Parma_Polyhedra_Library;
using namespace Parma_Polyhedra_Library::IO_Operators;
static int rnd(int lo, int hi) { return lo + rand() % (hi - lo + 1); }
static Linear_Expression rexpr(int dim, int zero_bias) {
  Linear_Expression e;
  for (int d = 0; d < dim; ++d) if (rnd(0, zero_bias) == 0) e += rnd(-2, 2) * Variable(d);
  e += rnd(-4, 4);
  return e;
}
int main(int argc, char** argv) {
  std::cout.setf(std::ios::unitbuf);
  int N = argc > 1 ? atoi(argv[1]) : 5000; int seed0 = argc > 2 ? atoi(argv[2]) : 1;
  Relation_Symbol rels[5] = { LESS_THAN, LESS_OR_EQUAL, GREATER_OR_EQUAL, GREATER_THAN, EQUAL };
  const char* opn[] = {"affine_image","affine_preimage","gen_affine_image","gen_affine_preimage","bounded_affine_image","bounded_affine_preimage","gen_affine_image_lhs","gen_affine_preimage_lhs","unconstrain","wrap"};
  int counts[10][3] = {{0}};
  for (int it = 0; it < N; ++it) {
    pid_t pid = fork();
    if (pid != 0) { int st = 0; waitpid(pid, &st, 0);
      if (WIFSIGNALED(st)) std::cout << "CRASH it=" << it << " sig " << WTERMSIG(st) << "\n";
      else if (WEXITSTATUS(st) == 3) ;
      continue; }
    alarm(20);
    srand(seed0 * 100003 + it);
    int dim = rnd(1, 3);
    Rational_Box box(dim);
    for (int d = 0; d < dim; ++d) {
      int k = rnd(0, 6);
      int lo = rnd(-4, 4), hi = lo + rnd(0, 5);
      if (k != 0) box.add_constraint(Variable(d) >= lo);
      if (k != 1) box.add_constraint(Variable(d) <= hi);
      if (k == 5) box.add_constraint(Variable(d) > lo);
      if (k == 6) { box.add_constraint(Variable(d) >= hi + 1); }   // lazily empty
    }
    if (rnd(0, 9) == 0) box = Rational_Box(dim, EMPTY);
    Variable v(rnd(0, dim - 1));
    Linear_Expression e1 = rexpr(dim, 1), e2 = rexpr(dim, 1);
    int den = rnd(0, 3) == 0 ? -rnd(1, 3) : rnd(1, 3);
    int r = rnd(0, 4);
    int op = rnd(0, 7);
    NNC_Polyhedron ph(box);
    Rational_Box b = box;
    try {
    switch (op) {
    case 0: ph.affine_image(v, e1, den); b.affine_image(v, e1, den); break;
    case 1: ph.affine_preimage(v, e1, den); b.affine_preimage(v, e1, den); break;
    case 2: ph.generalized_affine_image(v, rels[r], e1, den); b.generalized_affine_image(v, rels[r], e1, den); break;
    case 3: ph.generalized_affine_preimage(v, rels[r], e1, den); b.generalized_affine_preimage(v, rels[r], e1, den); break;
    case 4: ph.bounded_affine_image(v, e1, e2, den); b.bounded_affine_image(v, e1, e2, den); break;
    case 5: ph.bounded_affine_preimage(v, e1, e2, den); b.bounded_affine_preimage(v, e1, e2, den); break;
    case 6: ph.generalized_affine_image(e1, rels[r], e2); b.generalized_affine_image(e1, rels[r], e2); break;
    case 7: ph.generalized_affine_preimage(e1, rels[r], e2); b.generalized_affine_preimage(e1, rels[r], e2); break;
    }
    } catch (std::exception& ex) { std::cout << "EXC it=" << it << " op=" << opn[op] << " " << ex.what() << "\n"; _exit(3); }
    Rational_Box exact(ph);
    if (!b.contains(exact)) {
      std::cout << "UNSOUND op=" << opn[op] << " it=" << it << " box=" << box << " v=" << v << " e1=" << e1 << " e2=" << e2 << " d=" << den << " rel#" << r << "\n  box result " << b << "\n  exact hull " << exact << "\n";
      _exit(1);
    }
    _exit(0);
  }
  return 0;
}
