// Replay for R4.2: BD_Shape::generalized_affine_image(lhs, relsym, rhs) with a
// general lhs forgets the constraints on the lhs variables but leaves the
// "shortest-path reduced" claim standing: the stale redundancy information then
// makes constraints()/minimized_constraints() drop a constraint that is no
// longer redundant.  Prints PASS when the reported constraints denote the shape.
#include "ppl.hh"
#include <iostream>
using namespace Parma_Polyhedra_Library;
using namespace Parma_Polyhedra_Library::IO_Operators;
template <typename SHAPE>
int run(const char* name) {
  Variable A(0), B(1), C(2), D(3);
  SHAPE p(4);
  p.add_constraint(B - A <= 1);
  p.add_constraint(A - C <= 1);       // B - C <= 2 is now redundant (via A)
  (void) p.minimized_constraints();   // marks the shape as reduced
  // lhs has two variables, one of them shared with rhs: general branch.
  p.generalized_affine_image(A + D, LESS_OR_EQUAL, A + D);
  // A and D are now unconstrained; B - C <= 2 must survive.
  SHAPE expected(4);
  expected.add_constraint(B - C <= 2);
  SHAPE from_cs(p.constraints());
  SHAPE from_mcs(p.minimized_constraints());
  C_Polyhedron ph(p);
  C_Polyhedron ph_expected(expected);
  int bad = 0;
  if (!(p == expected)) { std::cout << name << ": matrix disagrees with expected\n"; ++bad; }
  if (!(from_cs == expected)) { std::cout << name << ": constraints() = " << p.constraints() << " loses B - C <= 2\n"; ++bad; }
  if (!(from_mcs == expected)) { std::cout << name << ": minimized_constraints() loses B - C <= 2\n"; ++bad; }
  if (!(ph == ph_expected)) { std::cout << name << ": C_Polyhedron(p) differs from expected\n"; ++bad; }
  return bad;
}
int main() {
  int bad = run<BD_Shape<mpq_class> >("BD_Shape<mpq_class>");
  bad += run<Octagonal_Shape<mpq_class> >("Octagonal_Shape<mpq_class>");
  std::cout << (bad ? "FAIL" : "PASS") << std::endl;
  return bad ? 1 : 0;
}
