// Replay for R14.1: PIP_Problem::add_to_parameter_space_dimensions inserts the
// new parameters BEFORE it checks that none of them is an already processed
// variable; a rejected call (std::invalid_argument) leaves them inserted.
#include "ppl.hh"
#include <iostream>
#include <stdexcept>
using namespace Parma_Polyhedra_Library;
int main() {
  Variable X(0), Y(1), P(2);
  PIP_Problem pip(3);
  pip.add_constraint(X + Y >= P);
  pip.add_constraint(X >= 0);
  (void) pip.solve();                       // X, Y, P are now internal (processed) dimensions
  pip.add_space_dimensions_and_embed(0, 1); // dimension 3: a fresh parameter candidate
  const Variables_Set before = pip.parameter_space_dimensions();
  Variables_Set bad;
  bad.insert(Variable(3));                  // acceptable on its own ...
  bad.insert(X);                            // ... but X is an already processed variable
  bool threw = false;
  try { pip.add_to_parameter_space_dimensions(bad); }
  catch (const std::invalid_argument&) { threw = true; }
  const Variables_Set after = pip.parameter_space_dimensions();
  std::cout << "rejected: " << threw << ", parameters before: " << before.size()
            << ", after: " << after.size() << "\n";
  const bool ok = threw && before == after && pip.OK();
  std::cout << (ok ? "PASS" : "FAIL") << std::endl;
  return ok ? 0 : 1;
}
