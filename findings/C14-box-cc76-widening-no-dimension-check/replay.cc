#include "ppl.hh"
#include <iostream>
#include <stdexcept>
using namespace Parma_Polyhedra_Library;
int main() {
  Variable A(0), B(1), C(2);
  Rational_Box x(3), y(1);
  x.add_constraint(A >= 0); x.add_constraint(A <= 2); x.add_constraint(C <= 5);
  y.add_constraint(A >= 0); y.add_constraint(A <= 1);
  int bad = 0;
  try {
    x.CC76_widening_assign(y);
    std::cout << "CC76_widening_assign: no exception for a 1-dimensional argument of a 3-dimensional box\n";
    ++bad;
  }
  catch (const std::invalid_argument& e) {
    std::cout << "CC76_widening_assign: std::invalid_argument as documented\n";
  }
  try {
    x.widening_assign(y);
    std::cout << "widening_assign: no exception\n";
    ++bad;
  }
  catch (const std::invalid_argument& e) {
    std::cout << "widening_assign: std::invalid_argument as documented\n";
  }
  std::cout << (bad ? "FAIL" : "PASS") << "\n";
  return bad != 0;
}
