// Replay for R14.2: CO_Tree::CO_Tree(Iterator, n) allocates its arrays with
// init() and then copy-constructs the elements without protection: when an
// element copy throws (GMP allocation failure) the destructor does not run
// and the arrays (and the elements built so far) leak.
// Fails the k-th GMP allocation while a dense row is converted to a sparse
// one and counts the heap blocks that stay alive.
#include "ppl.hh"
#include <cstdio>
#include <cstdlib>
#include <new>
static long live = 0;
static long countdown = -1;
static void* xmalloc(std::size_t n) {
  if (countdown >= 0 && countdown-- == 0) throw std::bad_alloc();
  void* p = std::malloc(n ? n : 1);
  if (!p) throw std::bad_alloc();
  ++live;
  return p;
}
static void xfree(void* p) { if (p) { --live; std::free(p); } }
void* operator new(std::size_t n) { return xmalloc(n); }
void operator delete(void* p) noexcept { xfree(p); }
void operator delete(void* p, std::size_t) noexcept { xfree(p); }
extern "C" {
static void* g_alloc(size_t n) { return xmalloc(n); }
static void* g_realloc(void* p, size_t, size_t n) {
  if (countdown >= 0 && countdown-- == 0) throw std::bad_alloc();
  void* q = std::realloc(p, n); if (!q) throw std::bad_alloc(); if (!p) ++live; return q;
}
static void g_free(void* p, size_t) { xfree(p); }
}
using namespace Parma_Polyhedra_Library;
int main() {
  mp_set_memory_functions(g_alloc, g_realloc, g_free);
  int bad = 0, tried = 0;
  {
    Dense_Row dense(12);
    for (dimension_type i = 0; i < 12; i += 2) {
      dense[i] = 3;
      dense[i] <<= 200;          // multi-limb numbers: every copy allocates
      dense[i] += i;
    }
    for (long k = 0; k < 40; ++k) {
      const long before = live;
      countdown = k;
      bool threw = false;
      try { Sparse_Row sparse(dense); countdown = -1; }
      catch (const std::bad_alloc&) { countdown = -1; threw = true; }
      if (!threw) break;
      ++tried;
      if (live != before) {
        ++bad;
        std::printf("failing allocation #%ld of Sparse_Row(const Dense_Row&) leaves %ld block(s) behind\n", k, live - before);
      }
    }
  }
  std::printf("%d fault positions tried, %d leak\n", tried, bad);
  std::puts(bad ? "FAIL" : "PASS");
  return bad ? 1 : 0;
}
