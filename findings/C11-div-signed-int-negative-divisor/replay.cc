#include "ppl.hh"
#include <iostream>
using namespace Parma_Polyhedra_Library;
int main() {
  long bad = 0, n = 0;
  Rounding_Dir dirs[] = { ROUND_UP, ROUND_DOWN };
  for (int x = -128; x <= 127; ++x) for (int y = -128; y <= 127; ++y) {
    if (y == 0 || (x == -128 && y == -1)) continue;
    for (Rounding_Dir d : dirs) {
      int8_t q;
      Result r = div_assign_r(q, int8_t(x), int8_t(y), static_cast<Rounding_Dir>(d | ROUND_STRICT_RELATION));
      ++n;
      // exact = x/y ; compare q*y with x taking sign of y into account
      int lhs = int(q) * y;  // q ? x/y  <=>  q*y ? x (y>0), reversed for y<0
      int c = (lhs > x) - (lhs < x); if (y < 0) c = -c;   // sign of q - exact
      bool ok = (d == ROUND_UP ? c >= 0 : c <= 0);
      Result_Relation rel = result_relation(r);
      // the relation reported must be true: bit set semantics V_EQ=1? use the named tests
      if (c == 0 && !(rel == VR_EQ || rel == VR_LGE || rel == VR_GE || rel == VR_LE)) ok = false;
      if (c > 0 && !(rel == VR_LT || rel == VR_LE || rel == VR_NE || rel == VR_LGE)) ok = false;    // exact < stored
      if (c < 0 && !(rel == VR_GT || rel == VR_GE || rel == VR_NE || rel == VR_LGE)) ok = false;
      if (!ok) { ++bad; if (bad < 5) std::cout << x << " / " << y << (d==ROUND_UP?" up":" down") << " -> " << int(q) << " rel " << rel << "\n"; }
    }
  }
  std::cout << n << " divisions, " << bad << " wrong\n";
  return bad != 0;
}
