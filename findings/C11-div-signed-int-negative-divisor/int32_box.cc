// (Root cause outside Box/Interval: checked_int_inlines.hh, div_signed_int.)
// Boxes whose boundaries are NATIVE signed integers (Int8_Box ... Int64_Box of
// the language interfaces) are unsound whenever a bound is divided by a
// negative number: div_assign_r() on native signed integers decides the
// rounding correction from the sign of the remainder only, ignoring the sign
// of the divisor, so ROUND_UP / ROUND_DOWN are exchanged for negative divisors.
// The same boxes with mpz_class boundaries (Z_Box) are correct.
#include "ppl.hh"
#include <iostream>
using namespace Parma_Polyhedra_Library;
using namespace Parma_Polyhedra_Library::IO_Operators;

// Same policy as Z_Box / Int32_Box in interfaces/interfaced_boxes.hh.
struct Int_Policy {
  const_bool_nodef(store_special, true);
  const_bool_nodef(store_open, false);
  const_bool_nodef(cache_empty, true);
  const_bool_nodef(cache_singleton, true);
  const_bool_nodef(cache_normalized, false);
  const_int_nodef(next_bit, 0);
  const_bool_nodef(may_be_empty, true);
  const_bool_nodef(may_contain_infinity, false);
  const_bool_nodef(check_empty_result, false);
  const_bool_nodef(check_inexact, false);
};
typedef Box<Interval<int32_t, Interval_Info_Bitset<unsigned int, Int_Policy> > > Int32_Box;
typedef Box<Interval<mpz_class, Interval_Info_Bitset<unsigned int, Int_Policy> > > Z_Box;

template <typename B>
bool run(const char* name) {
  Variable A(0);
  B b(1);
  b.refine_with_constraint(A >= -3);
  b.refine_with_constraint(A <= 4);
  // A' = (A - 1)/(-3):  A = 4 -> -1,  A = -3 -> 4/3.  Any sound integer-bounded
  // result must contain [-1, 4/3], i.e., be at least [-1, 2].
  b.affine_image(A, A - 1, -3);
  std::cout << name << ": image of [-3,4] under (A - 1)/-3 = " << b << std::endl;
  Rational_Box r(1);
  r.refine_with_constraints(b.constraints());
  Rational_Box exact(1);
  exact.add_constraint(A >= -1);
  exact.add_constraint(3*A <= 4);
  return r.contains(exact);
}

int main() {
  int32_t q;
  div_assign_r(q, int32_t(-4), int32_t(-3), ROUND_UP);
  std::cout << "div_assign_r(-4, -3, ROUND_UP)  = " << q << "  (exact 4/3, expected 2)" << std::endl;
  div_assign_r(q, int32_t(4), int32_t(-3), ROUND_DOWN);
  std::cout << "div_assign_r( 4, -3, ROUND_DOWN) = " << q << "  (exact -4/3, expected -2)" << std::endl;
  bool ok_z = run<Z_Box>("Z_Box    ");
  bool ok_i = run<Int32_Box>("Int32_Box");
  if (!ok_z || !ok_i) {
    std::cout << "FAIL: the native-integer box lost the points (1, 4/3] of the exact image" << std::endl;
    return 1;
  }
  std::cout << "PASS" << std::endl;
  return 0;
}
