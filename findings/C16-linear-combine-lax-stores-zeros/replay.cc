#include "ppl.hh"
#include <iostream>
using namespace Parma_Polyhedra_Library;
using namespace Parma_Polyhedra_Library::IO_Operators;
static int count_terms(const Linear_Expression& e, bool& saw_zero) {
  int n = 0; saw_zero = false;
  for (Linear_Expression::const_iterator i = e.begin(), i_end = e.end(); i != i_end; ++i) { ++n; if (*i == 0) saw_zero = true; }
  return n;
}
int main() {
  Variable A(0), B(1), C(2), D(3);
  Linear_Expression y(2*B + 3*D, DENSE);
  Linear_Expression xs(A + 0*D, SPARSE), xd(A + 0*D, DENSE);
  xs.linear_combine_lax(y, 0, 5);
  xd.linear_combine_lax(y, 0, 5);
  bool zs, zd;
  int ns = count_terms(xs, zs), nd = count_terms(xd, zd);
  std::cout << "sparse receiver: " << xs << "   terms visited " << ns << (zs ? " (a ZERO coefficient is visited)" : "") << ", OK() = " << xs.OK() << "\n";
  std::cout << "dense  receiver: " << xd << "   terms visited " << nd << ", OK() = " << xd.OK() << "\n";
  bool ok = (ns == nd) && !zs && xs.is_equal_to(xd);
  std::cout << (ok ? "PASS" : "FAIL") << "\n";
  return ok ? 0 : 1;
}
