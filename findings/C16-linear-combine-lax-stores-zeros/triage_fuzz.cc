#include "ppl.hh"
#include <iostream>
#include <random>
using namespace Parma_Polyhedra_Library;
std::mt19937 rng(99);
int R(int a, int b) { return std::uniform_int_distribution<int>(a, b)(rng); }
Linear_Expression mk(int d, Representation r) {
  Linear_Expression e(r);
  e.set_space_dimension(d);
  for (int i = 0; i < d; ++i) if (R(0, 2) == 0) e += R(-3, 3) * Variable(i);
  if (R(0,1)) e += R(-3, 3);
  return e;
}
int main() {
  int bad = 0, n = 0;
  for (int it = 0; it < 20000; ++it) {
    int d = R(1, 6);
    Linear_Expression x0 = mk(d, DENSE), y0 = mk(d, DENSE);
    int c1 = R(-2, 2), c2 = R(-2, 2);
    int start = R(0, d), end = R(start, d + 1);
    Linear_Expression ref(x0, DENSE); { Linear_Expression yy(y0, DENSE); ref.linear_combine_lax(yy, c1, c2); }
    for (int rx = 0; rx < 2; ++rx) for (int ry = 0; ry < 2; ++ry) {
      Linear_Expression x(x0, rx ? SPARSE : DENSE), y(y0, ry ? SPARSE : DENSE);
      x.linear_combine_lax(y, c1, c2);
      ++n;
      bool zero_seen = false; int terms = 0, rterms = 0;
      for (Linear_Expression::const_iterator i = x.begin(); i != x.end(); ++i) { ++terms; if (*i == 0) zero_seen = true; }
      for (Linear_Expression::const_iterator i = ref.begin(); i != ref.end(); ++i) ++rterms;
      if (!x.is_equal_to(ref) || zero_seen || terms != rterms || !x.OK()) { if (++bad < 4) std::cout << "DIFF rx=" << rx << " ry=" << ry << " c1=" << c1 << " c2=" << c2 << "\n"; }
    }
  }
  std::cout << "cases " << n << " bad " << bad << "\n";
  return bad != 0;
}
