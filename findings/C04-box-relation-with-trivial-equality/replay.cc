// Box::relation_with(const Constraint&) on a box of dimension > 0: the trivial
// (variable-free) EQUALITY  "k == 0" with k > 0 is reported as IS_INCLUDED,
// while it is unsatisfiable (the zero-dimensional code path and the k < 0
// case both correctly answer IS_DISJOINT).
#include "ppl.hh"
#include <iostream>
using namespace Parma_Polyhedra_Library;
using namespace Parma_Polyhedra_Library::IO_Operators;

int main() {
  Variable A(0);
  Rational_Box box(1);
  box.add_constraint(A >= 0);
  C_Polyhedron ph(box);
  Rational_Box zbox(0);

  Constraint cpos(Linear_Expression(1) == 0);
  Constraint cneg(Linear_Expression(-1) == 0);
  Poly_Con_Relation r1 = box.relation_with(cpos);
  Poly_Con_Relation r2 = box.relation_with(cneg);
  std::cout << "1-dim box " << box << std::endl;
  std::cout << "  constraint 1 == 0  (printed as: " << cpos << "): Box " << r1
            << ", Polyhedron " << ph.relation_with(cpos)
            << ", 0-dim Box " << zbox.relation_with(cpos) << std::endl;
  std::cout << "  constraint -1 == 0 (printed as: " << cneg << "): Box " << r2
            << ", Polyhedron " << ph.relation_with(cneg) << std::endl;
  if (r1 != Poly_Con_Relation::is_disjoint() || r2 != Poly_Con_Relation::is_disjoint()) {
    std::cout << "FAIL: an unsatisfiable equality is reported as included" << std::endl;
    return 1;
  }
  std::cout << "PASS" << std::endl;
  return 0;
}
