#include "ppl.hh"
#include <iostream>
using namespace Parma_Polyhedra_Library;
typedef Checked_Number<mpz_class, Extended_Number_Policy> EZ;
int main() {
  int bad = 0;
  EZ pinf, minf, to;
  assign_r(pinf, PLUS_INFINITY, ROUND_NOT_NEEDED);
  assign_r(minf, MINUS_INFINITY, ROUND_NOT_NEEDED);
  mpz_class seven = 7;
  Result r = rem_assign_r(to, seven, pinf, ROUND_NOT_NEEDED);
  std::cout << "rem(7, +inf) = " << to << " result " << r << "\n";
  if (!(to == 7)) ++bad;
  r = rem_assign_r(to, seven, minf, ROUND_NOT_NEEDED);
  std::cout << "rem(7, -inf) = " << to << " result " << r << "\n";
  if (!(to == 7)) ++bad;
  std::cout << (bad ? "FAIL" : "PASS") << "\n";
  return bad != 0;
}
