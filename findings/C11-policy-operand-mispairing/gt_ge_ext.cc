#include "ppl.hh"
#include <iostream>
#include <climits>
using namespace Parma_Polyhedra_Library;
typedef Checked_Number<mpz_class, Extended_Number_Policy> EZ;
typedef Checked_Number<int, Extended_Number_Policy> EI;
int main() {
  int bad = 0;
  EZ pinf, minf;
  assign_r(pinf, PLUS_INFINITY, ROUND_NOT_NEEDED);
  assign_r(minf, MINUS_INFINITY, ROUND_NOT_NEEDED);
  int five = 5;
  // mixed: extended mpz against a native int
  #define CHK(e, want) do { bool g = (e); if (g != (want)) { ++bad; std::cout << "wrong: " #e " is " << g << "\n"; } } while (0)
  CHK(pinf > five, true);
  CHK(pinf >= five, true);
  CHK(five < pinf, true);
  CHK(five > pinf, false);
  CHK(minf > five, false);
  CHK(five > minf, true);
  CHK(five >= minf, true);
  CHK(minf >= five, false);
  CHK(greater_than(pinf, five), true);
  CHK(greater_than(five, minf), true);
  CHK(greater_or_equal(five, minf), true);
  // native int whose value is the encoding of a special value of the extended policy
  int imax = INT_MAX, imin = INT_MIN;
  EZ big; assign_r(big, 1000, ROUND_NOT_NEEDED);
  CHK(big > imin, true);
  CHK(imax > big, true);
  CHK(big >= imin, true);
  CHK(imax >= big, true);
  CHK(greater_than(imax, big), true);
  std::cout << (bad ? "FAIL" : "PASS") << " (" << bad << " wrong)\n";
  return bad != 0;
}
