/* C12d demo: enclosure of the linearization of floating-point expressions.

   An analyser with `double' interval bounds linearizes expressions of a
   program that mixes `double' and `float' (IEEE754_DOUBLE and IEEE754_SINGLE)
   computations.  For the single precision product  r = x * y  with
   x = 1.5*2^-75 and y = 1.5*2^-74 the exact product 2.25*2^-149 falls in the
   subnormal range of the analysed format, so the concrete result is
   2*2^-149 or 3*2^-149 depending on the rounding mode.  The linear form
   returned by linearize(), evaluated in the abstract store, must contain
   the concrete result for every rounding mode -- whatever else has been
   linearized before.

   Exit status 0 and "PASS" if the enclosure holds in all the checks,
   1 and "FAIL" otherwise.  */

#include "ppl.hh"
#include <cfenv>
#include <cmath>
#include <cstdio>
#include <set>
#include <map>

using namespace Parma_Polyhedra_Library;

// ---------------------------------------------------------------------
// A minimal instantiation of the Concrete_Expression family.
// ---------------------------------------------------------------------
namespace Parma_Polyhedra_Library {

struct Mini;

enum Mini_Kind { M_BOP, M_UOP, M_CAST, M_INT_CON, M_FP_CON, M_APPROX_REF };

template <>
class Concrete_Expression<Mini> : public Concrete_Expression_Common<Mini> {
public:
  Concrete_Expression(Concrete_Expression_Type t, Mini_Kind k)
    : expr_type(t), expr_kind(k) {}
  Concrete_Expression_Type type() const { return expr_type; }
  Concrete_Expression_Kind kind() const { return expr_kind; }
  Concrete_Expression_Type expr_type;
  Mini_Kind expr_kind;
};

template <>
class Binary_Operator<Mini> : public Concrete_Expression<Mini>,
                              public Binary_Operator_Common<Mini> {
public:
  Binary_Operator(Concrete_Expression_Type t, Concrete_Expression_BOP op,
                  const Concrete_Expression<Mini>* l,
                  const Concrete_Expression<Mini>* r)
    : Concrete_Expression<Mini>(t, M_BOP), bop(op), lhs(l), rhs(r) {}
  Concrete_Expression_Type type() const { return expr_type; }
  Concrete_Expression_BOP binary_operator() const { return bop; }
  const Concrete_Expression<Mini>* left_hand_side() const { return lhs; }
  const Concrete_Expression<Mini>* right_hand_side() const { return rhs; }
  enum Kind { KIND = M_BOP };
  enum Operation { ADD, SUB, MUL, DIV, REM, BAND, BOR, BXOR, LSHIFT, RSHIFT };
  const Concrete_Expression_BOP bop;
  const Concrete_Expression<Mini>* lhs;
  const Concrete_Expression<Mini>* rhs;
};

template <>
class Unary_Operator<Mini> : public Concrete_Expression<Mini>,
                             public Unary_Operator_Common<Mini> {
public:
  Unary_Operator(Concrete_Expression_Type t, Concrete_Expression_UOP op,
                 const Concrete_Expression<Mini>* a)
    : Concrete_Expression<Mini>(t, M_UOP), uop(op), arg(a) {}
  Concrete_Expression_Type type() const { return expr_type; }
  Concrete_Expression_UOP unary_operator() const { return uop; }
  const Concrete_Expression<Mini>* argument() const { return arg; }
  enum Kind { KIND = M_UOP };
  enum Operation { UPLUS, UMINUS, BNOT };
  const Concrete_Expression_UOP uop;
  const Concrete_Expression<Mini>* arg;
};

template <>
class Cast_Operator<Mini> : public Concrete_Expression<Mini>,
                            public Cast_Operator_Common<Mini> {
public:
  Cast_Operator(Concrete_Expression_Type t, const Concrete_Expression<Mini>* a)
    : Concrete_Expression<Mini>(t, M_CAST), arg(a) {}
  Concrete_Expression_Type type() const { return expr_type; }
  const Concrete_Expression<Mini>* argument() const { return arg; }
  enum Kind { KIND = M_CAST };
  const Concrete_Expression<Mini>* arg;
};

template <>
class Integer_Constant<Mini> : public Concrete_Expression<Mini>,
                               public Integer_Constant_Common<Mini> {
public:
  Integer_Constant(Concrete_Expression_Type t, long v)
    : Concrete_Expression<Mini>(t, M_INT_CON), value(v) {}
  Concrete_Expression_Type type() const { return expr_type; }
  enum Kind { KIND = M_INT_CON };
  long value;
};

template <>
class Floating_Point_Constant<Mini>
  : public Concrete_Expression<Mini>,
    public Floating_Point_Constant_Common<Mini> {
public:
  Floating_Point_Constant(Concrete_Expression_Type t, double v)
    : Concrete_Expression<Mini>(t, M_FP_CON), value(v) {}
  Concrete_Expression_Type type() const { return expr_type; }
  enum Kind { KIND = M_FP_CON };
  double value;
};

template <>
class Approximable_Reference<Mini>
  : public Concrete_Expression<Mini>,
    public Approximable_Reference_Common<Mini> {
public:
  Approximable_Reference(Concrete_Expression_Type t, dimension_type index)
    : Concrete_Expression<Mini>(t, M_APPROX_REF), dim(index) {}
  Concrete_Expression_Type type() const { return expr_type; }
  enum Kind { KIND = M_APPROX_REF };
  dimension_type dim;
};

} // namespace Parma_Polyhedra_Library

// ---------------------------------------------------------------------
// The analyser side: double intervals, a Box as interval abstract store.
// ---------------------------------------------------------------------
struct FP_Policy {
  const_bool_nodef(store_special, false);
  const_bool_nodef(store_open, true);
  const_bool_nodef(cache_empty, true);
  const_bool_nodef(cache_singleton, true);
  const_bool_nodef(cache_normalized, false);
  const_int_nodef(next_bit, 0);
  const_bool_nodef(may_be_empty, true);
  const_bool_nodef(may_contain_infinity, false);
  const_bool_nodef(check_empty_result, false);
  const_bool_nodef(check_inexact, false);
};
typedef Interval_Info_Bitset<unsigned int, FP_Policy> FP_Info;
typedef Interval<double, FP_Info> FP_Interval;
typedef Linear_Form<FP_Interval> FP_Linear_Form;
typedef Box<FP_Interval> FP_Store;
typedef std::map<dimension_type, FP_Linear_Form> FP_LF_Store;

class Oracle : public FP_Oracle<Mini, FP_Interval> {
public:
  explicit Oracle(const FP_Store& s) : store(s) {}
  bool get_interval(dimension_type dim, FP_Interval& result) const {
    result = store.get_interval(Variable(dim));
    return true;
  }
  bool get_fp_constant_value(const Floating_Point_Constant<Mini>& e,
                             FP_Interval& result) const {
    result = FP_Interval(e.value);
    return true;
  }
  bool get_integer_expr_value(const Concrete_Expression<Mini>&,
                              FP_Interval&) const {
    return false;
  }
  bool get_associated_dimensions(const Approximable_Reference<Mini>& e,
                                 std::set<dimension_type>& result) const {
    result.clear();
    result.insert(e.dim);
    return true;
  }
  FP_Store store;
};

// The concrete single precision product under rounding mode `mode'.
static float
concrete_mul(float a, float b, int mode) {
  volatile float va = a;
  volatile float vb = b;
  const int old = fegetround();
  fesetround(mode);
  volatile float r = va * vb;
  fesetround(old);
  return r;
}

static const Concrete_Expression_Type SINGLE
  = Concrete_Expression_Type::floating_point(IEEE754_SINGLE);
static const Concrete_Expression_Type DOUBLE
  = Concrete_Expression_Type::floating_point(IEEE754_DOUBLE);

// Linearizes the float product x*y, evaluates the linear form in the store
// and checks that the concrete results for all rounding modes are enclosed.
static bool
check_float_product(const Oracle& oracle, float xv, float yv,
                    const char* when) {
  Approximable_Reference<Mini> x(SINGLE, 0);
  Approximable_Reference<Mini> y(SINGLE, 1);
  Binary_Operator<Mini> mul(SINGLE, Binary_Operator<Mini>::MUL, &x, &y);
  FP_Linear_Form lf;
  if (!linearize(mul, oracle, FP_LF_Store(), lf)) {
    // Reporting failure is always allowed by the property.
    std::printf("%s: linearization of x*y reported failure (allowed)\n", when);
    return true;
  }
  FP_Interval value;
  if (!lf.intervalize(oracle, value)) {
    std::printf("%s: intervalize failed\n", when);
    return false;
  }
  std::printf("%s: x*y evaluates to [%.6f, %.6f] * 2^-149\n", when,
              std::ldexp(value.lower(), 149), std::ldexp(value.upper(), 149));
  const int modes[4] = { FE_TONEAREST, FE_UPWARD, FE_DOWNWARD, FE_TOWARDZERO };
  const char* names[4] = { "to-nearest", "upward", "downward", "toward-zero" };
  bool ok = true;
  for (int i = 0; i < 4; ++i) {
    const double c = concrete_mul(xv, yv, modes[i]);
    const bool in = value.contains(c);
    std::printf("    rounding %-11s: concrete x*y = %.6f * 2^-149  %s\n",
                names[i], std::ldexp(c, 149), in ? "enclosed" : "NOT ENCLOSED");
    ok = ok && in;
  }
  return ok;
}

int
main() {
  const float xv = std::ldexp(1.5f, -75);
  const float yv = std::ldexp(1.5f, -74);
  const double dv = 0.1;

  // Sanity check of the concrete semantics on this machine: the exact
  // product is 2.25*2^-149, i.e., strictly between two subnormal floats.
  if (concrete_mul(xv, yv, FE_UPWARD) != std::ldexp(3.0f, -149)
      || concrete_mul(xv, yv, FE_DOWNWARD) != std::ldexp(2.0f, -149)) {
    std::printf("unexpected concrete float semantics; cannot run the demo\n");
    return 2;
  }

  // Abstract store: x (dim 0) and y (dim 1) are floats, d (dim 2) a double.
  FP_Store store(3);
  store.set_interval(Variable(0), FP_Interval(static_cast<double>(xv)));
  store.set_interval(Variable(1), FP_Interval(static_cast<double>(yv)));
  store.set_interval(Variable(2), FP_Interval(dv));
  Oracle oracle(store);

  bool ok = true;

  // Statement 1 of the analysed program:  float r = x * y;
  ok = check_float_product(oracle, xv, yv, "before the double statement") && ok;

  // Statement 2 of the analysed program:  double s = d + d;
  {
    Approximable_Reference<Mini> d(DOUBLE, 2);
    Binary_Operator<Mini> add(DOUBLE, Binary_Operator<Mini>::ADD, &d, &d);
    FP_Linear_Form lf;
    const bool r = linearize(add, oracle, FP_LF_Store(), lf);
    std::printf("linearized the double precision statement s = d + d: %s\n",
                r ? "ok" : "failure");
  }

  // Statement 3 of the analysed program, same as statement 1:  r = x * y;
  // Same expression, same abstract store: the enclosure must still hold.
  ok = check_float_product(oracle, xv, yv, "after the double statement ") && ok;

  std::printf(ok ? "PASS\n" : "FAIL\n");
  return ok ? 0 : 1;
}
