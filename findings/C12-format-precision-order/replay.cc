// Replay: casts between formats whose enum order disagrees with precision.
#define main demo_main
#include "demo.cc"
#undef main
#include <iostream>
int main() {
  using namespace Parma_Polyhedra_Library::IO_Operators;
  FP_Store store(3);
  const double dv = 1.0 + std::ldexp(1.0, -40);   // not an IBM single value
  store.set_interval(Variable(2), FP_Interval(dv));
  Oracle oracle(store);
  Approximable_Reference<Mini> d(DOUBLE, 2);
  {
    Cast_Operator<Mini> c(Concrete_Expression_Type::floating_point(IBM_SINGLE), &d);
    FP_Linear_Form lf;
    bool ok = linearize(c, oracle, FP_LF_Store(), lf);
    std::cout << "(ibm_single) d  with d double: ok=" << ok << "  form: " << lf << "\n";
  }
  {
    Cast_Operator<Mini> c(SINGLE, &d);
    FP_Linear_Form lf;
    bool ok = linearize(c, oracle, FP_LF_Store(), lf);
    std::cout << "(ieee single) d with d double: ok=" << ok << "  form: " << lf << "\n";
  }
  {
    Approximable_Reference<Mini> q(Concrete_Expression_Type::floating_point(IEEE754_QUAD), 2);
    Cast_Operator<Mini> c(Concrete_Expression_Type::floating_point(INTEL_DOUBLE_EXTENDED), &q);
    FP_Linear_Form lf;
    bool ok = linearize(c, oracle, FP_LF_Store(), lf);
    std::cout << "(x87 extended) q with q quad: ok=" << ok << "  form: " << lf << "\n";
  }
  bool ok1 = !is_less_precise_than(IEEE754_DOUBLE, IBM_SINGLE) && is_less_precise_than(IBM_SINGLE, IEEE754_DOUBLE);
  bool ok2 = !is_less_precise_than(IEEE754_QUAD, INTEL_DOUBLE_EXTENDED) && is_less_precise_than(INTEL_DOUBLE_EXTENDED, IEEE754_QUAD);
  std::cout << "is_less_precise_than(IBM_SINGLE, IEEE754_DOUBLE) = " << is_less_precise_than(IBM_SINGLE, IEEE754_DOUBLE)
            << ", is_less_precise_than(INTEL_DOUBLE_EXTENDED, IEEE754_QUAD) = " << is_less_precise_than(INTEL_DOUBLE_EXTENDED, IEEE754_QUAD) << "\n";
  std::cout << ((ok1 && ok2) ? "PASS" : "FAIL: the casts to the less precise formats above add no rounding error") << "\n";
  return (ok1 && ok2) ? 0 : 1;
}
