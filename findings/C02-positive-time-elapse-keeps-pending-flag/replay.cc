#include "ppl.hh"
#include <iostream>
using namespace Parma_Polyhedra_Library;
using namespace Parma_Polyhedra_Library::IO_Operators;
int main() {
  Variable A(0), B(1);
  // x: the unit square, both descriptions minimized, then a generator added (it stays pending)
  NNC_Polyhedron x(2);
  x.add_constraint(A >= 0); x.add_constraint(A <= 1);
  x.add_constraint(B >= 0); x.add_constraint(B <= 1);
  (void) x.minimized_generators();
  (void) x.minimized_constraints();
  x.add_generator(point(2*A));
  NNC_Polyhedron x2(x.generators());           // the same set in a fresh object, nothing pending
  NNC_Polyhedron y(2);
  y.add_constraint(A == 0); y.add_constraint(B >= 1); y.add_constraint(B <= 2);
  x.positive_time_elapse_assign(y);
  x2.positive_time_elapse_assign(y);
  std::cout << "with a pending generator : " << x.constraints() << "\n";
  std::cout << "reference                : " << x2.constraints() << "\n";
  NNC_Polyhedron a(x.constraints()), b(x2.constraints());
  bool ok = a.contains(b) && b.contains(a);
  std::cout << (ok ? "PASS" : "FAIL: positive_time_elapse_assign returned the constraints of its argument") << "\n";
  return ok ? 0 : 1;
}
