// Driver: one resolved instantiation of every class template that offers
// ascii_dump/ascii_load, swap, copy... (structural rules over resolved code).
#include "ppl-config.h"
#include "version.hh"
#include "ppl_include_files.hh"
namespace Parma_Polyhedra_Library {
template class BD_Shape<mpq_class>;
template class Octagonal_Shape<mpq_class>;
template class Box<Rational_Interval>;
template class DB_Matrix<Checked_Number<mpq_class, Extended_Number_Policy> >;
template class OR_Matrix<Checked_Number<mpq_class, Extended_Number_Policy> >;
template class Matrix<Sparse_Row>;
template class Linear_System<Constraint>;
template class Linear_System<Generator>;
template class Pointset_Powerset<C_Polyhedron>;
template class Pointset_Powerset<NNC_Polyhedron>;
template class Pointset_Powerset<Grid>;
template class Partially_Reduced_Product<C_Polyhedron, Grid, Constraints_Reduction<C_Polyhedron, Grid> >;
template class Determinate<C_Polyhedron>;
// member templates are not reached by the class instantiations
template void Polyhedron::map_space_dimensions<Partial_Function>(const Partial_Function&);
template void Grid::map_space_dimensions<Partial_Function>(const Partial_Function&);
template void BD_Shape<mpq_class>::map_space_dimensions<Partial_Function>(const Partial_Function&);
template void Octagonal_Shape<mpq_class>::map_space_dimensions<Partial_Function>(const Partial_Function&);
template void Box<Rational_Interval>::map_space_dimensions<Partial_Function>(const Partial_Function&);
template void Pointset_Powerset<C_Polyhedron>::map_space_dimensions<Partial_Function>(const Partial_Function&);
template class Linear_Expression_Impl<Dense_Row>;
template class Linear_Expression_Impl<Sparse_Row>;
}
