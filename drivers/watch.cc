// Driver: the weight-threshold watcher (template) as the C interface instantiates it.
#include "ppl-config.h"
#include "version.hh"
#include "ppl_include_files.hh"
namespace Parma_Polyhedra_Library {
template class Threshold_Watcher<Weightwatch_Traits>;
}
