// Driver: every library header (individual files, not the generated ppl.hh).
#include "ppl-config.h"
#include "version.hh"
#include "ppl_include_files.hh"
