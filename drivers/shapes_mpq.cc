// Driver: BD shapes and octagons over unbounded rationals, all members instantiated.
#include "ppl-config.h"
#include "version.hh"
#include "ppl_include_files.hh"
namespace Parma_Polyhedra_Library {
template class BD_Shape<mpq_class>;
template class Octagonal_Shape<mpq_class>;
// friend function templates are not reached by the class instantiation
template bool operator==(const BD_Shape<mpq_class>&, const BD_Shape<mpq_class>&);
template bool operator==(const Octagonal_Shape<mpq_class>&, const Octagonal_Shape<mpq_class>&);
}
