// Driver: both representations of the linear-expression implementation,
// every member instantiated so that dispatch arms are type-resolved.
#include "ppl-config.h"
#include "version.hh"
#include "ppl_include_files.hh"
namespace Parma_Polyhedra_Library {
template class Linear_Expression_Impl<Dense_Row>;
template class Linear_Expression_Impl<Sparse_Row>;
}
