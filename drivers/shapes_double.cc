// Driver: BD shapes, octagons and boxes over inexact / bounded coefficient types.
#include "ppl-config.h"
#include "version.hh"
#include "ppl_include_files.hh"
namespace Parma_Polyhedra_Library {
template class BD_Shape<double>;
template class Octagonal_Shape<double>;
template class BD_Shape<int32_t>;
template class Octagonal_Shape<int32_t>;
template class BD_Shape<mpz_class>;
template class Octagonal_Shape<mpz_class>;
}

// Floating-point analysis members (member templates over the interval information).
// The interval policy below is the one the project's own tests use (tests/ppl_test.hh).
namespace verif_driver {
using namespace Parma_Polyhedra_Library;
struct Floating_Real_Open_Interval_Info_Policy {
  const_bool_nodef(store_special, false);
  const_bool_nodef(store_open, true);
  const_bool_nodef(cache_empty, true);
  const_bool_nodef(cache_singleton, true);
  const_bool_nodef(cache_normalized, false);
  const_int_nodef(next_bit, 0);
  const_bool_nodef(may_be_empty, true);
  const_bool_nodef(may_contain_infinity, false);
  const_bool_nodef(check_empty_result, false);
  const_bool_nodef(check_inexact, false);
};
typedef Interval_Info_Bitset<unsigned int, Floating_Real_Open_Interval_Info_Policy> FP_Info;
typedef Interval<double, FP_Info> FP_Interval;
typedef Linear_Form<FP_Interval> FP_Linear_Form;
// The documented interface of the destination of export_interval_constraints<U>().
struct Interval_Store {
  dimension_type space_dimension() const;
  void set_empty();
  bool restrict_lower(dimension_type dim, const double& lb);
  bool restrict_upper(dimension_type dim, const double& ub);
};
}
namespace Parma_Polyhedra_Library {
template void BD_Shape<double>::affine_form_image<verif_driver::FP_Info>(Variable, const verif_driver::FP_Linear_Form&);
template void BD_Shape<double>::refine_with_linear_form_inequality<verif_driver::FP_Info>(const verif_driver::FP_Linear_Form&, const verif_driver::FP_Linear_Form&);
template void BD_Shape<double>::generalized_refine_with_linear_form_inequality<verif_driver::FP_Info>(const verif_driver::FP_Linear_Form&, const verif_driver::FP_Linear_Form&, Relation_Symbol);
template void BD_Shape<double>::refine_fp_interval_abstract_store<verif_driver::FP_Info>(Box<verif_driver::FP_Interval>&) const;
template void Octagonal_Shape<double>::affine_form_image<verif_driver::FP_Info>(Variable, const verif_driver::FP_Linear_Form&);
template void Octagonal_Shape<double>::refine_with_linear_form_inequality<verif_driver::FP_Info>(const verif_driver::FP_Linear_Form&, const verif_driver::FP_Linear_Form&);
template void Octagonal_Shape<double>::generalized_refine_with_linear_form_inequality<verif_driver::FP_Info>(const verif_driver::FP_Linear_Form&, const verif_driver::FP_Linear_Form&, Relation_Symbol);
template void Octagonal_Shape<double>::refine_fp_interval_abstract_store<verif_driver::FP_Info>(Box<verif_driver::FP_Interval>&) const;
}

namespace Parma_Polyhedra_Library {
template void BD_Shape<double>::export_interval_constraints<verif_driver::Interval_Store>(verif_driver::Interval_Store&) const;
template void Octagonal_Shape<double>::export_interval_constraints<verif_driver::Interval_Store>(verif_driver::Interval_Store&) const;
}
