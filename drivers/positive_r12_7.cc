// Positive example for R12.7 (a rule whose expected number of instances on the library is zero):
// the shape of the defect it was written for.  The rule must report exactly this function on every
// run, otherwise it is broken; nothing here is compiled into or linked with the library.
#include "ppl-config.h"
#include "version.hh"
#include "ppl_include_files.hh"

namespace Parma_Polyhedra_Library {
namespace Verif_Positive {

template <typename To_Boundary, typename To_Info, typename T, typename Info>
void interval_move_without_properties(To_Boundary& to_lower, To_Info& to_info,
                                      const T& x, const Info& x_info,
                                      const T& y, const Info& y_info) {
  using namespace Boundary_NS;
  To_Boundary tmp;
  To_Info tmp_info;
  tmp_info.clear();
  Result tmp_r = Boundary_NS::mul_assign(LOWER, tmp, tmp_info, UPPER, x, x_info, LOWER, y, y_info);
  Result rl = Boundary_NS::mul_assign(LOWER, to_lower, to_info, LOWER, x, x_info, UPPER, y, y_info);
  if (gt(LOWER, to_lower, to_info, LOWER, tmp, tmp_info)) {
    to_lower = tmp;          // the value moves, tmp_info stays behind
    rl = tmp_r;
  }
  PPL_USED(rl);
}

// Positive example for R12.7 (b): a bound copied between two intervals without its properties.
template <typename ITV>
void interval_bound_copied_without_properties(ITV& x, const ITV& y) {
  x.lower() = y.lower();
}

// Positive example for R12.10: two bounds compared as plain numbers.
template <typename ITV>
bool interval_bounds_compared_without_properties(const ITV& x, const ITV& y) {
  return !x.upper_is_boundary_infinity() && !y.upper_is_boundary_infinity()
    && y.upper() <= x.upper();
}

} // namespace Verif_Positive
} // namespace Parma_Polyhedra_Library
