// Driver for R11.5: instantiates the native-integer to native-integer conversions of
// checked_int_inlines.hh over a grid of (destination policy, source policy, destination type,
// source type).  Each instantiation is reached through a one-line wrapper whose last two template
// arguments are computed by the compiler from the library's own Extended_Int constants:
//   NeedLo: some ordinary source value lies below the destination's ordinary range
//   NeedHi: some ordinary source value lies above it
// The rule reads these two booleans from the wrapper's template arguments and checks the paths of
// the instantiated conversion (branches folded by the compiler) against them.
#include "ppl-config.h"
#include "version.hh"
#include "ppl_include_files.hh"

namespace Parma_Polyhedra_Library {
namespace Verif_Conv {

template <bool INF, bool NANV>
struct VP {
  const_bool_nodef(check_overflow, true);
  const_bool_nodef(has_infinity, INF);
  const_bool_nodef(has_nan, NANV);
};

typedef __int128 W;

template <typename PT, typename PF, typename To, typename From>
struct Need {
  static const bool lo
    = static_cast<W>(Checked::Extended_Int<PF, From>::min) < static_cast<W>(Checked::Extended_Int<PT, To>::min);
  static const bool hi
    = static_cast<W>(Checked::Extended_Int<PF, From>::max) > static_cast<W>(Checked::Extended_Int<PT, To>::max);
};

#define WRAP(name, callee) \
template <typename PT, typename PF, typename To, typename From, bool NeedLo, bool NeedHi> \
Result name(To& to, const From from, Rounding_Dir dir) { \
  return Checked::callee<PT, PF, To, From>(to, from, dir); \
}

WRAP(conv_ss, assign_signed_int_signed_int)
WRAP(conv_su, assign_signed_int_unsigned_int)
WRAP(conv_us, assign_unsigned_int_signed_int)
WRAP(conv_uu, assign_unsigned_int_unsigned_int)

#define I1(fn, PT, PF, To, From) \
template Result fn<PT, PF, To, From, Need<PT, PF, To, From>::lo, Need<PT, PF, To, From>::hi>(To&, const From, Rounding_Dir);

typedef VP<false, false> P00;
typedef VP<true, false> P10;
typedef VP<false, true> P01;
typedef VP<true, true> P11;

#define IP(fn, To, From) \
  I1(fn, P00, P00, To, From) I1(fn, P00, P10, To, From) I1(fn, P00, P01, To, From) I1(fn, P00, P11, To, From) \
  I1(fn, P10, P00, To, From) I1(fn, P10, P10, To, From) I1(fn, P10, P01, To, From) I1(fn, P10, P11, To, From) \
  I1(fn, P01, P00, To, From) I1(fn, P01, P10, To, From) I1(fn, P01, P01, To, From) I1(fn, P01, P11, To, From) \
  I1(fn, P11, P00, To, From) I1(fn, P11, P10, To, From) I1(fn, P11, P01, To, From) I1(fn, P11, P11, To, From)

#define S8 signed char
#define S16 short
#define S32 int
#define SL long
#define SLL long long
#define U8 unsigned char
#define U16 unsigned short
#define U32 unsigned int
#define UL unsigned long
#define ULL unsigned long long

#define ROW(fn, To, F1, F2, F3, F4, F5) IP(fn, To, F1) IP(fn, To, F2) IP(fn, To, F3) IP(fn, To, F4) IP(fn, To, F5)
#define GRID(fn, T1, T2, T3, T4, T5, F1, F2, F3, F4, F5) \
  ROW(fn, T1, F1, F2, F3, F4, F5) ROW(fn, T2, F1, F2, F3, F4, F5) ROW(fn, T3, F1, F2, F3, F4, F5) \
  ROW(fn, T4, F1, F2, F3, F4, F5) ROW(fn, T5, F1, F2, F3, F4, F5)

GRID(conv_ss, S8, S16, S32, SL, SLL, S8, S16, S32, SL, SLL)
GRID(conv_su, S8, S16, S32, SL, SLL, U8, U16, U32, UL, ULL)
GRID(conv_us, U8, U16, U32, UL, ULL, S8, S16, S32, SL, SLL)
GRID(conv_uu, U8, U16, U32, UL, ULL, U8, U16, U32, UL, ULL)

} // namespace Verif_Conv
} // namespace Parma_Polyhedra_Library
