// pplfacts: libTooling fact extractor for the PPL verification rules.
//
// For every function definition whose body lies under --root (template
// patterns and instantiations alike) it emits one JSON record holding a
// simplified, type-resolved statement tree and clang's CFG (built with
// setAllAlwaysAdd) whose elements refer to the tree's node ids.  For every
// class definition it emits fields, bases and special-member facts.
// It never executes code of the analysed program.
//
// usage: pplfacts --out F.json [--root /repo] [--file-re RE] [--name-re RE]
//                 [--main-only] [--no-cfg] SRC -- <compiler flags>

#include "clang/AST/ASTConsumer.h"
#include "clang/AST/ASTContext.h"
#include "clang/AST/DeclCXX.h"
#include "clang/AST/DeclTemplate.h"
#include "clang/AST/ExprCXX.h"
#include "clang/AST/RecursiveASTVisitor.h"
#include "clang/AST/StmtCXX.h"
#include "clang/Analysis/CFG.h"
#include "clang/Basic/Diagnostic.h"
#include "clang/Basic/SourceManager.h"
#include "clang/Frontend/CompilerInstance.h"
#include "clang/Frontend/FrontendAction.h"
#include "clang/Frontend/TextDiagnosticPrinter.h"
#include "clang/Tooling/CompilationDatabase.h"
#include "clang/Tooling/Tooling.h"
#include "llvm/Support/JSON.h"
#include "llvm/Support/Regex.h"
#include "llvm/Support/raw_ostream.h"

#include <map>
#include <memory>
#include <set>
#include <string>
#include <vector>

using namespace clang;
namespace json = llvm::json;

namespace {

struct Options {
  std::string out;
  std::string root = "/repo";
  std::string root2;
  std::string fileRe;
  std::string nameRe;
  std::string classRe;
  bool mainOnly = false;
  bool noCfg = false;
};
Options Opt;

struct DiagRec {
  std::string level, file, msg;
  unsigned line;
};
std::vector<DiagRec> Diags;

class CollectDiags : public DiagnosticConsumer {
public:
  void HandleDiagnostic(DiagnosticsEngine::Level L,
                        const Diagnostic &Info) override {
    DiagnosticConsumer::HandleDiagnostic(L, Info);
    if (L < DiagnosticsEngine::Error)
      return;
    llvm::SmallString<256> Buf;
    Info.FormatDiagnostic(Buf);
    DiagRec R;
    R.level = (L == DiagnosticsEngine::Fatal) ? "fatal" : "error";
    R.msg = std::string(Buf.str());
    R.line = 0;
    if (Info.hasSourceManager() && Info.getLocation().isValid()) {
      const SourceManager &SM = Info.getSourceManager();
      PresumedLoc P = SM.getPresumedLoc(SM.getExpansionLoc(Info.getLocation()));
      if (P.isValid()) {
        R.file = P.getFilename();
        R.line = P.getLine();
      }
    }
    Diags.push_back(R);
  }
};

bool underRoot(const std::string &File) {
  if (File.rfind(Opt.root, 0) == 0)
    return true;
  if (!Opt.root2.empty() && File.rfind(Opt.root2, 0) == 0)
    return true;
  return false;
}

std::string typeStr(QualType T, const ASTContext &Ctx) {
  if (T.isNull())
    return "";
  PrintingPolicy PP(Ctx.getLangOpts());
  PP.SuppressTagKeyword = true;
  PP.Bool = true;
  return T.getAsString(PP);
}

// parameter passing mode: 'r' non-const lvalue ref, 'p' pointer to non-const,
// 'c' const ref / const pointer, 'v' by value, 'm' rvalue ref
char paramMode(QualType T) {
  if (T.isNull())
    return '?';
  if (T->isLValueReferenceType()) {
    QualType P = T->getPointeeType();
    return P.isConstQualified() ? 'c' : 'r';
  }
  if (T->isRValueReferenceType())
    return 'm';
  if (T->isPointerType()) {
    QualType P = T->getPointeeType();
    return P.isConstQualified() ? 'c' : 'p';
  }
  return 'v';
}

class Emitter {
public:
  Emitter(ASTContext &Ctx, json::OStream &J) : Ctx(Ctx), SM(Ctx.getSourceManager()), J(J) {}

  ASTContext &Ctx;
  const SourceManager &SM;
  json::OStream &J;
  std::map<const Stmt *, unsigned> Ids;
  unsigned NextId = 0;
  // In template instantiations: record the value of boolean expressions the
  // compiler folds to a constant ("cv"), so that path rules can follow the
  // branches this instantiation actually has.
  bool FoldConst = false;

  unsigned lineOf(SourceLocation L) {
    if (L.isInvalid())
      return 0;
    return SM.getExpansionLineNumber(L);
  }
  std::string fileOf(SourceLocation L) {
    if (L.isInvalid())
      return "";
    PresumedLoc P = SM.getPresumedLoc(SM.getExpansionLoc(L));
    return P.isValid() ? std::string(P.getFilename()) : std::string();
  }

  static const Stmt *skip(const Stmt *S) {
    // Transparent wrappers.
    while (S) {
      if (auto *E = dyn_cast<ParenExpr>(S))
        S = E->getSubExpr();
      else if (auto *E = dyn_cast<ImplicitCastExpr>(S))
        S = E->getSubExpr();
      else if (auto *E = dyn_cast<ExprWithCleanups>(S))
        S = E->getSubExpr();
      else if (auto *E = dyn_cast<MaterializeTemporaryExpr>(S))
        S = E->getSubExpr();
      else if (auto *E = dyn_cast<CXXBindTemporaryExpr>(S))
        S = E->getSubExpr();
      else if (auto *E = dyn_cast<ConstantExpr>(S))
        S = E->getSubExpr();
      else if (auto *E = dyn_cast<SubstNonTypeTemplateParmExpr>(S))
        S = E->getReplacement();
      else if (auto *E = dyn_cast<CXXDefaultArgExpr>(S))
        S = E->getExpr();
      else if (auto *E = dyn_cast<CXXDefaultInitExpr>(S))
        S = E->getExpr();
      else
        break;
    }
    return S;
  }

  void registerChain(const Stmt *Outer, unsigned Id) {
    // map all transparent wrappers down to the surviving node
    const Stmt *S = Outer;
    while (S) {
      Ids.emplace(S, Id);
      const Stmt *N = nullptr;
      if (auto *E = dyn_cast<ParenExpr>(S))
        N = E->getSubExpr();
      else if (auto *E = dyn_cast<ImplicitCastExpr>(S))
        N = E->getSubExpr();
      else if (auto *E = dyn_cast<ExprWithCleanups>(S))
        N = E->getSubExpr();
      else if (auto *E = dyn_cast<MaterializeTemporaryExpr>(S))
        N = E->getSubExpr();
      else if (auto *E = dyn_cast<CXXBindTemporaryExpr>(S))
        N = E->getSubExpr();
      else if (auto *E = dyn_cast<ConstantExpr>(S))
        N = E->getSubExpr();
      else if (auto *E = dyn_cast<SubstNonTypeTemplateParmExpr>(S))
        N = E->getReplacement();
      else if (auto *E = dyn_cast<CXXDefaultArgExpr>(S))
        N = E->getExpr();
      else if (auto *E = dyn_cast<CXXDefaultInitExpr>(S))
        N = E->getExpr();
      S = N;
    }
  }

  // Explicit template arguments of a callee, as written (`is_nan<From1_Policy>(x)` -> ["From1_Policy"]).
  void explicitTargs(llvm::ArrayRef<TemplateArgumentLoc> Args) {
    J.attributeBegin("targs");
    J.arrayBegin();
    PrintingPolicy PP(Ctx.getLangOpts());
    for (const TemplateArgumentLoc &A : Args) {
      std::string S;
      llvm::raw_string_ostream OS(S);
      A.getArgument().print(PP, OS, /*IncludeType=*/false);
      J.value(OS.str());
    }
    J.arrayEnd();
    J.attributeEnd();
  }

  void calleeInfo(const FunctionDecl *FD) {
    if (!FD)
      return;
    J.attribute("callee", FD->getQualifiedNameAsString());
    if (FD->getDeclName().isIdentifier())
      J.attribute("cn", FD->getName());
    else
      J.attribute("cn", FD->getDeclName().getAsString());
    if (auto *MD = dyn_cast<CXXMethodDecl>(FD)) {
      if (MD->isConst())
        J.attribute("cconst", true);
      if (MD->isStatic())
        J.attribute("cstatic", true);
      if (const CXXRecordDecl *RD = MD->getParent())
        J.attribute("ccls", typeStr(Ctx.getTypeDeclType(RD), Ctx));
    }
    std::string Modes;
    for (const ParmVarDecl *P : FD->parameters())
      Modes.push_back(paramMode(P->getType()));
    J.attribute("pm", Modes);
    J.attribute("rt", typeStr(FD->getReturnType(), Ctx));
    if (FD->getBeginLoc().isValid()) {
      std::string F = fileOf(FD->getLocation());
      if (!underRoot(F))
        J.attribute("cext", true);
    }
  }

  void declRef(const ValueDecl *D) {
    if (!D)
      return;
    std::string Name = D->getDeclName().getAsString();
    J.attribute("n", Name);
    const char *DK = "other";
    if (isa<ParmVarDecl>(D))
      DK = "param";
    else if (auto *VD = dyn_cast<VarDecl>(D)) {
      if (VD->isLocalVarDecl())
        DK = VD->isStaticLocal() ? "slocal" : "local";
      else if (VD->isStaticDataMember())
        DK = "sfield";
      else
        DK = "global";
    } else if (isa<FieldDecl>(D))
      DK = "field";
    else if (isa<EnumConstantDecl>(D))
      DK = "enum";
    else if (isa<FunctionDecl>(D))
      DK = "func";
    else if (isa<NonTypeTemplateParmDecl>(D))
      DK = "tparam";
    J.attribute("dk", DK);
    if (isa<EnumConstantDecl>(D) || isa<FunctionDecl>(D) ||
        (isa<VarDecl>(D) && !cast<VarDecl>(D)->isLocalVarDecl() && !isa<ParmVarDecl>(D)))
      J.attribute("qn", D->getQualifiedNameAsString());
    if (!isa<FunctionDecl>(D))
      J.attribute("t", typeStr(D->getType(), Ctx));
    // constant keyword strings: `const char* kw = "text";` at namespace/class scope
    if (auto *VD = dyn_cast<VarDecl>(D))
      if (!VD->isLocalVarDecl() && !isa<ParmVarDecl>(VD))
        if (const Expr *Init = VD->getAnyInitializer())
          if (auto *SL = dyn_cast<StringLiteral>(Init->IgnoreParenImpCasts()))
            if (SL->isAscii() || SL->isUTF8())
              J.attribute("sv", SL->getString());
  }

  void child(const Stmt *S) { emit(S); }

  void children(const Stmt *S) {
    J.attributeBegin("c");
    J.arrayBegin();
    for (const Stmt *C : S->children())
      if (C)
        emit(C);
    J.arrayEnd();
    J.attributeEnd();
  }

  template <typename Range> void childList(Range R) {
    J.attributeBegin("c");
    J.arrayBegin();
    for (const Stmt *C : R)
      if (C)
        emit(C);
    J.arrayEnd();
    J.attributeEnd();
  }

  void emitVarDecl(const VarDecl *VD) {
    J.objectBegin();
    J.attribute("k", "var");
    unsigned Id = NextId++;
    J.attribute("i", Id);
    J.attribute("l", lineOf(VD->getLocation()));
    J.attribute("n", VD->getNameAsString());
    J.attribute("t", typeStr(VD->getType(), Ctx));
    J.attribute("tc", typeStr(VD->getType().getCanonicalType(), Ctx));
    if (VD->isStaticLocal())
      J.attribute("static", true);
    J.attributeBegin("c");
    J.arrayBegin();
    if (VD->hasInit())
      emit(VD->getInit());
    J.arrayEnd();
    J.attributeEnd();
    J.objectEnd();
  }

  void emit(const Stmt *Outer) {
    const Stmt *S = skip(Outer);
    if (!S) {
      J.value(nullptr);
      return;
    }
    auto It = Ids.find(S);
    if (It != Ids.end()) {
      // Shared sub-tree (e.g. default argument, OpaqueValue): emit a reference.
      J.objectBegin();
      J.attribute("k", "shared");
      J.attribute("to", It->second);
      J.objectEnd();
      return;
    }
    unsigned Id = NextId++;
    registerChain(Outer, Id);
    Ids.emplace(S, Id);
    J.objectBegin();
    J.attribute("i", Id);
    J.attribute("l", lineOf(S->getBeginLoc()));
    if (FoldConst)
      if (auto *OE = dyn_cast<Expr>(Outer))
        if (OE->getType()->isBooleanType() && !OE->isValueDependent() &&
            !OE->isTypeDependent() && !OE->containsErrors()) {
          bool V;
          if (OE->EvaluateAsBooleanCondition(V, Ctx))
            J.attribute("cv", V);
        }

    if (auto *E = dyn_cast<CXXMemberCallExpr>(S)) {
      J.attribute("k", "mcall");
      const CXXMethodDecl *MD = E->getMethodDecl();
      if (MD)
        calleeInfo(MD);
      else {
        J.attribute("dep", true);
      }
      if (auto *ME = dyn_cast_or_null<MemberExpr>(skip(E->getCallee())))
        if (ME->isArrow())
          J.attribute("arrow", true);
      J.attribute("t", typeStr(E->getType(), Ctx));
      J.attributeBegin("c");
      J.arrayBegin();
      const Expr *Obj = E->getImplicitObjectArgument();
      if (Obj)
        emit(Obj);
      else
        J.value(nullptr);
      for (const Expr *A : E->arguments())
        emit(A);
      J.arrayEnd();
      J.attributeEnd();
    } else if (auto *E = dyn_cast<CXXOperatorCallExpr>(S)) {
      J.attribute("k", "ocall");
      J.attribute("op", getOperatorSpelling(E->getOperator()));
      if (const FunctionDecl *FD = E->getDirectCallee()) {
        calleeInfo(FD);
        if (isa<CXXMethodDecl>(FD))
          J.attribute("member", true);
      } else
        J.attribute("dep", true);
      J.attribute("t", typeStr(E->getType(), Ctx));
      childList(E->arguments());
    } else if (auto *E = dyn_cast<CallExpr>(S)) {
      const Expr *Callee = E->getCallee();
      const Stmt *CS = skip(Callee);
      const FunctionDecl *FD = E->getDirectCallee();
      bool EmitFn = false;
      if (FD) {
        J.attribute("k", "call");
        calleeInfo(FD);
        if (auto *DR = dyn_cast_or_null<DeclRefExpr>(CS))
          if (DR->hasExplicitTemplateArgs())
            explicitTargs(DR->template_arguments());
      } else if (auto *UL = dyn_cast_or_null<UnresolvedLookupExpr>(CS)) {
        J.attribute("k", "call");
        J.attribute("dep", true);
        J.attribute("callee", "~" + UL->getName().getAsString());
        J.attribute("cn", UL->getName().getAsString());
        if (UL->hasExplicitTemplateArgs())
          explicitTargs(UL->template_arguments());
      } else if (auto *DM = dyn_cast_or_null<CXXDependentScopeMemberExpr>(CS)) {
        J.attribute("k", "mcall");
        J.attribute("dep", true);
        J.attribute("callee", "~" + DM->getMember().getAsString());
        J.attribute("cn", DM->getMember().getAsString());
        J.attributeBegin("c");
        J.arrayBegin();
        if (!DM->isImplicitAccess())
          emit(DM->getBase());
        else {
          J.objectBegin();
          J.attribute("k", "this");
          J.attribute("i", NextId++);
          J.attribute("implicit", true);
          J.objectEnd();
        }
        for (const Expr *A : E->arguments())
          emit(A);
        J.arrayEnd();
        J.attributeEnd();
        J.objectEnd();
        return;
      } else if (auto *UM = dyn_cast_or_null<UnresolvedMemberExpr>(CS)) {
        J.attribute("k", "mcall");
        J.attribute("dep", true);
        J.attribute("callee", "~" + UM->getMemberName().getAsString());
        J.attribute("cn", UM->getMemberName().getAsString());
        J.attributeBegin("c");
        J.arrayBegin();
        if (!UM->isImplicitAccess())
          emit(UM->getBase());
        else {
          J.objectBegin();
          J.attribute("k", "this");
          J.attribute("i", NextId++);
          J.attribute("implicit", true);
          J.objectEnd();
        }
        for (const Expr *A : E->arguments())
          emit(A);
        J.arrayEnd();
        J.attributeEnd();
        J.objectEnd();
        return;
      } else if (auto *DS = dyn_cast_or_null<DependentScopeDeclRefExpr>(CS)) {
        J.attribute("k", "call");
        J.attribute("dep", true);
        J.attribute("callee", "~" + DS->getDeclName().getAsString());
        J.attribute("cn", DS->getDeclName().getAsString());
      } else {
        J.attribute("k", "icall");
        EmitFn = true;
      }
      J.attribute("t", typeStr(E->getType(), Ctx));
      J.attributeBegin("c");
      J.arrayBegin();
      if (EmitFn)
        emit(Callee);
      for (const Expr *A : E->arguments())
        emit(A);
      J.arrayEnd();
      J.attributeEnd();
    } else if (auto *E = dyn_cast<CXXConstructExpr>(S)) {
      J.attribute("k", "construct");
      J.attribute("t", typeStr(E->getType(), Ctx));
      J.attribute("tc", typeStr(E->getType().getCanonicalType(), Ctx));
      if (const CXXConstructorDecl *CD = E->getConstructor()) {
        calleeInfo(CD);
        if (CD->isCopyConstructor())
          J.attribute("copy", true);
        if (CD->isDefaultConstructor())
          J.attribute("default", true);
      }
      if (isa<CXXTemporaryObjectExpr>(E))
        J.attribute("temp", true);
      childList(E->arguments());
    } else if (auto *E = dyn_cast<CXXUnresolvedConstructExpr>(S)) {
      J.attribute("k", "construct");
      J.attribute("dep", true);
      J.attribute("t", typeStr(E->getTypeAsWritten(), Ctx));
      childList(E->arguments());
    } else if (auto *E = dyn_cast<MemberExpr>(S)) {
      J.attribute("k", "member");
      declRef(E->getMemberDecl());
      if (E->isArrow())
        J.attribute("arrow", true);
      J.attributeBegin("c");
      J.arrayBegin();
      emit(E->getBase());
      J.arrayEnd();
      J.attributeEnd();
    } else if (auto *E = dyn_cast<CXXDependentScopeMemberExpr>(S)) {
      J.attribute("k", "member");
      J.attribute("dep", true);
      J.attribute("n", E->getMember().getAsString());
      J.attributeBegin("c");
      J.arrayBegin();
      if (!E->isImplicitAccess())
        emit(E->getBase());
      J.arrayEnd();
      J.attributeEnd();
    } else if (auto *E = dyn_cast<DeclRefExpr>(S)) {
      J.attribute("k", "ref");
      declRef(E->getDecl());
    } else if (auto *E = dyn_cast<DependentScopeDeclRefExpr>(S)) {
      J.attribute("k", "ref");
      J.attribute("dep", true);
      J.attribute("n", E->getDeclName().getAsString());
    } else if (auto *E = dyn_cast<UnresolvedLookupExpr>(S)) {
      J.attribute("k", "ref");
      J.attribute("dep", true);
      J.attribute("n", E->getName().getAsString());
    } else if (isa<CXXThisExpr>(S)) {
      J.attribute("k", "this");
      if (cast<CXXThisExpr>(S)->isImplicit())
        J.attribute("implicit", true);
    } else if (auto *E = dyn_cast<IntegerLiteral>(S)) {
      J.attribute("k", "int");
      J.attribute("v", toString(E->getValue(), 10, false));
    } else if (auto *E = dyn_cast<CXXBoolLiteralExpr>(S)) {
      J.attribute("k", "bool");
      J.attribute("v", E->getValue());
    } else if (auto *E = dyn_cast<StringLiteral>(S)) {
      J.attribute("k", "str");
      if (E->isAscii() || E->isUTF8())
        J.attribute("v", E->getString());
      else
        J.attribute("v", "<wide>");
    } else if (auto *E = dyn_cast<CharacterLiteral>(S)) {
      J.attribute("k", "char");
      J.attribute("v", (int64_t)E->getValue());
    } else if (isa<FloatingLiteral>(S)) {
      J.attribute("k", "float");
    } else if (isa<CXXNullPtrLiteralExpr>(S) || isa<GNUNullExpr>(S)) {
      J.attribute("k", "null");
    } else if (auto *E = dyn_cast<UnaryOperator>(S)) {
      J.attribute("k", "unop");
      J.attribute("op", UnaryOperator::getOpcodeStr(E->getOpcode()));
      if (E->isPostfix())
        J.attribute("post", true);
      children(S);
    } else if (auto *E = dyn_cast<BinaryOperator>(S)) {
      J.attribute("k", E->isAssignmentOp() ? "assign" : "binop");
      J.attribute("op", E->getOpcodeStr());
      children(S);
    } else if (isa<ConditionalOperator>(S)) {
      J.attribute("k", "cond");
      children(S);
    } else if (auto *E = dyn_cast<CXXNamedCastExpr>(S)) {
      J.attribute("k", "cast");
      J.attribute("ck", E->getCastName());
      J.attribute("t", typeStr(E->getTypeAsWritten(), Ctx));
      J.attribute("tc", typeStr(E->getTypeAsWritten().getCanonicalType(), Ctx));
      J.attribute("ft", typeStr(E->getSubExpr()->getType(), Ctx));
      children(S);
    } else if (auto *E = dyn_cast<CStyleCastExpr>(S)) {
      J.attribute("k", "cast");
      J.attribute("ck", "cstyle");
      J.attribute("t", typeStr(E->getTypeAsWritten(), Ctx));
      children(S);
    } else if (auto *E = dyn_cast<CXXFunctionalCastExpr>(S)) {
      J.attribute("k", "cast");
      J.attribute("ck", "functional");
      J.attribute("t", typeStr(E->getTypeAsWritten(), Ctx));
      children(S);
    } else if (auto *E = dyn_cast<CXXNewExpr>(S)) {
      J.attribute("k", "new");
      J.attribute("t", typeStr(E->getAllocatedType(), Ctx));
      if (E->isArray())
        J.attribute("array", true);
      if (E->getNumPlacementArgs() > 0)
        J.attribute("placement", true);
      children(S);
    } else if (auto *E = dyn_cast<CXXDeleteExpr>(S)) {
      J.attribute("k", "delete");
      if (E->isArrayForm())
        J.attribute("array", true);
      children(S);
    } else if (auto *E = dyn_cast<CXXThrowExpr>(S)) {
      J.attribute("k", "throw");
      if (E->getSubExpr())
        J.attribute("t", typeStr(E->getSubExpr()->getType(), Ctx));
      else
        J.attribute("rethrow", true);
      children(S);
    } else if (isa<ReturnStmt>(S)) {
      J.attribute("k", "return");
      children(S);
    } else if (auto *I = dyn_cast<IfStmt>(S)) {
      J.attribute("k", "if");
      J.attributeBegin("c");
      J.arrayBegin();
      // fixed arity 5: init, condvar, cond, then, else (null when absent)
      if (I->getInit()) emit(I->getInit()); else J.value(nullptr);
      if (I->getConditionVariableDeclStmt())
        emit(I->getConditionVariableDeclStmt());
      else
        J.value(nullptr);
      emit(I->getCond());
      emit(I->getThen());
      if (I->getElse()) emit(I->getElse()); else J.value(nullptr);
      J.arrayEnd();
      J.attributeEnd();
    } else if (auto *F = dyn_cast<ForStmt>(S)) {
      J.attribute("k", "for");
      J.attributeBegin("c");
      J.arrayBegin();
      // fixed arity 4: init, cond, inc, body (null when absent)
      if (F->getInit()) emit(F->getInit()); else J.value(nullptr);
      if (F->getCond()) emit(F->getCond()); else J.value(nullptr);
      if (F->getInc()) emit(F->getInc()); else J.value(nullptr);
      if (F->getBody()) emit(F->getBody()); else J.value(nullptr);
      J.arrayEnd();
      J.attributeEnd();
    } else if (auto *W = dyn_cast<WhileStmt>(S)) {
      J.attribute("k", "while");
      J.attributeBegin("c");
      J.arrayBegin();
      emit(W->getCond());
      if (W->getBody()) emit(W->getBody()); else J.value(nullptr);
      J.arrayEnd();
      J.attributeEnd();
    } else if (auto *D = dyn_cast<DoStmt>(S)) {
      J.attribute("k", "do");
      J.attributeBegin("c");
      J.arrayBegin();
      emit(D->getBody());
      emit(D->getCond());
      J.arrayEnd();
      J.attributeEnd();
    } else if (auto *R = dyn_cast<CXXForRangeStmt>(S)) {
      J.attribute("k", "forrange");
      children(R);
    } else if (auto *Sw = dyn_cast<SwitchStmt>(S)) {
      J.attribute("k", "switch");
      J.attributeBegin("c");
      J.arrayBegin();
      emit(Sw->getCond());
      emit(Sw->getBody());
      J.arrayEnd();
      J.attributeEnd();
    } else if (auto *C = dyn_cast<CaseStmt>(S)) {
      J.attribute("k", "case");
      J.attributeBegin("c");
      J.arrayBegin();
      emit(C->getLHS());
      if (C->getSubStmt())
        emit(C->getSubStmt());
      J.arrayEnd();
      J.attributeEnd();
    } else if (auto *D = dyn_cast<DefaultStmt>(S)) {
      J.attribute("k", "default");
      J.attributeBegin("c");
      J.arrayBegin();
      if (D->getSubStmt())
        emit(D->getSubStmt());
      J.arrayEnd();
      J.attributeEnd();
    } else if (isa<BreakStmt>(S)) {
      J.attribute("k", "break");
    } else if (isa<ContinueStmt>(S)) {
      J.attribute("k", "continue");
    } else if (auto *G = dyn_cast<GotoStmt>(S)) {
      J.attribute("k", "goto");
      J.attribute("n", G->getLabel()->getName());
    } else if (auto *L = dyn_cast<LabelStmt>(S)) {
      J.attribute("k", "label");
      J.attribute("n", L->getName());
      children(S);
    } else if (isa<CompoundStmt>(S)) {
      J.attribute("k", "block");
      children(S);
    } else if (auto *DS = dyn_cast<DeclStmt>(S)) {
      J.attribute("k", "decl");
      J.attributeBegin("c");
      J.arrayBegin();
      for (const Decl *D : DS->decls())
        if (auto *VD = dyn_cast<VarDecl>(D))
          emitVarDecl(VD);
      J.arrayEnd();
      J.attributeEnd();
    } else if (auto *T = dyn_cast<CXXTryStmt>(S)) {
      J.attribute("k", "try");
      J.attributeBegin("c");
      J.arrayBegin();
      emit(T->getTryBlock());
      for (unsigned i = 0; i < T->getNumHandlers(); ++i)
        emit(T->getHandler(i));
      J.arrayEnd();
      J.attributeEnd();
    } else if (auto *C = dyn_cast<CXXCatchStmt>(S)) {
      J.attribute("k", "catch");
      if (C->getExceptionDecl()) {
        J.attribute("t", typeStr(C->getCaughtType(), Ctx));
        J.attribute("n", C->getExceptionDecl()->getNameAsString());
      } else
        J.attribute("all", true);
      J.attributeBegin("c");
      J.arrayBegin();
      emit(C->getHandlerBlock());
      J.arrayEnd();
      J.attributeEnd();
    } else if (isa<NullStmt>(S)) {
      J.attribute("k", "null_stmt");
    } else if (auto *E = dyn_cast<ArraySubscriptExpr>(S)) {
      (void)E;
      J.attribute("k", "index");
      children(S);
    } else if (auto *E = dyn_cast<UnaryExprOrTypeTraitExpr>(S)) {
      (void)E;
      J.attribute("k", "sizeof");
    } else if (auto *E = dyn_cast<CXXTypeidExpr>(S)) {
      (void)E;
      J.attribute("k", "typeid");
    } else if (auto *E = dyn_cast<InitListExpr>(S)) {
      (void)E;
      J.attribute("k", "initlist");
      children(S);
    } else if (auto *E = dyn_cast<LambdaExpr>(S)) {
      (void)E;
      J.attribute("k", "lambda");
    } else if (auto *E = dyn_cast<CXXScalarValueInitExpr>(S)) {
      J.attribute("k", "zeroinit");
      J.attribute("t", typeStr(E->getType(), Ctx));
    } else if (auto *E = dyn_cast<CXXPseudoDestructorExpr>(S)) {
      (void)E;
      J.attribute("k", "pseudodtor");
      children(S);
    } else if (auto *E = dyn_cast<Expr>(S)) {
      J.attribute("k", "expr");
      J.attribute("cls", S->getStmtClassName());
      J.attribute("t", typeStr(E->getType(), Ctx));
      children(S);
    } else {
      J.attribute("k", "stmt");
      J.attribute("cls", S->getStmtClassName());
      children(S);
    }
    J.objectEnd();
  }

  void emitCFG(const FunctionDecl *FD) {
    CFG::BuildOptions BO;
    BO.setAllAlwaysAdd();
    BO.AddImplicitDtors = false;
    BO.AddTemporaryDtors = false;
    BO.AddInitializers = true;
    BO.AddEHEdges = false;
    BO.PruneTriviallyFalseEdges = false;
    std::unique_ptr<CFG> G =
        CFG::buildCFG(FD, FD->getBody(), &Ctx, BO);
    if (!G) {
      J.attribute("cfg", nullptr);
      return;
    }
    J.attributeBegin("cfg");
    J.objectBegin();
    J.attribute("entry", G->getEntry().getBlockID());
    J.attribute("exit", G->getExit().getBlockID());
    J.attributeBegin("b");
    J.arrayBegin();
    for (const CFGBlock *B : *G) {
      if (!B)
        continue;
      J.objectBegin();
      J.attribute("id", B->getBlockID());
      J.attributeBegin("e");
      J.arrayBegin();
      std::set<unsigned> Seen;
      for (const CFGElement &El : *B) {
        const Stmt *S = nullptr;
        if (auto CS = El.getAs<CFGStmt>())
          S = CS->getStmt();
        else if (auto CI = El.getAs<CFGInitializer>())
          S = CI->getInitializer()->getInit();
        if (!S)
          continue;
        auto It = Ids.find(S);
        if (It == Ids.end()) {
          const Stmt *K = skip(S);
          It = Ids.find(K);
        }
        if (It == Ids.end())
          continue;
        if (Seen.insert(It->second).second)
          J.value(It->second);
      }
      J.arrayEnd();
      J.attributeEnd();
      J.attributeBegin("s");
      J.arrayBegin();
      for (auto SI = B->succ_begin(); SI != B->succ_end(); ++SI) {
        const CFGBlock *Succ = SI->getReachableBlock();
        if (!Succ)
          Succ = SI->getPossiblyUnreachableBlock();
        if (Succ)
          J.value(Succ->getBlockID());
        else
          J.value(nullptr);
      }
      J.arrayEnd();
      J.attributeEnd();
      if (const Stmt *T = B->getTerminatorStmt()) {
        auto It = Ids.find(T);
        if (It == Ids.end())
          It = Ids.find(skip(T));
        if (It != Ids.end())
          J.attribute("t", It->second);
        J.attribute("tk", T->getStmtClassName());
      }
      const Stmt *TCs = B->getLastCondition();
      if (!TCs)
        TCs = B->getTerminatorCondition();
      if (const Stmt *TC = TCs) {
        auto It = Ids.find(TC);
        if (It == Ids.end())
          It = Ids.find(skip(TC));
        if (It != Ids.end())
          J.attribute("tc", It->second);
      }
      if (const Stmt *L = B->getLabel()) {
        auto It = Ids.find(L);
        if (It == Ids.end())
          It = Ids.find(skip(L));
        if (It != Ids.end())
          J.attribute("lbl", It->second);
      }
      if (B->hasNoReturnElement())
        J.attribute("noret", true);
      J.objectEnd();
    }
    J.arrayEnd();
    J.attributeEnd();
    J.objectEnd();
    J.attributeEnd();
  }
};

class Visitor : public RecursiveASTVisitor<Visitor> {
public:
  Visitor(ASTContext &Ctx, json::OStream &J)
      : Ctx(Ctx), SM(Ctx.getSourceManager()), J(J) {
    if (!Opt.fileRe.empty())
      FileRe = std::make_unique<llvm::Regex>(Opt.fileRe);
    if (!Opt.nameRe.empty())
      NameRe = std::make_unique<llvm::Regex>(Opt.nameRe);
    if (!Opt.classRe.empty())
      ClassRe = std::make_unique<llvm::Regex>(Opt.classRe);
  }
  bool shouldVisitTemplateInstantiations() const { return true; }
  bool shouldVisitImplicitCode() const { return false; }

  ASTContext &Ctx;
  const SourceManager &SM;
  json::OStream &J;
  std::unique_ptr<llvm::Regex> FileRe, NameRe, ClassRe;
  std::set<const FunctionDecl *> Done;
  std::vector<const CXXRecordDecl *> Classes;
  std::set<const CXXRecordDecl *> ClassSeen;
  unsigned NFuncs = 0;

  std::string fileOf(SourceLocation L) {
    if (L.isInvalid())
      return "";
    PresumedLoc P = SM.getPresumedLoc(SM.getExpansionLoc(L));
    return P.isValid() ? std::string(P.getFilename()) : std::string();
  }

  bool wanted(const std::string &File, const std::string &QName, SourceLocation L) {
    if (!underRoot(File))
      return false;
    if (Opt.mainOnly && !SM.isInMainFile(SM.getExpansionLoc(L)))
      return false;
    if (FileRe && !FileRe->match(File))
      return false;
    if (NameRe && !NameRe->match(QName))
      return false;
    return true;
  }

  bool VisitCXXRecordDecl(CXXRecordDecl *RD) {
    if (!RD->isThisDeclarationADefinition() || !RD->hasDefinition())
      return true;
    if (RD->isLambda())
      return true;
    std::string File = fileOf(RD->getLocation());
    if (!underRoot(File))
      return true;
    if (ClassSeen.insert(RD).second)
      Classes.push_back(RD);
    return true;
  }

  std::map<std::string, std::pair<std::string, unsigned>> Protos;

  bool VisitFunctionDecl(FunctionDecl *FD) {
    if (!FD->doesThisDeclarationHaveABody()) {
      // extern "C" prototypes (for the completeness rule of the C interface)
      if (FD->isExternC() && !FD->isImplicit() && FD->getDeclName().isIdentifier()) {
        std::string File = fileOf(FD->getLocation());
        if (underRoot(File))
          Protos.emplace(FD->getName().str(),
                         std::make_pair(File, SM.getExpansionLineNumber(FD->getLocation())));
      }
      return true;
    }
    if (!FD->isThisDeclarationADefinition())
      return true;
    if (FD->isDefaulted() && !FD->isUserProvided())
      return true;
    if (!Done.insert(FD).second)
      return true;
    const Stmt *Body = FD->getBody();
    if (!Body)
      return true;
    std::string File = fileOf(Body->getBeginLoc());
    std::string QName = FD->getQualifiedNameAsString();
    if (!wanted(File, QName, Body->getBeginLoc()))
      return true;
    emitFunction(FD, File, QName);
    return true;
  }

  void emitFunction(const FunctionDecl *FD, const std::string &File,
                    const std::string &QName) {
    ++NFuncs;
    const Stmt *Body = FD->getBody();
    J.objectBegin();
    J.attribute("q", QName);
    J.attribute("n", FD->getDeclName().getAsString());
    J.attribute("file", File);
    J.attribute("line", SM.getExpansionLineNumber(Body->getBeginLoc()));
    J.attribute("endline", SM.getExpansionLineNumber(Body->getEndLoc()));
    J.attribute("declline", SM.getExpansionLineNumber(FD->getLocation()));
    const char *Kind = "fn";
    if (auto *MD = dyn_cast<CXXMethodDecl>(FD)) {
      Kind = "method";
      if (isa<CXXConstructorDecl>(MD))
        Kind = "ctor";
      else if (isa<CXXDestructorDecl>(MD))
        Kind = "dtor";
      else if (isa<CXXConversionDecl>(MD))
        Kind = "conv";
      const CXXRecordDecl *RD = MD->getParent();
      J.attribute("cls", typeStr(Ctx.getTypeDeclType(RD), Ctx));
      J.attribute("clsn", RD->getNameAsString());
      if (MD->isConst())
        J.attribute("const", true);
      if (MD->isStatic())
        J.attribute("static", true);
      if (MD->isVirtual())
        J.attribute("virtual", true);
      if (MD->isCopyAssignmentOperator())
        J.attribute("copyassign", true);
      if (auto *CD = dyn_cast<CXXConstructorDecl>(MD))
        if (CD->isCopyConstructor())
          J.attribute("copyctor", true);
      switch (MD->getAccess()) {
      case AS_public: J.attribute("access", "public"); break;
      case AS_protected: J.attribute("access", "protected"); break;
      case AS_private: J.attribute("access", "private"); break;
      default: break;
      }
    }
    J.attribute("kind", Kind);
    if (FD->isExternC())
      J.attribute("externC", true);
    if (FD->isDependentContext())
      J.attribute("pattern", true);
    if (FD->isTemplateInstantiation())
      J.attribute("inst", true);
    if (FD->getTemplateSpecializationKind() == TSK_ExplicitSpecialization)
      J.attribute("xspec", true);
    if (const auto *FT = FD->getType()->getAs<FunctionProtoType>())
      if (FT->hasNoexceptExceptionSpec() || FT->hasDynamicExceptionSpec())
        J.attribute("exspec", FT->canThrow() == CT_Cannot ? "nothrow" : "maythrow");
    if (const TemplateArgumentList *TA = FD->getTemplateSpecializationArgs()) {
      J.attributeBegin("targs");
      J.arrayBegin();
      PrintingPolicy PP(Ctx.getLangOpts());
      for (const TemplateArgument &A : TA->asArray()) {
        std::string Sx;
        llvm::raw_string_ostream OS(Sx);
        A.print(PP, OS, true);
        J.value(OS.str());
      }
      J.arrayEnd();
      J.attributeEnd();
    }
    J.attribute("ret", typeStr(FD->getReturnType(), Ctx));
    J.attributeBegin("params");
    J.arrayBegin();
    for (const ParmVarDecl *P : FD->parameters()) {
      J.objectBegin();
      J.attribute("n", P->getNameAsString());
      J.attribute("t", typeStr(P->getType(), Ctx));
      J.objectEnd();
    }
    J.arrayEnd();
    J.attributeEnd();

    Emitter Em(Ctx, J);
    Em.FoldConst = FD->isTemplateInstantiation() && !FD->isDependentContext();
    if (auto *CD = dyn_cast<CXXConstructorDecl>(FD)) {
      J.attributeBegin("inits");
      J.arrayBegin();
      for (const CXXCtorInitializer *I : CD->inits()) {
        if (!I->isWritten())
          continue;
        J.objectBegin();
        if (I->isAnyMemberInitializer())
          J.attribute("member", I->getAnyMember()->getNameAsString());
        else if (I->isBaseInitializer())
          J.attribute("base", typeStr(QualType(I->getBaseClass(), 0), Ctx));
        else if (I->isDelegatingInitializer())
          J.attribute("delegating", true);
        J.attributeBegin("e");
        Em.emit(I->getInit());
        J.attributeEnd();
        J.objectEnd();
      }
      J.arrayEnd();
      J.attributeEnd();
    }
    J.attributeBegin("ast");
    Em.emit(Body);
    J.attributeEnd();
    if (!Opt.noCfg)
      Em.emitCFG(FD);
    J.objectEnd();
  }

  void emitClasses() {
    for (const CXXRecordDecl *RD : Classes) {
      std::string QName = RD->getQualifiedNameAsString();
      if (ClassRe) {
        if (!ClassRe->match(QName))
          continue;
      } else if (NameRe)
        continue;   // function-filtered extraction: no class records unless asked for
      J.objectBegin();
      J.attribute("q", QName);
      J.attribute("n", RD->getNameAsString());
      J.attribute("file", fileOf(RD->getLocation()));
      J.attribute("line", SM.getExpansionLineNumber(RD->getLocation()));
      if (RD->isDependentContext())
        J.attribute("pattern", true);
      if (auto *SD = dyn_cast<ClassTemplateSpecializationDecl>(RD)) {
        J.attribute("spec", true);
        J.attribute("t", typeStr(Ctx.getRecordType(SD), Ctx));
      }
      J.attributeBegin("bases");
      J.arrayBegin();
      for (const CXXBaseSpecifier &B : RD->bases())
        J.value(typeStr(B.getType(), Ctx));
      J.arrayEnd();
      J.attributeEnd();
      J.attributeBegin("fields");
      J.arrayBegin();
      for (const FieldDecl *F : RD->fields()) {
        J.objectBegin();
        J.attribute("n", F->getNameAsString());
        J.attribute("t", typeStr(F->getType(), Ctx));
        if (F->isMutable())
          J.attribute("mutable", true);
        J.objectEnd();
      }
      J.arrayEnd();
      J.attributeEnd();
      J.attributeBegin("sfields");
      J.arrayBegin();
      for (const Decl *D : RD->decls())
        if (auto *VD = dyn_cast<VarDecl>(D))
          if (VD->isStaticDataMember())
            J.value(VD->getNameAsString());
      J.arrayEnd();
      J.attributeEnd();
      if (!RD->isDependentContext()) {
        J.attribute("user_copyctor", RD->hasUserDeclaredCopyConstructor());
        J.attribute("user_copyassign", RD->hasUserDeclaredCopyAssignment());
        J.attribute("user_dtor", RD->hasUserDeclaredDestructor());
      }
      J.attributeBegin("methods");
      J.arrayBegin();
      for (const Decl *D : RD->decls()) {
        const CXXMethodDecl *MD = dyn_cast<CXXMethodDecl>(D);
        if (!MD)
          if (auto *FT = dyn_cast<FunctionTemplateDecl>(D))
            MD = dyn_cast<CXXMethodDecl>(FT->getTemplatedDecl());
        if (!MD || MD->isImplicit())
          continue;
        J.objectBegin();
        J.attribute("n", MD->getDeclName().getAsString());
        J.attribute("line", SM.getExpansionLineNumber(MD->getLocation()));
        if (MD->isConst()) J.attribute("const", true);
        if (MD->isStatic()) J.attribute("static", true);
        if (MD->isDeleted()) J.attribute("deleted", true);
        if (MD->isDefaulted()) J.attribute("defaulted", true);
        if (MD->isCopyAssignmentOperator()) J.attribute("copyassign", true);
        if (auto *CD = dyn_cast<CXXConstructorDecl>(MD)) {
          J.attribute("ctor", true);
          if (CD->isCopyConstructor()) J.attribute("copyctor", true);
        }
        if (isa<CXXDestructorDecl>(MD)) J.attribute("dtor", true);
        switch (MD->getAccess()) {
        case AS_public: J.attribute("access", "public"); break;
        case AS_protected: J.attribute("access", "protected"); break;
        case AS_private: J.attribute("access", "private"); break;
        default: break;
        }
        std::string Sig;
        for (const ParmVarDecl *P : MD->parameters()) {
          if (!Sig.empty()) Sig += ", ";
          Sig += typeStr(P->getType(), Ctx);
        }
        J.attribute("sig", Sig);
        J.objectEnd();
      }
      J.arrayEnd();
      J.attributeEnd();
      J.attributeBegin("friends");
      J.arrayBegin();
      for (const FriendDecl *F : RD->friends()) {
        if (const NamedDecl *ND = F->getFriendDecl())
          J.value(ND->getQualifiedNameAsString());
        else if (TypeSourceInfo *TSI = F->getFriendType())
          J.value(typeStr(TSI->getType(), Ctx));
      }
      J.arrayEnd();
      J.attributeEnd();
      J.objectEnd();
    }
  }
};

class Consumer : public ASTConsumer {
public:
  void HandleTranslationUnit(ASTContext &Ctx) override {
    std::error_code EC;
    llvm::raw_fd_ostream OS(Opt.out, EC);
    if (EC) {
      llvm::errs() << "pplfacts: cannot write " << Opt.out << "\n";
      return;
    }
    json::OStream J(OS);
    J.objectBegin();
    const SourceManager &SM = Ctx.getSourceManager();
    if (const FileEntry *FE = SM.getFileEntryForID(SM.getMainFileID()))
      J.attribute("tu", FE->getName());
    Visitor V(Ctx, J);
    J.attributeBegin("functions");
    J.arrayBegin();
    V.TraverseDecl(Ctx.getTranslationUnitDecl());
    J.arrayEnd();
    J.attributeEnd();
    J.attributeBegin("classes");
    J.arrayBegin();
    V.emitClasses();
    J.arrayEnd();
    J.attributeEnd();
    J.attributeBegin("protos");
    J.arrayBegin();
    for (auto &P : V.Protos) {
      J.objectBegin();
      J.attribute("n", P.first);
      J.attribute("file", P.second.first);
      J.attribute("line", P.second.second);
      J.objectEnd();
    }
    J.arrayEnd();
    J.attributeEnd();
    J.attributeBegin("diags");
    J.arrayBegin();
    for (const DiagRec &D : Diags) {
      J.objectBegin();
      J.attribute("level", D.level);
      J.attribute("file", D.file);
      J.attribute("line", D.line);
      J.attribute("msg", D.msg);
      J.objectEnd();
    }
    J.arrayEnd();
    J.attributeEnd();
    J.attribute("nfuncs", V.NFuncs);
    J.objectEnd();
    OS << "\n";
  }
};

class Action : public ASTFrontendAction {
public:
  std::unique_ptr<ASTConsumer> CreateASTConsumer(CompilerInstance &CI,
                                                 StringRef) override {
    CI.getDiagnostics().setClient(new CollectDiags(), /*ShouldOwnClient=*/true);
    CI.getDiagnostics().setErrorLimit(0);
    return std::make_unique<Consumer>();
  }
};

class Factory : public tooling::FrontendActionFactory {
public:
  std::unique_ptr<FrontendAction> create() override {
    return std::make_unique<Action>();
  }
};

} // namespace

int main(int argc, const char **argv) {
  std::vector<std::string> Sources;
  std::vector<std::string> Flags;
  bool InFlags = false;
  for (int i = 1; i < argc; ++i) {
    std::string A = argv[i];
    if (InFlags) {
      Flags.push_back(A);
      continue;
    }
    if (A == "--") {
      InFlags = true;
    } else if (A == "--out" && i + 1 < argc) {
      Opt.out = argv[++i];
    } else if (A == "--root" && i + 1 < argc) {
      Opt.root = argv[++i];
    } else if (A == "--root2" && i + 1 < argc) {
      Opt.root2 = argv[++i];
    } else if (A == "--file-re" && i + 1 < argc) {
      Opt.fileRe = argv[++i];
    } else if (A == "--name-re" && i + 1 < argc) {
      Opt.nameRe = argv[++i];
    } else if (A == "--class-re" && i + 1 < argc) {
      Opt.classRe = argv[++i];
    } else if (A == "--main-only") {
      Opt.mainOnly = true;
    } else if (A == "--no-cfg") {
      Opt.noCfg = true;
    } else {
      Sources.push_back(A);
    }
  }
  if (Sources.size() != 1 || Opt.out.empty()) {
    llvm::errs() << "usage: pplfacts --out F.json [--root R] [--file-re RE] "
                    "[--name-re RE] [--main-only] [--no-cfg] SRC -- flags\n";
    return 2;
  }
  tooling::FixedCompilationDatabase DB(".", Flags);
  tooling::ClangTool Tool(DB, Sources);
  Factory F;
  int RC = Tool.run(&F);
  // Parse errors are recorded in the output ("diags"); the rule engines decide
  // which ones are tolerated.  A missing output file is a hard failure.
  (void)RC;
  return 0;
}
