// Compile-time witnesses (static_assert batch, compiled with -fsyntax-only against
// /repo's current headers).  One failing assertion = one violated encoding clause.
#include "ppl-config.h"
#include "version.hh"
#include "ppl_include_files.hh"
using namespace Parma_Polyhedra_Library;

#define W(id, cond) static_assert(cond, "WITNESS " #id ": " #cond)
#define U(x) static_cast<unsigned>(x)

// --- rounding directions -----------------------------------------------------
W(RD1, U(ROUND_DIRECT) == U(ROUND_UP));
W(RD2, U(ROUND_INVERSE) == U(ROUND_DOWN));
W(RD3, U(ROUND_DOWN) != U(ROUND_UP));
W(RD4, (ROUND_DIR_MASK & U(ROUND_STRICT_RELATION)) == 0);
W(RD5, (ROUND_UP & U(ROUND_DIR_MASK)) == U(ROUND_UP) && (ROUND_DOWN & U(ROUND_DIR_MASK)) == U(ROUND_DOWN));
W(RD6, (ROUND_IGNORE & U(ROUND_DIR_MASK)) == U(ROUND_IGNORE) && (ROUND_NOT_NEEDED & U(ROUND_DIR_MASK)) == U(ROUND_NOT_NEEDED));
W(RD7, U(ROUND_CHECK) == (ROUND_DIRECT | U(ROUND_STRICT_RELATION)));
W(RD8, U(ROUND_IGNORE) != U(ROUND_UP) && U(ROUND_IGNORE) != U(ROUND_DOWN) && U(ROUND_NOT_NEEDED) != U(ROUND_UP) && U(ROUND_NOT_NEEDED) != U(ROUND_DOWN) && U(ROUND_NOT_NEEDED) != U(ROUND_IGNORE));

// --- interval boundaries: the side determines the rounding direction -----------
W(BT1, static_cast<int>(LOWER) == static_cast<int>(ROUND_DOWN));
W(BT2, static_cast<int>(UPPER) == static_cast<int>(ROUND_UP));

// --- result relations ------------------------------------------------------------
W(RS1, U(V_LE) == (V_LT | U(V_EQ)));
W(RS2, U(V_GE) == (V_GT | U(V_EQ)));
W(RS3, U(V_NE) == (V_LT | U(V_GT)));
W(RS4, U(V_LGE) == (V_LT | U(V_EQ) | U(V_GT)));
W(RS5, (V_LT & U(V_GT)) == 0 && (V_LT & U(V_EQ)) == 0 && (V_GT & U(V_EQ)) == 0);
W(RS6, (V_OVERFLOW & U(V_LGE)) == 0);
W(RS7, U(V_EQ_MINUS_INFINITY) != U(V_EQ_PLUS_INFINITY));
W(RS8, (VR_MASK & U(VC_MASK)) == 0);

// --- policies ----------------------------------------------------------------------
W(PW1, WRD_Extended_Number_Policy::check_overflow);
W(PW2, WRD_Extended_Number_Policy::has_infinity);
W(PW3, WRD_Extended_Number_Policy::has_nan);
W(PW4, WRD_Extended_Number_Policy::check_fpu_inexact);
W(PE1, Extended_Number_Policy::check_overflow);
W(PE2, Extended_Number_Policy::has_infinity);
#ifdef PPL_CHECKED_INTEGERS
W(PB1, Bounded_Integer_Coefficient_Policy::check_overflow);
W(PB2, !Bounded_Integer_Coefficient_Policy::has_infinity);
W(PB3, !Bounded_Integer_Coefficient_Policy::has_nan);
W(PB4, !Bounded_Integer_Coefficient_Policy::check_inf_add_inf);
#endif

// --- the bound type of the weakly-relational domains is an extended checked number ---
template <typename A, typename B> struct Same { static const bool value = false; };
template <typename A> struct Same<A, A> { static const bool value = true; };
W(NT1, (Same<BD_Shape<double>::coefficient_type_base, double>::value));
W(NT2, (Same<BD_Shape<double>::coefficient_type, Checked_Number<double, WRD_Extended_Number_Policy> >::value));
W(NT3, (Same<Octagonal_Shape<double>::coefficient_type, Checked_Number<double, WRD_Extended_Number_Policy> >::value));
W(NT4, (Same<BD_Shape<int32_t>::coefficient_type, Checked_Number<int32_t, WRD_Extended_Number_Policy> >::value));
W(NT5, (Same<Octagonal_Shape<mpq_class>::coefficient_type, Checked_Number<mpq_class, WRD_Extended_Number_Policy> >::value));
