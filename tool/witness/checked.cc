// C11 compile-time witnesses: encodings of the special values of extended native integers,
// and policies of the checked coefficients.  -fsyntax-only; nothing is run.
#include "ppl-config.h"
#include "version.hh"
#include "ppl_include_files.hh"
using namespace Parma_Polyhedra_Library;

#define W(id, cond) static_assert(cond, "WITNESS " #id ": " #cond)

// Policies that differ in which special values they represent.
struct P_None { const_bool_nodef(has_infinity, false); const_bool_nodef(has_nan, false); };
struct P_Inf { const_bool_nodef(has_infinity, true); const_bool_nodef(has_nan, false); };
struct P_Nan { const_bool_nodef(has_infinity, false); const_bool_nodef(has_nan, true); };
struct P_Both { const_bool_nodef(has_infinity, true); const_bool_nodef(has_nan, true); };

// The special encodings lie outside the range [min, max] of ordinary values, are pairwise
// distinct, and the range of ordinary values is not empty and contains 0.
template <typename P, typename T>
struct EI {
  typedef Checked::Extended_Int<P, T> E;
  static const bool outside_inf
    = !P::has_infinity
      || ((E::plus_infinity > E::max || E::plus_infinity < E::min)
          && (E::minus_infinity > E::max || E::minus_infinity < E::min)
          && E::plus_infinity != E::minus_infinity);
  static const bool outside_nan
    = !P::has_nan
      || ((E::not_a_number > E::max || E::not_a_number < E::min)
          && (!P::has_infinity
              || (E::not_a_number != E::plus_infinity
                  && E::not_a_number != E::minus_infinity)));
  static const bool range = E::min <= 0 && E::max > 0 && E::min <= E::max;
  // No ordinary value is lost that is not needed for an encoding.
  static const bool tight
    = (C_Integer<T>::max - E::max) + (E::min - C_Integer<T>::min)
      == (P::has_infinity ? 2 : 0) + (P::has_nan ? 1 : 0);
  static const bool value = outside_inf && outside_nan && range && tight;
};

#define EI4(tag, T) \
  W(EI_##tag##_none, (EI<P_None, T>::value)); \
  W(EI_##tag##_inf, (EI<P_Inf, T>::value)); \
  W(EI_##tag##_nan, (EI<P_Nan, T>::value)); \
  W(EI_##tag##_both, (EI<P_Both, T>::value)); \
  W(EI_##tag##_wrd, (EI<WRD_Extended_Number_Policy, T>::value));

EI4(s8, signed char)
EI4(s16, signed short)
EI4(s32, signed int)
EI4(sl, signed long)
EI4(sll, signed long long)
EI4(u8, unsigned char)
EI4(u16, unsigned short)
EI4(u32, unsigned int)
EI4(ul, unsigned long)
EI4(ull, unsigned long long)

// Policies.
W(CP1, Check_Overflow_Policy<int>::check_overflow);
W(CP2, !Check_Overflow_Policy<int>::has_infinity && !Check_Overflow_Policy<int>::has_nan);
W(CP3, Extended_Number_Policy::check_overflow && Extended_Number_Policy::has_infinity);
W(CP4, WRD_Extended_Number_Policy::check_overflow && WRD_Extended_Number_Policy::has_infinity && WRD_Extended_Number_Policy::has_nan);
#ifdef PPL_CHECKED_INTEGERS
W(CB1, Bounded_Integer_Coefficient_Policy::check_overflow);
W(CB2, !Bounded_Integer_Coefficient_Policy::has_infinity && !Bounded_Integer_Coefficient_Policy::has_nan);
template <typename A, typename B> struct Same { static const bool value = false; };
template <typename A> struct Same<A, A> { static const bool value = true; };
template <typename C> struct Raw;
template <typename T, typename P> struct Raw<Checked_Number<T, P> > { typedef T type; typedef P policy; };
W(CB3, (Same<Raw<Coefficient>::policy, Bounded_Integer_Coefficient_Policy>::value));
W(CB4, (EI<Bounded_Integer_Coefficient_Policy, Raw<Coefficient>::type>::value));
W(CB5, (Checked::Extended_Int<Bounded_Integer_Coefficient_Policy, Raw<Coefficient>::type>::min == C_Integer<Raw<Coefficient>::type>::min));
#endif
