"""Flag-protocol typestate (A-AF in its flag form).

A class keeps a cached claim about a representation in a status flag
(`closed`, `reduced`, `generators up to date` ...).  Rule: no path through a
member function may leave the claim standing after the representation it talks
about has been written ("dirtied").

Per function and per flag X the engine explores CFG x boolean-locals x
(state of X, dirty bit):
  state  maybe  nothing known (function entry)
         no     flag known clear  (reset_X(), false edge of marked_X(), set_empty() ...)
         yes    flag known set    (true edge of marked_X())
         set    flag (re)claimed in this function by set_X()
  a write event with state != no  sets dirty;   reset / whole-object replacement
  clears dirty;  set_X() clears dirty (the claim is made afresh — whether the
  function is entitled to make it is a separate allowlist rule).
A function exit reached with dirty is a violation for the write that dirtied.

Same-object callees: a callee that is itself clean is transparent; a callee that
can exit dirty (typically a private writer such as forget_all_dbm_constraints)
makes its call sites write events in the caller, and its own violation is
passed to the callers when it is not public.
"""
from . import effects as E
from . import flow


class Protocol:
    def __init__(self, clsn, flags, written_fields, reset_calls, set_calls, test_calls,
                 whole_object=("operator=", "m_swap", "swap"), implies_clear=None,
                 status_field="status", preserving=None, sync_fields=None):
        """flags: names.  written_fields: {flag: set(field names whose write dirties flag)}
        reset_calls: {callee name: set(flags cleared)}; set_calls: {callee: flag};
        test_calls: {callee name: (flag, polarity)}  e.g. marked_empty -> ("*", False): true edge clears all."""
        self.clsn = clsn
        self.flags = flags
        self.written_fields = written_fields
        self.reset_calls = reset_calls
        self.set_calls = set_calls
        self.test_calls = test_calls
        self.whole_object = whole_object
        # implies_clear[F] = flags that are necessarily clear whenever F is clear
        self.implies_clear = implies_clear or {}
        self.status_field = status_field
        # preserving[(callee name)] = {flag: lemma}: writes made by this same-object
        # callee provably keep the claim `flag` true
        self.preserving = preserving or {}
        # sync_fields[flag] = fields whose write re-synchronises the claim `flag`
        # (the derived description is edited alongside the source description)
        self.sync_fields = sync_fields or {}


class Analysis:
    def __init__(self, fx, proto, pattern=False, lemmas=None):
        """lemmas: list of (function name, flag, regex on the write description, reason):
        write events whose preservation of the claim is justified by a stated lemma."""
        self.fx = fx
        self.p = proto
        self.lemmas = lemmas or []
        self.lemma_used = set()
        self.funcs = [f for f in fx.functions if f.clsn == proto.clsn and bool(f.flag("pattern")) == pattern]
        self.by_name = {}
        for f in self.funcs:
            self.by_name.setdefault(f.name, []).append(f)
        self.result = {}      # (id(f), flag) -> list of (write node, path)
        self._in_progress = set()

    # -- events ----------------------------------------------------------------
    def _this_call(self, f, n):
        """n is a member call whose receiver is *this (or an alias)."""
        if n["k"] != "mcall":
            return False
        obj = f.call_obj(n)
        return obj is not None and f.root(obj) == ("this",)

    def direct_writes(self, f, flag):
        out = {}
        fields = self.p.written_fields[flag]
        for n, r, how in E.writes(f):
            if r[0] == "this" and len(r) > 1 and r[1] in fields:
                # calls of the reset/set functions on `status` are not representation writes
                out[n["i"]] = (n, "%s %s" % (how, f.text(n)[:50]))
        return out

    def callee_writes(self, f, flag, depth):
        out = {}
        if depth <= 0:
            return out
        for n in f.calls():
            if not self._this_call(f, n):
                continue
            name = f.call_name(n)
            if name in self.p.reset_calls or name in self.p.set_calls or name in self.p.test_calls:
                continue
            if flag in self.p.preserving.get(name, {}):
                continue
            for g in self.by_name.get(name, []):
                if g is f or len(g.params) != len(f.call_args(n)):
                    continue
                if g.j.get("access") == "public" and g.kind != "ctor":
                    continue   # a public member answers for itself (its own instances)
                if self.dirty_exit(g, flag, depth - 1):
                    out[n["i"]] = (n, "call of writer %s" % g.name)
        return out

    def may_set(self, f, flag, depth=3, _stack=()):
        """f (or a same-object callee, transitively) may (re)establish the claim `flag`."""
        key = ("mayset", id(f), flag, depth)
        if key in self.result:
            return self.result[key]
        p = self.p
        out = False
        for n in f.calls():
            name = f.call_name(n)
            if n["k"] == "mcall":
                r = f.root(f.call_obj(n)) if f.call_obj(n) is not None else None
                if r in (("this",), ("this", p.status_field)):
                    if p.set_calls.get(name) == flag:
                        out = True
                        break
                    if r == ("this",) and name in p.whole_object:
                        out = True
                        break
                    if r == ("this",) and depth > 0 and name not in p.reset_calls and name not in p.test_calls:
                        for g in self.by_name.get(name, []):
                            if g is not f and id(g) not in _stack and self.may_set(g, flag, depth - 1, _stack + (id(f),)):
                                out = True
                                break
                        if out:
                            break
        if not out:
            for wn, r, how in E.writes(f):
                if r[:2] == ("this", p.status_field) and how in ("assign", "call:operator=", "arg:swap"):
                    out = True
                    break
                if r == ("this",) and how in ("arg:swap", "call:operator=", "assign"):
                    out = True
                    break
        self.result[key] = out
        return out

    def lemma_for(self, f, flag, desc):
        import re
        for i, (fn, fl, rx, why) in enumerate(self.lemmas):
            if fn == f.name and fl == flag and re.search(rx, desc):
                self.lemma_used.add(i)
                return why
        return None

    # -- per function ----------------------------------------------------------
    def dirty_exit(self, f, flag, depth=3):
        """f can return with the claim standing after an unjustified write."""
        return any(path is not None and lemma is None for _, _, path, lemma in self.analyse(f, flag, depth))

    def analyse(self, f, flag, depth=3):
        key = (id(f), flag)
        if key in self.result:
            return self.result[key]
        if key in self._in_progress or not f.cfg:
            return []
        self._in_progress.add(key)
        events = dict(self.direct_writes(f, flag))
        events.update(self.callee_writes(f, flag, depth))
        res = []
        for nid, (wn, desc) in sorted(events.items()):
            path = self._explore(f, flag, nid)
            lemma = self.lemma_for(f, flag, desc) if path is not None else None
            res.append((wn, desc, path, lemma))
        self._in_progress.discard(key)
        self.result[key] = res
        return res

    def _explore(self, f, flag, write_id):
        p = self.p
        SKEY = ("ts", flag)
        DKEY = ("dirty", flag)

        status_writes = set()
        for wn, r, how in E.writes(f):
            if r[:2] == ("this", p.status_field) and not how.startswith("call:set") and not how.startswith("call:reset"):
                if how in ("assign", "call:operator=", "arg:swap", "call:m_swap", "call:swap", "call:ascii_load"):
                    status_writes.add(wn["i"])

        sync_ids = set()
        for wn, r, how in E.writes(f):
            if r[0] == "this" and len(r) > 1 and r[1] in p.sync_fields.get(flag, ()):
                sync_ids.add(wn["i"])

        def clear_set(fl):
            return fl == flag or flag in p.implies_clear.get(fl, ()) or fl == "*"

        def elem_effect(n, env):
            k = n["k"]
            if n.get("_init_of") == p.status_field:
                env = dict(env)
                env[SKEY] = "maybe" if n.get("c") else "no"
                env[DKEY] = False
                return env
            if n["i"] in status_writes:
                env = dict(env)
                env[SKEY] = "maybe"
                env[DKEY] = False
                return env
            if n["i"] in sync_ids and n["i"] != write_id:
                env = dict(env)
                env[DKEY] = False
            if n["i"] == write_id:
                if env.get(SKEY, "maybe") != "no":
                    env = dict(env)
                    env[DKEY] = True
            if k in ("mcall", "call", "ocall"):
                name = f.call_name(n)
                if k == "mcall" and self._this_call(f, n) or (k == "mcall" and f.root(f.call_obj(n))[:2] == ("this", "status")):
                    if name in p.reset_calls and any(clear_set(x) for x in p.reset_calls[name]):
                        env = dict(env)
                        env[SKEY] = "no"
                        env[DKEY] = False
                    elif p.set_calls.get(name) == flag:
                        env = dict(env)
                        env[SKEY] = "set"
                        env[DKEY] = False
                    elif name in p.whole_object and k == "mcall" and self._this_call(f, n):
                        env = dict(env)
                        env[SKEY] = "maybe"
                        env[DKEY] = False
                    elif k == "mcall" and self._this_call(f, n) and name not in p.test_calls:
                        # a clean same-object callee may (legitimately) re-establish the claim
                        if env.get(SKEY) == "no" and n["i"] != write_id and \
                                any(self.may_set(g, flag) for g in self.by_name.get(name, [])):
                            env = dict(env)
                            env[SKEY] = "maybe"
                elif k in ("call", "ocall") and name in ("swap", "operator=") :
                    args = [f.deref(c) for c in n.get("c", ())]
                    if args and f.root(args[0]) == ("this",):
                        env = dict(env)
                        env[SKEY] = "maybe"
                        env[DKEY] = False
            return env

        def edge_effect(cond, taken, env):
            c = f.deref(cond)
            pol = True
            while c is not None and c["k"] == "unop" and c.get("op") == "!":
                pol = not pol
                c = f.deref(c["c"][0])
            if c is None or c["k"] != "mcall":
                return env
            obj = f.call_obj(c)
            if obj is None or f.root(obj) not in (("this",), ("this", "status")):
                return env
            t = p.test_calls.get(f.call_name(c))
            if t is None:
                return env
            tflag, clears_when = t
            if tflag != flag and tflag != "*":
                # a flag whose absence implies ours is absent
                if flag in p.implies_clear.get(tflag, ()):
                    truth = taken if pol else (not taken)
                    if not truth:
                        env = dict(env)
                        env[SKEY] = "no"
                        env[DKEY] = False
                return env
            truth = taken if pol else (not taken)
            env = dict(env)
            if tflag == "*":
                # e.g. marked_empty(): when true every claim bit is clear
                if truth == clears_when:
                    env[SKEY] = "no"
                    env[DKEY] = False
            else:
                # marked_X(): true => flag set, false => flag clear
                if truth:
                    env[SKEY] = "yes"
                else:
                    env[SKEY] = "no"
                    env[DKEY] = False
            return env

        ex = flow.Explorer(f, elem_effect=elem_effect, edge_effect=edge_effect)
        start_env = {SKEY: "no"} if f.kind == "ctor" else {}
        return ex.find_path("ENTRY", lambda n: False, "EXIT", start_env=start_env,
                            exit_ok=lambda env: not env.get(DKEY, False))
