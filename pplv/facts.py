"""Fact extraction orchestration and AST/CFG access for the rule engines.

Nothing in here executes PPL code: `pplfacts` (libTooling) parses /repo's
current sources and writes JSON; this module runs it per translation unit in
parallel, caches by content hash of every input, and wraps the records.
"""
import concurrent.futures
import hashlib
import json
import os
import re
import shutil
import subprocess
import sys
import tempfile

VERIF = os.path.dirname(os.path.dirname(os.path.abspath(__file__)))
REPO = os.environ.get("PPL_REPO", "/repo")
TOOL = os.path.join(VERIF, "build", "pplfacts")
CACHE = os.path.join(VERIF, "build", "cache")
NS = "Parma_Polyhedra_Library::"


class AnalysisBroken(Exception):
    """The analysis itself cannot give a verdict (exit 2)."""


def _resource_dir():
    out = subprocess.run(["clang++", "-print-resource-dir"], capture_output=True, text=True)
    return out.stdout.strip()


_RES = None


def resource_dir():
    global _RES
    if _RES is None:
        _RES = _resource_dir()
    return _RES


_TREE_HASH = {}


def tree_hash(repo=None):
    """Hash of every source the analysis can read (src/, interfaces/C, config)."""
    repo = repo or REPO
    if repo in _TREE_HASH:
        return _TREE_HASH[repo]
    h = hashlib.sha256()
    paths = []
    for d in ("src", "interfaces/C", "interfaces", "Watchdog"):
        full = os.path.join(repo, d)
        if not os.path.isdir(full):
            continue
        for fn in sorted(os.listdir(full)):
            if fn.endswith((".cc", ".hh", ".h", ".m4", ".am")):
                paths.append(os.path.join(full, fn))
    for fn in ("config.h", "ppl-config.h"):
        paths.append(os.path.join(repo, fn))
    for p in paths:
        try:
            with open(p, "rb") as f:
                h.update(p[len(repo):].encode())
                h.update(hashlib.sha256(f.read()).digest())
        except OSError:
            pass
    for d in ("drivers", "tool"):
        full = os.path.join(VERIF, d)
        if os.path.isdir(full):
            for fn in sorted(os.listdir(full)):
                p = os.path.join(full, fn)
                if os.path.isfile(p):
                    with open(p, "rb") as f:
                        h.update(fn.encode())
                        h.update(hashlib.sha256(f.read()).digest())
    _TREE_HASH[repo] = h.hexdigest()
    return _TREE_HASH[repo]


_SHIMS = {}


def shim_dir(view, repo=None):
    """Directory with view-specific config.h / ppl-config.h (placed first on -I)."""
    repo = repo or REPO
    if view == "release":
        return None
    key = (view, repo)
    if key in _SHIMS:
        return _SHIMS[key]
    d = tempfile.mkdtemp(prefix="pplv-shim-")
    import atexit
    atexit.register(shutil.rmtree, d, True)
    for fn in ("config.h", "ppl-config.h"):
        s = open(os.path.join(repo, fn)).read()
        if view == "debug":
            s2 = re.sub(r"#define (PPL_NDEBUG) 1", r"/* #undef \1 */", s)
            if s2 == s:
                raise AnalysisBroken("debug view: PPL_NDEBUG define not found in " + fn)
            s = s2
        elif view.startswith("bounded"):
            bits = view[len("bounded"):]
            s = re.sub(r"/\* #undef (PPL_CHECKED_INTEGERS) \*/", r"#define \1 1", s)
            s = re.sub(r"#define PPL_COEFFICIENT_BITS 0", "#define PPL_COEFFICIENT_BITS " + bits, s)
            s = re.sub(r"#define PPL_COEFFICIENT_TYPE mpz_class",
                       "#define PPL_COEFFICIENT_TYPE Checked_Number<int%s_t, Bounded_Integer_Coefficient_Policy>" % bits, s)
            s = re.sub(r"#define PPL_GMP_INTEGERS 1", "/* #undef PPL_GMP_INTEGERS */", s)
        else:
            raise AnalysisBroken("unknown view " + view)
        open(os.path.join(d, fn), "w").write(s)
    _SHIMS[key] = d
    return d


def base_flags(view="release", repo=None, extra=()):
    repo = repo or REPO
    fl = ["-std=gnu++17", "-DHAVE_CONFIG_H", "-w"]
    sd = shim_dir(view, repo)
    if sd:
        fl += ["-I" + sd]
    fl += list(extra)
    fl += ["-I" + repo, "-I" + os.path.join(repo, "src")]
    fl += ["-resource-dir", resource_dir()]
    return fl


class Unit:
    """One extraction job: a source file plus filters."""

    def __init__(self, src, main_only=False, file_re=None, name_re=None,
                 view="release", extra=(), no_cfg=False, repo=None, class_re=None):
        self.src = src
        self.main_only = main_only
        self.file_re = file_re
        self.name_re = name_re
        self.view = view
        self.extra = tuple(extra)
        self.no_cfg = no_cfg
        self.repo = repo or REPO
        self.root2 = None
        self.cache_id = None
        self.class_re = class_re

    def key(self):
        h = hashlib.sha256()
        if self.cache_id:
            h.update(repr((self.cache_id, self.main_only, self.file_re, self.name_re,
                           self.view, self.no_cfg, self.repo)).encode())
        else:
            h.update(repr((self.src, self.main_only, self.file_re, self.name_re,
                           self.view, self.extra, self.no_cfg, self.repo)).encode())
        h.update(repr(self.class_re).encode())
        h.update(tree_hash(self.repo).encode())
        try:
            h.update(str(os.path.getmtime(TOOL)).encode())
            with open(self.src, "rb") as f:
                h.update(f.read())
        except OSError:
            pass
        return h.hexdigest()[:32]

    def label(self):
        s = os.path.basename(self.src)
        if self.view != "release":
            s += "@" + self.view
        return s


def lib_unit(name, **kw):
    """src/<name>.cc of the library, functions of the main file only."""
    repo = kw.get("repo") or REPO
    return Unit(os.path.join(repo, "src", name), main_only=True, **kw)


def driver_unit(name, **kw):
    return Unit(os.path.join(VERIF, "drivers", name), **kw)


def library_sources(repo=None):
    """The .cc files of libppl_la_SOURCES, read from src/Makefile.am now."""
    repo = repo or REPO
    txt = open(os.path.join(repo, "src", "Makefile.am")).read()
    m = re.search(r"libppl_la_SOURCES\s*=\s*\\\n(.*?)\n\n", txt, re.S)
    if not m:
        raise AnalysisBroken("libppl_la_SOURCES not found in src/Makefile.am")
    names = [w for w in re.split(r"[\s\\]+", m.group(1)) if w.endswith(".cc")]
    names = [n for n in names if os.path.exists(os.path.join(repo, "src", n))]
    if len(names) < 60:
        raise AnalysisBroken("only %d library sources found" % len(names))
    return names


_PRUNED = False


def prune_cache(limit_mb=350):
    """Keep the facts cache bounded: drop oldest files beyond the size limit."""
    global _PRUNED
    if _PRUNED or not os.path.isdir(CACHE):
        return
    _PRUNED = True
    try:
        ents = []
        for fn in os.listdir(CACHE):
            p = os.path.join(CACHE, fn)
            st = os.stat(p)
            ents.append((st.st_mtime, st.st_size, p))
        ents.sort(reverse=True)
        tot = 0
        for mt, sz, p in ents:
            tot += sz
            if tot > limit_mb * 1024 * 1024:
                os.remove(p)
    except OSError:
        pass


def _run_unit(u):
    if u.repo not in ("/repo",):
        # scratch copies (self-tests): keep their facts inside the scratch tree
        cdir = os.path.join(u.repo, ".pplv-cache")
    else:
        cdir = CACHE
        prune_cache()
    os.makedirs(cdir, exist_ok=True)
    out = os.path.join(cdir, u.key() + ".json")
    if os.path.exists(out):
        return out
    if not os.path.exists(TOOL):
        raise AnalysisBroken("pplfacts not built: run `make -C /verif/tool`")
    tmp = out + ".tmp%d" % os.getpid()
    cmd = [TOOL, "--out", tmp, "--root", u.repo]
    if u.root2:
        cmd += ["--root2", u.root2]
    if u.main_only:
        cmd.append("--main-only")
    if u.file_re:
        cmd += ["--file-re", u.file_re]
    if u.name_re:
        cmd += ["--name-re", u.name_re]
    if u.no_cfg:
        cmd.append("--no-cfg")
    if u.class_re:
        cmd += ["--class-re", u.class_re]
    cmd.append(u.src)
    cmd.append("--")
    cmd += base_flags(u.view, u.repo, u.extra)
    r = subprocess.run(cmd, capture_output=True, text=True)
    if not os.path.exists(tmp):
        raise AnalysisBroken("pplfacts produced no output for %s: %s" % (u.src, r.stderr[-2000:]))
    os.replace(tmp, out)
    return out


# Whole-class explicit instantiation also instantiates members that the library deliberately
# restricts to some argument types; exactly these diagnostics are tolerated (and counted):
#  - Compile_Time_Check<false>: members restricted to integer / floating T
#  - Interval::refine_existential on a Rational_Interval argument of another kind: a Box member
#    never instantiated by the library for this ITV
TOLERATED_DIAG = re.compile(r"Compile_Time_Check<false>|static_assert.*Compile_Time_Check|"
                            r"implicit instantiation of undefined template 'Parma_Polyhedra_Library::Compile_Time_Check<false>'|"
                            r"no matching member function for call to 'refine_existential'")


class Facts:
    """Functions and classes of a set of units, de-duplicated."""

    def __init__(self):
        self.functions = []
        self.classes = {}
        self.units = []
        self.tolerated = 0
        self._seen = set()
        self._by_q = {}
        self.protos = {}

    def add_file(self, unit, path, tolerate=None):
        with open(path) as f:
            d = json.load(f)
        bad = []
        for g in d.get("diags", []):
            if TOLERATED_DIAG.search(g["msg"]) or (tolerate and tolerate.search(g["msg"])):
                self.tolerated += 1
            else:
                bad.append(g)
        if bad:
            g = bad[0]
            raise AnalysisBroken("parse error in %s: %s:%s: %s (+%d more)" % (
                unit.label(), g["file"], g["line"], g["msg"], len(bad) - 1))
        self.units.append(unit.label())
        for fj in d["functions"]:
            key = (fj["q"], fj["file"], fj["line"], tuple(p["t"] for p in fj["params"]),
                   tuple(fj.get("targs", ())), fj.get("const", False))
            if key in self._seen:
                continue
            self._seen.add(key)
            fn = Func(fj)
            self.functions.append(fn)
            self._by_q.setdefault(fn.q, []).append(fn)
        for pr in d.get("protos", []):
            self.protos.setdefault(pr["n"], (pr["file"], pr["line"]))
        for c in d["classes"]:
            k = (c["q"], c.get("t", ""))
            if k not in self.classes:
                self.classes[k] = c

    def by_name(self, q):
        """Functions whose qualified name (without the library namespace) is q."""
        return self._by_q.get(q, []) + self._by_q.get(NS + q, [])

    def in_class(self, clsn, pattern=None):
        out = []
        for f in self.functions:
            if f.clsn == clsn and (pattern is None or bool(f.j.get("pattern")) == pattern):
                out.append(f)
        return out

    def cls(self, name):
        out = []
        for (q, t), c in self.classes.items():
            if c["n"] == name or q == name or q == NS + name:
                out.append(c)
        return out


def extract(units, jobs=None, tolerate=None):
    jobs = jobs or int(os.environ.get("VERIF_JOBS", "16"))
    facts = Facts()
    with concurrent.futures.ThreadPoolExecutor(max_workers=jobs) as ex:
        paths = list(ex.map(_run_unit, units))
    for u, p in zip(units, paths):
        facts.add_file(u, p, tolerate)
    return facts


# ---------------------------------------------------------------------------
# AST access

# free functions that return an alias of their first argument (typed handle conversions)
ALIAS_CALLS = {"to_const", "to_nonconst"}

WRITE_ASSIGN_OPS = {"=", "+=", "-=", "*=", "/=", "%=", "<<=", ">>=", "&=", "|=", "^="}


class Func:
    def __init__(self, j):
        self.j = j
        self.q = j["q"]
        self.name = j["n"]
        self.file = j["file"]
        self.line = j["line"]
        self.cls = j.get("cls")
        self.clsn = j.get("clsn")
        self.kind = j["kind"]
        self.params = j["params"]
        self.nodes = {}
        self.parent = {}
        self._vars = {}
        self.roots = []
        for it in j.get("inits", []):
            e = it.get("e")
            if e:
                e["_init_of"] = it.get("member") or it.get("base") or "delegating"
                self._index(e, None)
                self.roots.append(e)
        self.ast = j["ast"]
        self._index(self.ast, None)
        self.roots.append(self.ast)
        self.cfg = j.get("cfg")
        self._blocks = None
        self._pos = None

    # -- identity -----------------------------------------------------------
    @property
    def short(self):
        q = self.q
        if q.startswith(NS):
            q = q[len(NS):]
        return q

    @property
    def relfile(self):
        f = self.file
        for pre in (REPO + "/", self.j.get("_repo", REPO) + "/"):
            if f.startswith(pre):
                return f[len(pre):]
        return f

    def where(self, node=None):
        ln = self.line if node is None else (node.get("l") or self.line)
        return "%s:%d" % (self.relfile, ln)

    def sig(self):
        return "%s(%s)%s" % (self.short, ", ".join(p["t"] for p in self.params),
                             " const" if self.j.get("const") else "")

    def flag(self, k):
        return bool(self.j.get(k))

    # -- tree -----------------------------------------------------------------
    def _index(self, n, parent):
        stack = [(n, parent)]
        while stack:
            n, parent = stack.pop()
            if n is None:
                continue
            if n.get("k") == "shared":
                continue
            i = n.get("i")
            if i is not None:
                self.nodes[i] = n
                self.parent[i] = parent
            if n.get("k") == "var":
                self._vars.setdefault(n["n"], []).append(n)
            for c in n.get("c", ()):
                if c is not None:
                    stack.append((c, n))

    def walk(self, n=None):
        """Pre-order walk of all nodes (of the whole function if n is None)."""
        starts = self.roots if n is None else [n]
        for s in starts:
            stack = [s]
            while stack:
                x = stack.pop()
                if x is None or x.get("k") == "shared":
                    continue
                yield x
                cs = x.get("c", ())
                for c in reversed(cs):
                    if c is not None:
                        stack.append(c)

    def kids(self, n):
        return [c for c in n.get("c", ())]

    def ancestors(self, n):
        p = self.parent.get(n["i"])
        while p is not None:
            yield p
            p = self.parent.get(p["i"])

    def within(self, n, anc):
        if n is anc:
            return True
        for a in self.ancestors(n):
            if a is anc:
                return True
        return False

    def deref(self, n):
        if n is not None and n.get("k") == "shared":
            return self.nodes.get(n["to"])
        return n

    def var_decl(self, name, line=None):
        vs = self._vars.get(name)
        if not vs:
            return None
        if line is None or len(vs) == 1:
            return vs[-1] if line is None else vs[0]
        best = None
        for v in vs:
            if v["l"] <= line and (best is None or v["l"] >= best["l"]):
                best = v
        return best or vs[0]

    # -- calls ----------------------------------------------------------------
    def calls(self, n=None):
        for x in self.walk(n):
            if x["k"] in ("call", "mcall", "ocall", "construct", "icall"):
                yield x

    def call_name(self, n):
        return n.get("cn") or n.get("callee") or ""

    def call_obj(self, n):
        """Receiver expression of a member call (None for free calls)."""
        if n["k"] == "mcall":
            c = n.get("c", ())
            return self.deref(c[0]) if c else None
        if n["k"] == "ocall" and n.get("member"):
            c = n.get("c", ())
            return self.deref(c[0]) if c else None
        return None

    def call_args(self, n):
        c = [self.deref(x) for x in n.get("c", ())]
        if n["k"] == "mcall":
            return c[1:]
        if n["k"] == "ocall" and n.get("member"):
            return c[1:]
        if n["k"] == "icall":
            return c[1:]
        return c

    # -- expression roots (alias tracking) ------------------------------------
    def root(self, n, depth=0):
        """Storage root of an lvalue-ish expression as a tuple path.

        ('this',) | ('this', field, ...) | ('param', name, field...) |
        ('local', name, ...) | ('global', qn) | ('temp',) | ('unknown',)
        References / pointers / iterators initialised from another object
        alias that object's root.
        """
        n = self.deref(n)
        if n is None or depth > 12:
            return ("unknown",)
        k = n["k"]
        if k == "this":
            return ("this",)
        if k == "member":
            c = n.get("c", ())
            base = self.root(c[0], depth + 1) if c and c[0] is not None else ("this",)
            if n.get("dk") in ("sfield",):
                return ("global", n.get("qn", n.get("n")))
            return base + (n.get("n"),)
        if k == "ref":
            dk = n.get("dk")
            if dk == "param":
                return ("param", n["n"])
            if dk in ("local", "slocal"):
                v = self.var_decl(n["n"], n.get("l"))
                t = (v or {}).get("t", n.get("t", ""))
                if v is not None and _is_alias_type(t):
                    init = v.get("c", ())
                    if init and init[0] is not None:
                        r = self.root(init[0], depth + 1)
                        if r[0] not in ("temp", "unknown"):
                            return r
                return ("local", n["n"])
            if dk in ("global", "sfield"):
                return ("global", n.get("qn", n["n"]))
            if dk == "field":
                return ("this", n["n"])
            return ("unknown",)
        if k in ("unop",):
            if n.get("op") in ("*", "&", "++", "--"):
                return self.root(n["c"][0], depth + 1)
            return ("temp",)
        if k == "cast":
            return self.root(n["c"][0], depth + 1) if n.get("c") else ("unknown",)
        if k == "index":
            return self.root(n["c"][0], depth + 1)
        if k == "ocall":
            op = n.get("op")
            c = n.get("c", ())
            if op in ("[]", "*", "->", "++", "--", "=", "+=", "-=", "()") and c:
                return self.root(c[0], depth + 1)
            if op in ("+", "-") and c and (_is_alias_type(n.get("t", "")) or "iterator" in n.get("ccls", "")):
                # iterator arithmetic: the result still points into the same container
                return self.root(c[0], depth + 1)
            return ("temp",)
        if k == "mcall":
            rt = n.get("rt", "")
            c = n.get("c", ())
            if c and c[0] is not None and (_is_alias_type(rt) or n.get("dep")):
                return self.root(c[0], depth + 1)
            return ("temp",)
        if k == "call":
            if n.get("cn") in ALIAS_CALLS and n.get("c"):
                return self.root(n["c"][0], depth + 1)
            return ("temp",)
        if k == "cond":
            c = n.get("c", ())
            if len(c) == 3:
                a = self.root(c[1], depth + 1)
                b = self.root(c[2], depth + 1)
                if a == b:
                    return a
            return ("unknown",)
        if k == "assign":
            return self.root(n["c"][0], depth + 1)
        if k == "construct":
            # copy of a proxy/iterator object keeps designating the same storage
            c = n.get("c", ())
            if len(c) == 1 and _is_alias_type(n.get("t", "")):
                return self.root(c[0], depth + 1)
            return ("temp",)
        if k in ("new", "int", "bool", "str", "char", "float", "null", "binop"):
            return ("temp",)
        return ("unknown",)

    # -- CFG --------------------------------------------------------------------
    @property
    def blocks(self):
        if self._blocks is None:
            self._blocks = {}
            if self.cfg:
                for b in self.cfg["b"]:
                    self._blocks[b["id"]] = b
        return self._blocks

    def block_of(self, node_id):
        """(block id, position) of an AST node in the CFG (None if absent)."""
        if self._pos is None:
            self._pos = {}
            for b in (self.cfg or {}).get("b", ()):
                for k, e in enumerate(b["e"]):
                    self._pos.setdefault(e, (b["id"], k))
        return self._pos.get(node_id)

    def cfg_pos(self, n):
        """CFG position of node n, or of its nearest ancestor / descendant that has one."""
        p = self.block_of(n["i"])
        if p:
            return p
        for x in self.walk(n):
            p = self.block_of(x["i"])
            if p:
                return p
        for a in self.ancestors(n):
            p = self.block_of(a["i"])
            if p:
                return p
        return None

    def succs(self, bid):
        return [s for s in self.blocks[bid]["s"] if s is not None]

    # -- rendering ----------------------------------------------------------------
    def text(self, n, depth=0):
        n = self.deref(n)
        if n is None:
            return ""
        if depth > 6:
            return "..."
        k = n["k"]
        t = lambda x: self.text(x, depth + 1)
        c = n.get("c", ())
        if k == "this":
            return "this"
        if k == "ref":
            return n.get("n", "?")
        if k == "member":
            b = c[0] if c else None
            bd = self.deref(b)
            if bd is None or (bd.get("k") == "this" and bd.get("implicit")):
                return n.get("n", "?")
            return t(b) + ("->" if n.get("arrow") else ".") + n.get("n", "?")
        if k in ("int", "bool", "str", "char"):
            return repr(n.get("v")) if k == "str" else str(n.get("v")).lower() if k == "bool" else str(n.get("v"))
        if k == "null":
            return "nullptr"
        if k == "mcall":
            o = self.deref(c[0]) if c else None
            args = ", ".join(t(a) for a in c[1:])
            if o is None or (o.get("k") == "this" and o.get("implicit")):
                return "%s(%s)" % (self.call_name(n), args)
            return "%s%s%s(%s)" % (t(o), "->" if n.get("arrow") else ".", self.call_name(n), args)
        if k == "ocall":
            op = n.get("op")
            if op == "[]" and len(c) == 2:
                return "%s[%s]" % (t(c[0]), t(c[1]))
            if op == "()" and c:
                return "%s(%s)" % (t(c[0]), ", ".join(t(a) for a in c[1:]))
            if len(c) == 2:
                return "%s %s %s" % (t(c[0]), op, t(c[1]))
            if len(c) == 1:
                return "%s%s" % (op, t(c[0]))
            return "operator%s(...)" % op
        if k in ("call", "icall"):
            return "%s(%s)" % (self.call_name(n) or "<fn>", ", ".join(t(a) for a in self.call_args(n)))
        if k == "construct":
            return "%s(%s)" % (n.get("t", "T"), ", ".join(t(a) for a in c))
        if k == "unop":
            if n.get("post"):
                return t(c[0]) + n["op"]
            return n["op"] + t(c[0])
        if k in ("binop", "assign"):
            return "%s %s %s" % (t(c[0]), n["op"], t(c[1]))
        if k == "cond":
            return "%s ? %s : %s" % (t(c[0]), t(c[1]), t(c[2]))
        if k == "cast":
            return "%s<%s>(%s)" % (n.get("ck"), n.get("t"), t(c[0]) if c else "")
        if k == "new":
            return "new " + n.get("t", "")
        if k == "delete":
            return "delete " + (t(c[0]) if c else "")
        if k == "throw":
            return "throw " + (n.get("t") or "")
        if k == "return":
            return "return " + (t(c[0]) if c else "")
        if k == "index":
            return "%s[%s]" % (t(c[0]), t(c[1]))
        if k == "var":
            return "%s %s" % (n.get("t"), n.get("n"))
        return "<%s>" % k


def _is_alias_type(t):
    t = t.strip()
    if t.endswith("&") or t.endswith("*") or t.endswith("* const"):
        return True
    if "iterator" in t or "Iterator" in t:
        return True
    if "reference" in t or "Pseudo_Row" in t:
        # proxy/reference classes (OR_Matrix row_reference_type, ...)
        return True
    return False


def strip_ns(s):
    return s.replace(NS, "")
