"""A-WIT: compile-time witnesses.  A batched TU of static_asserts is type-checked
(-fsyntax-only, nothing is run) against /repo's current headers in a given view."""
import os
import re
import subprocess

from . import facts as F


def run(src, view="release", repo=None):
    """Returns (ids declared in this view, {failed id: message}); raises AnalysisBroken on other errors."""
    repo = repo or F.REPO
    path = os.path.join(F.VERIF, "tool", "witness", src)
    cmd = ["clang++", "-fsyntax-only", "-ferror-limit=0"] + F.base_flags(view, repo) + [path]
    r = subprocess.run(cmd, capture_output=True, text=True)
    # which witnesses are active in this view: preprocess and count
    pp = subprocess.run(["clang++", "-E", "-P"] + F.base_flags(view, repo) + [path], capture_output=True, text=True)
    ids = re.findall(r'"WITNESS "\s*"(\w+)"', pp.stdout) or re.findall(r'WITNESS (\w+):', pp.stdout)
    failed = {}
    other = []
    for line in r.stderr.splitlines():
        if "error:" not in line:
            continue
        m = re.search(r"WITNESS (\w+): (.*?)\"?$", line)
        if m and "static_assert" in line or (m and "static assertion" in line):
            failed[m.group(1)] = m.group(2).strip().rstrip('"')
        elif m:
            failed[m.group(1)] = m.group(2)
        else:
            other.append(line.strip())
    if other:
        raise F.AnalysisBroken("witness TU %s does not type-check in view %s: %s" % (src, view, other[0][:300]))
    return ids, failed
