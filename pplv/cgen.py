"""Regenerates the C-interface wrappers from /repo's current m4 templates into a
scratch directory (the rules of interfaces/C/Makefile.am), so that an edit to a
template is analysed rather than the stale generated .cc of the build tree."""
import atexit
import glob
import os
import shutil
import subprocess
import tempfile

from . import facts as F

_GEN = {}


def regenerate(repo=None):
    repo = repo or F.REPO
    if repo in _GEN:
        return _GEN[repo]
    idir = os.path.join(repo, "interfaces")
    cdir = os.path.join(idir, "C")
    inst = os.path.join(idir, "ppl_interface_instantiations.m4")
    if not os.path.exists(inst):
        # configure product; a scratch copy may lack it: take the configured one
        inst0 = os.path.join(F.REPO, "interfaces", "ppl_interface_instantiations.m4")
        if not os.path.exists(inst0):
            inst0 = "/repo/interfaces/ppl_interface_instantiations.m4"
        if not os.path.exists(inst0):
            raise F.AnalysisBroken("interfaces/ppl_interface_instantiations.m4 missing (configure product)")
    d = tempfile.mkdtemp(prefix="pplv-cgen-")
    atexit.register(shutil.rmtree, d, True)
    if not os.path.exists(inst):
        shutil.copy2(inst0, os.path.join(d, "ppl_interface_instantiations.m4"))
    inc = ["-I" + d, "-I" + idir, "-I" + cdir]
    utils = os.path.join(repo, "utils")
    if not os.path.exists(os.path.join(utils, "cm_cleaner.sh")):
        utils = "/repo/utils"

    def m4(src, out):
        r = subprocess.run(["m4", "--prefix-builtin"] + inc + [os.path.join(cdir, src)],
                           capture_output=True, text=True, cwd=d)
        if r.returncode != 0:
            raise F.AnalysisBroken("m4 failed on %s: %s" % (src, r.stderr[-500:]))
        open(os.path.join(d, out), "w").write(r.stdout)

    m4("ppl_interface_generator_c_h.m4", "ppl_c_domains.h")
    for src, blob in (("ppl_interface_generator_c_cc_files.m4", "ppl_c_cc_blob"),
                      ("ppl_interface_generator_c_hh_files.m4", "ppl_c_hh_blob")):
        m4(src, blob)
        for sh in ("cm_cleaner.sh", "cm_splitter.sh"):
            r = subprocess.run(["sh", os.path.join(utils, sh), "./" + blob], cwd=d, capture_output=True, text=True)
            if r.returncode != 0:
                raise F.AnalysisBroken("%s failed: %s" % (sh, r.stderr[-300:]))
        os.remove(os.path.join(d, blob))
    # shims for the two generated umbrella headers (never the possibly stale built ones)
    open(os.path.join(d, "ppl.hh"), "w").write(
        '#include "ppl-config.h"\n#include "version.hh"\n#include "ppl_include_files.hh"\n')
    open(os.path.join(d, "ppl_c.h"), "w").write('#include "ppl_c_header.h"\n')
    # the hand-written sources are copied next to the generated ones so that the
    # stale generated umbrella headers of the build tree (interfaces/C/ppl_c.h,
    # src/ppl.hh) can never be picked up by a same-directory #include "..."
    for fn in ("ppl_c_implementation_common.cc", "ppl_c_implementation_common_defs.hh",
               "ppl_c_implementation_common_inlines.hh", "ppl_c_header.h"):
        shutil.copy2(os.path.join(cdir, fn), os.path.join(d, fn))
    ver = os.path.join(cdir, "ppl_c_version.h")
    if not os.path.exists(ver):
        ver = "/repo/interfaces/C/ppl_c_version.h"
    shutil.copy2(ver, os.path.join(d, "ppl_c_version.h"))
    ccs = sorted(c for c in glob.glob(os.path.join(d, "ppl_c_*.cc")))
    if len(ccs) < 5:
        raise F.AnalysisBroken("C interface regeneration produced only %d files" % len(ccs))
    _GEN[repo] = (d, ccs)
    return _GEN[repo]


_GH = {}


def gen_hash(d):
    if d not in _GH:
        import hashlib
        h = hashlib.sha256()
        for fn in sorted(os.listdir(d)):
            with open(os.path.join(d, fn), "rb") as f:
                h.update(fn.encode())
                h.update(f.read())
        _GH[d] = h.hexdigest()[:16]
    return _GH[d]


def units(repo=None, only=None, **kw):
    repo = repo or F.REPO
    d, ccs = regenerate(repo)
    cdir = os.path.join(repo, "interfaces", "C")
    extra = ("-I" + d, "-I" + os.path.join(repo, "interfaces"))
    us = []
    srcs = [c for c in ccs if not c.endswith("ppl_c_implementation_common.cc")] + \
        [os.path.join(d, "ppl_c_implementation_common.cc")]
    for src in srcs:
        if only and not any(o in os.path.basename(src) for o in only):
            continue
        u = F.Unit(src, main_only=False, extra=extra, repo=repo, **kw)
        u.root2 = d
        u.cache_id = "cgen:" + os.path.basename(src) + ":" + gen_hash(d)
        us.append(u)
    return d, us
