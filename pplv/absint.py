"""A small abstract interpreter over the clang CFG of one function.

The caller fixes an abstract state (signs, special-value classes, flags ...) and supplies `atom`, which decides the
expressions whose value the state determines (sgn_b(LOWER, f_lower(x), ..) is the sign of x's lower bound, ...).
Everything else is ordinary control flow over small integers and booleans: locals are tracked as sets of possible
values, every branch whose condition is not decided is followed both ways, gotos / labels / switches come for free
from the CFG.  Nothing is executed: no operand value exists, only the abstract state.

An expression or statement form the interpreter does not know raises Unknown; the rules turn that into
"analysis broken" (exit 2), never into a pass.
"""


class Unknown(Exception):
    pass


_CMP = {"==": lambda a, b: a == b, "!=": lambda a, b: a != b, "<": lambda a, b: a < b, ">": lambda a, b: a > b,
        "<=": lambda a, b: a <= b, ">=": lambda a, b: a >= b}
_ARI = {"+": lambda a, b: a + b, "-": lambda a, b: a - b, "*": lambda a, b: a * b}


class CfgInterp:
    def __init__(self, f, atom, on_elem=None, ignore_calls=(), max_steps=4000):
        self.f = f
        self.atom = atom            # atom(node, env, interp) -> set of values, or None when it is not an atom
        self.on_elem = on_elem      # on_elem(node, env, events) -> None; may append to events
        self.ignore_calls = set(ignore_calls)
        self.blocks = {b["id"]: b for b in f.cfg["b"]}
        self.max_steps = max_steps

    # -- expressions --------------------------------------------------------------------------------------------
    def ev(self, e, env):
        f = self.f
        e = f.deref(e)
        if e is None:
            raise Unknown("missing expression")
        a = self.atom(e, env, self)
        if a is not None:
            return set(a)
        k = e["k"]
        if k in ("paren", "cast", "icast") and e.get("c"):
            return self.ev(e["c"][-1], env)
        if k == "construct" and len(e.get("c", ())) == 1:
            return self.ev(e["c"][0], env)          # copy / conversion of a single value
        if k == "bool":
            return {f.text(e).strip() == "true"}
        if k == "int":
            try:
                return {int(f.text(e).strip().rstrip("uUlL"))}
            except ValueError:
                raise Unknown("integer literal `%s`" % f.text(e))
        if k == "ref":
            n = f.text(e).strip()
            if n in env:
                if env[n] is None:
                    raise Unknown("`%s` is read at line %s but its value is not tracked" % (n, e.get("l")))
                return set(env[n])
            raise Unknown("`%s` at line %s" % (n, e.get("l")))
        if k == "unop" and e.get("op") == "!":
            return {not v for v in self.ev(e["c"][0], env)}
        if k == "unop" and e.get("op") == "-":
            return {-v for v in self.ev(e["c"][0], env)}
        if k in ("binop", "ocall"):
            op = e.get("op")
            a_, b_ = e["c"][-2:]
            if op == ",":
                return self.ev(b_, env)
            if op in ("&&", "||"):
                out = set()
                for av in self.ev(a_, env):
                    if (op == "&&") == bool(av):
                        out |= {bool(v) for v in self.ev(b_, env)}
                    else:
                        out.add(bool(av))
                return out
            if op in _CMP or op in _ARI:
                fn = _CMP.get(op) or _ARI[op]
                return {fn(x, y) for x in self.ev(a_, env) for y in self.ev(b_, env)}
        if k == "cond":
            c, a_, b_ = e["c"][-3:]
            out = set()
            for cv in self.ev(c, env):
                out |= self.ev(a_ if cv else b_, env)
            return out
        raise Unknown("expression `%s` at line %s" % (f.text(e)[:40], e.get("l")))

    # -- statements ---------------------------------------------------------------------------------------------
    def _elem(self, n, env, events):
        f = self.f
        k = n["k"]
        if k == "decl":
            for v in n.get("c", ()):
                v = f.deref(v)
                if v is None or v["k"] != "var":
                    continue
                name = v.get("n") or v.get("name") or f.text(v).split("=")[0].split()[-1]
                init = v["c"][-1] if v.get("c") else None
                if init is None:
                    env[name] = None
                else:
                    try:
                        env[name] = frozenset(self.ev(init, env))
                    except Unknown:
                        env[name] = None
        elif (k == "assign" and n.get("op", "=") == "=") or (k == "ocall" and n.get("op") == "=" and len(n.get("c", ())) >= 2):
            lhs = f.deref(n["c"][-2])
            if lhs is not None and lhs["k"] == "ref":
                name = f.text(lhs).strip()
                if name in env:
                    try:
                        env[name] = frozenset(self.ev(n["c"][-1], env))
                    except Unknown:
                        env[name] = None
        if self.on_elem is not None:
            self.on_elem(n, env, events)

    def run(self, env0=None):
        """Yields (return node, env, events) for every path from the entry to a return."""
        f = self.f
        steps = [0]
        out = []

        def walk(bid, env, events, depth):
            steps[0] += 1
            if steps[0] > self.max_steps or depth > 400:
                raise Unknown("too many paths or a loop in %s" % f.name)
            b = self.blocks[bid]
            env = dict(env)
            events = list(events)
            for nid in b["e"]:
                n = f.nodes.get(nid)
                if n is None:
                    continue
                if n["k"] == "return":
                    out.append((n, env, events))
                    return
                self._elem(n, env, events)
            if b.get("tk") == "SwitchStmt":
                for v in self.ev(f.nodes[b["tc"]], env):
                    target = default = fallout = None
                    for sid in b["s"]:
                        lbl = f.nodes.get(self.blocks[sid].get("lbl"))
                        if lbl is None or lbl["k"] not in ("case", "default"):
                            # no arm matches and there is no default: control leaves the switch
                            if fallout is not None:
                                raise Unknown("switch with two unlabelled successors in %s" % f.name)
                            fallout = sid
                        elif lbl["k"] == "default":
                            default = sid
                        elif lbl.get("c") and v in self.ev(lbl["c"][0], env):
                            target = sid
                    if target is None:
                        target = default if default is not None else fallout
                    if target is None:
                        raise Unknown("switch without a default in %s" % f.name)
                    walk(target, env, events, depth + 1)
            elif "tc" in b:
                for v in sorted(self.ev(f.nodes[b["tc"]], env), key=str):
                    walk(b["s"][0] if v else b["s"][1], env, events, depth + 1)
            elif len(b["s"]) == 1:
                walk(b["s"][0], env, events, depth + 1)
            elif bid == f.cfg["exit"] or not b["s"]:
                raise Unknown("a path of %s ends without a return" % f.name)
            else:
                raise Unknown("block %s of %s has %d successors and no condition" % (bid, f.name, len(b["s"])))

        walk(f.cfg["entry"], dict(env0 or {}), [], 0)
        return out
