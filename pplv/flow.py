"""Path analyses over the event-CFG (clang CFG with all sub-expressions as elements).

The engine explores the product graph  CFG x environment of boolean locals:
  * single-assignment bool locals used as branch conditions are learned on the
    branch edges (`const bool adding_pending = ...; if (adding_pending) ...`),
  * bool locals assigned literals are tracked (`changed = true`),
so that correlated branches do not produce infeasible paths.  Everything else is
over-approximated (both edges feasible): the analyses can over-report, never
under-report, paths.
"""

NORETURN_NAMES = ("ppl_unreachable", "ppl_unreachable_msg", "ppl_assertion_failed", "abort",
                  "exit", "terminate", "__assert_fail")


def is_noreturn_call(f, n):
    if n["k"] not in ("call", "mcall"):
        return False
    nm = f.call_name(n)
    if nm in NORETURN_NAMES:
        return True
    # PPL convention: throw_* helpers always throw
    if nm.startswith("throw_") or nm == "throw_result_exception":
        return True
    return False


def _cond_atom(f, n):
    """(varname, polarity) if n is `b` or `!b` for a bool local, else None."""
    n = f.deref(n)
    pol = True
    while n is not None and n["k"] == "unop" and n.get("op") == "!":
        pol = not pol
        n = f.deref(n["c"][0])
    if n is not None and n["k"] == "ref" and n.get("dk") in ("local", "param") and \
            n.get("t", "").replace("const ", "").strip() in ("bool", "_Bool"):
        return n["n"], pol
    return None


def _literal_bool(f, n):
    n = f.deref(n)
    if n is not None and n["k"] == "bool":
        return bool(n["v"])
    return None


class Explorer:
    def __init__(self, f, track_env=True, exempt_throw=True, enum_field=None, call_effect=None,
                 elem_effect=None, edge_effect=None):
        """enum_field: (field name, all enumerators): additionally track the set of
        possible values of this->field (branch tests ==/!= against enumerators,
        assignments of enumerators).  call_effect(node, env) -> env lets a rule
        model the effect of calls (e.g. a callee that may assign the field)."""
        self.f = f
        self.track_env = track_env
        self.exempt_throw = exempt_throw
        self.enum_field = enum_field
        self.call_effect = call_effect
        self.elem_effect = elem_effect      # (node, env) -> env, for every element
        self.edge_effect = edge_effect      # (cond node, taken, env) -> env or None (prune)
        self.exit_id = f.cfg["exit"] if f.cfg else None
        self._multi_assigned = None

    def multi_assigned(self):
        """Bool locals that may be written through a reference or pointer: not trackable.
        (A non-literal assignment just makes the value unknown from that point on.)"""
        if self._multi_assigned is None:
            bad = set()
            for n in self.f.walk():
                if n["k"] in ("call", "mcall", "ocall", "construct"):
                    # passed by non-const reference / pointer => may be written
                    pm = n.get("pm", "")
                    args = self.f.call_args(n)
                    for i, a in enumerate(args):
                        if i < len(pm) and pm[i] in "rp":
                            a = self.f.deref(a)
                            while a is not None and a["k"] == "unop" and a.get("op") == "&":
                                a = self.f.deref(a["c"][0])
                            if a is not None and a["k"] == "ref":
                                bad.add(a["n"])
            self._multi_assigned = bad
        return self._multi_assigned

    def _apply_elem_env(self, n, env):
        """Environment update for assignments / declarations of literal bools."""
        f = self.f
        if self.elem_effect is not None:
            env = self.elem_effect(n, env)
        if self.call_effect is not None and n["k"] in ("call", "mcall", "ocall", "construct"):
            env = self.call_effect(n, env)
        if self.enum_field is not None and n["k"] == "assign" and n.get("op") == "=":
            l = f.deref(n["c"][0])
            if l is not None and l["k"] == "member" and l.get("n") == self.enum_field[0] \
                    and f.root(l) == ("this", self.enum_field[0]):
                vals = self._enum_values(n["c"][1])
                env = dict(env)
                env[("enum", self.enum_field[0])] = frozenset(vals if vals is not None else self.enum_field[1])
        if not self.track_env:
            return env
        if n["k"] == "assign":
            l = f.deref(n["c"][0])
            if l is not None and l["k"] == "ref" and l.get("dk") == "local":
                v = _literal_bool(f, n["c"][1]) if n.get("op") == "=" else None
                env = dict(env)
                if v is None:
                    env.pop(l["n"], None)
                else:
                    env[l["n"]] = v
        elif n["k"] == "decl":
            for v in n.get("c", ()):
                if v and v["k"] == "var" and v.get("t", "").replace("const ", "").strip() == "bool":
                    init = v.get("c", ())
                    lit = _literal_bool(f, init[0]) if init else None
                    env = dict(env)
                    if lit is None:
                        env.pop(v["n"], None)
                    else:
                        env[v["n"]] = lit
        return env

    def _enum_values(self, n):
        """Enumerators an expression can evaluate to (None if unknown)."""
        f = self.f
        n = f.deref(n)
        if n is None:
            return None
        if n["k"] == "ref" and n.get("dk") == "enum":
            return {n["n"]}
        if n["k"] == "cond":
            a = self._enum_values(n["c"][1])
            b = self._enum_values(n["c"][2])
            if a is None or b is None:
                return None
            return a | b
        return None

    def _enum_test(self, cond):
        """(enumerator, is_equality) if cond is `field ==/!= ENUM` on this."""
        f = self.f
        cond = f.deref(cond)
        if cond is None or cond["k"] != "binop" or cond.get("op") not in ("==", "!="):
            return None
        a, b = f.deref(cond["c"][0]), f.deref(cond["c"][1])
        for x, y in ((a, b), (b, a)):
            if x is not None and y is not None and x["k"] == "member" and x.get("n") == self.enum_field[0] \
                    and f.root(x) == ("this", self.enum_field[0]) and y["k"] == "ref" and y.get("dk") == "enum":
                return y["n"], cond["op"] == "=="
        return None

    def find_path(self, start, blocked, target="EXIT", edge_blocked=None, start_env=None,
                  include_start=False, max_states=200000, exit_ok=None):
        """First path from `start` to `target` that avoids `blocked` elements.

        start: (block id, element index) — exploration begins after that element
               (or at it when include_start), or "ENTRY".
        blocked(node) -> True prunes the path at that element (obligation met).
        target: "EXIT" (normal function exit) or predicate(node) -> True.
        edge_blocked(cond_node, taken) -> True prunes that branch edge.
        Returns None if no such path, else a list of (block id, [lines]) steps.
        """
        f = self.f
        if not f.cfg:
            return None
        if start == "ENTRY":
            start = (f.cfg["entry"], -1)
            include_start = False
        b0, k0 = start
        if not include_start:
            k0 += 1
        env0 = dict(start_env or {})
        stack = [(b0, k0, env0, ())]
        seen = set()
        nstates = 0
        untrack = self.multi_assigned() if self.track_env else set()
        while stack:
            b, k, env, path = stack.pop()
            key = (b, k, frozenset(env.items()))
            if key in seen:
                continue
            seen.add(key)
            nstates += 1
            if nstates > max_states:
                return path + (("state-limit", []),)
            blk = f.blocks[b]
            if b == self.exit_id:
                if target == "EXIT" and not (exit_ok is not None and exit_ok(env)):
                    return list(path + ((b, []),))
                continue
            pruned = False
            lines = []
            elems = blk["e"]
            for idx in range(max(k, 0), len(elems)):
                n = f.nodes.get(elems[idx])
                if n is None:
                    continue
                if n.get("l"):
                    lines.append(n["l"])
                if target != "EXIT" and target(n):
                    return list(path + ((b, lines),))
                if blocked(n):
                    pruned = True
                    break
                if self.exempt_throw and (n["k"] == "throw" or is_noreturn_call(f, n)):
                    pruned = True
                    break
                env = self._apply_elem_env(n, env)
            if pruned:
                continue
            if blk.get("noret"):
                continue
            succs = blk["s"]
            step = path + ((b, lines),)
            tc = f.nodes.get(blk.get("tc")) if blk.get("tc") is not None else None
            tk = blk.get("tk")
            if len(succs) == 2 and tc is not None and tk not in ("SwitchStmt", "CXXTryStmt"):
                atom = _cond_atom(f, tc) if self.track_env else None
                etest = self._enum_test(tc) if self.enum_field is not None else None
                lit = _literal_bool(f, tc)
                if lit is None and tc["k"] == "int":
                    lit = tc.get("v") not in ("0", 0)
                for taken, s in ((True, succs[0]), (False, succs[1])):
                    if s is None:
                        continue
                    if lit is not None and taken != lit:
                        continue      # `while (true)`, `if (false)`: the other edge is dead
                    if edge_blocked is not None and edge_blocked(tc, taken):
                        continue
                    env2 = env
                    if etest is not None:
                        key = ("enum", self.enum_field[0])
                        cur = env.get(key, frozenset(self.enum_field[1]))
                        val, is_eq = etest
                        new = (cur & {val}) if (taken == is_eq) else (cur - {val})
                        if not new:
                            continue
                        env2 = dict(env)
                        env2[key] = frozenset(new)
                    if atom is not None and atom[0] not in untrack:
                        name, pol = atom
                        val = taken if pol else (not taken)
                        if name in env2 and env2[name] != val:
                            continue
                        env2 = dict(env2)
                        env2[name] = val
                    if self.edge_effect is not None:
                        env2 = self.edge_effect(tc, taken, env2)
                        if env2 is None:
                            continue
                    stack.append((s, 0, env2, step))
            else:
                for s in succs:
                    if s is not None:
                        stack.append((s, 0, env, step))
        return None


def render_path(f, path, limit=14):
    if path is None:
        return ""
    out = []
    for b, lines in path:
        if lines:
            lo, hi = min(lines), max(lines)
            out.append("B%s[%s]" % (b, lo if lo == hi else "%d-%d" % (lo, hi)))
        else:
            out.append("B%s" % b)
    if len(out) > limit:
        out = out[:limit // 2] + ["..."] + out[-limit // 2:]
    return " -> ".join(out)


def env_from_ancestors(f, node):
    """Boolean-local facts implied by the branches that enclose `node`
    (`if (adding_pending) { ... node ... }` => adding_pending is true at node)."""
    env = {}
    child = node
    for a in f.ancestors(node):
        if a["k"] == "if":
            cond, then, els = f.deref(a["c"][2]), f.deref(a["c"][3]), f.deref(a["c"][4])
            atom = _cond_atom(f, cond)
            if atom is not None:
                name, pol = atom
                if then is not None and f.within(child, then):
                    env.setdefault(name, pol)
                elif els is not None and f.within(child, els):
                    env.setdefault(name, not pol)
        child = a
    return env


def must_follow(f, node, satisfied, edge_satisfied=None, track_env=True):
    """None if on every normal path from `node` to the function exit an element
    satisfying `satisfied` occurs (or a branch edge satisfying edge_satisfied is
    taken); otherwise the offending path."""
    pos = f.cfg_pos(node)
    if pos is None:
        return [("no-cfg-position", [node.get("l", 0)])]
    ex = Explorer(f, track_env=track_env)
    start_env = env_from_ancestors(f, node) if track_env else {}
    for k in list(start_env):
        if k in ex.multi_assigned():
            del start_env[k]
    return ex.find_path(pos, satisfied, "EXIT", edge_blocked=edge_satisfied, start_env=start_env)


def must_precede(f, node, satisfied, edge_satisfied=None, track_env=True):
    """None if every path from function entry to `node` passes an element
    satisfying `satisfied`; otherwise an offending path."""
    ex = Explorer(f, track_env=track_env, exempt_throw=True)
    nid = node["i"]
    tgt_ids = set([nid])
    for x in f.walk(node):
        tgt_ids.add(x["i"])
    return ex.find_path("ENTRY", satisfied, lambda n: n["i"] in tgt_ids, edge_blocked=edge_satisfied)


def reachable_between(f, src, dst_pred, blocked=lambda n: False):
    pos = f.cfg_pos(src)
    if pos is None:
        return None
    ex = Explorer(f, track_env=True)
    return ex.find_path(pos, blocked, dst_pred)
