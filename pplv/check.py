"""Check context: rule instances, known findings, evidence, exit codes.

exit 0  every instance satisfied (known findings printed as KNOWN-FINDING)
exit 1  VIOLATION property=<id> replay=<path>  for an instance not listed
exit 2  analysis broken (anchor vanished, instance floor not met, parse error)
"""
import hashlib
import json
import os
import sys
import time

from . import facts as F

VERIF = F.VERIF
KNOWN = os.path.join(VERIF, "known_findings.json")


def load_known():
    if not os.path.exists(KNOWN):
        return []
    with open(KNOWN) as f:
        return json.load(f).get("findings", [])


class Rule:
    def __init__(self, rid, text):
        self.rid = rid
        self.text = text
        self.ok = []          # (instance, where)
        self.excepted = []    # (instance, where, reason)
        self.violations = []  # (instance, where, msg, extra)
        self.known = []       # (instance, where, msg)
        self.notes = []
        self.counters = {}

    @property
    def n(self):
        return len(self.ok) + len(self.excepted) + len(self.violations) + len(self.known)


class Check:
    def __init__(self, pid, tier="quick", seed=0, only_instance=None, repo=None, quiet=False):
        self.pid = pid
        self.tier = tier
        self.seed = seed
        self.rules = {}
        self.order = []
        self.t0 = time.time()
        self.known_list = [k for k in load_known()
                           if k.get("property") == pid and k.get("status", "known") == "known"]
        self.known_used = set()
        self.only_instance = only_instance   # (rule, instance) for --replay
        self.repo = repo or F.REPO
        self.quiet = quiet
        self.units = []
        self.functions_analysed = 0
        self.tolerated_diags = 0
        self.assumptions = []
        self.explanation = ""
        self.selftest = None

    # -- facts ------------------------------------------------------------------
    def extract(self, units, tolerate=None):
        for u in units:
            u.repo = self.repo
        fx = F.extract(units, tolerate=tolerate)
        self.units += fx.units
        self.functions_analysed += len(fx.functions)
        self.tolerated_diags += fx.tolerated
        return fx

    # -- rules ------------------------------------------------------------------
    def rule(self, rid, text):
        if rid not in self.rules:
            self.rules[rid] = Rule(rid, text)
            self.order.append(rid)
        return self.rules[rid]

    def _selected(self, rid, inst):
        if self.only_instance is None:
            return True
        return self.only_instance == (rid, inst)

    def ok(self, rid, inst, where=""):
        if self._selected(rid, inst):
            self.rules[rid].ok.append((inst, where))

    def excepted(self, rid, inst, where, reason):
        if self._selected(rid, inst):
            self.rules[rid].excepted.append((inst, where, reason))

    def violation(self, rid, inst, where, msg, extra=None):
        if not self._selected(rid, inst):
            return
        for k in self.known_list:
            if k.get("rule") == rid and k.get("instance") == inst:
                self.rules[rid].known.append((inst, where, msg))
                self.known_used.add((rid, inst))
                return
        self.rules[rid].violations.append((inst, where, msg, extra))

    def note(self, rid, text):
        self.rules[rid].notes.append(text)

    def count(self, rid, key, n=1):
        c = self.rules[rid].counters
        c[key] = c.get(key, 0) + n

    def floor(self, rid, n, minimum, what):
        """Instance floor: fewer instances than confirmed by hand => analysis broken."""
        if self.only_instance is not None:
            return
        self.rules[rid].counters["floor:" + what] = "%d>=%d" % (n, minimum)
        if n < minimum:
            raise F.AnalysisBroken("%s: %s: found %d, confirmed floor is %d" % (rid, what, n, minimum))

    def require(self, rid, cond, what):
        if not cond:
            raise F.AnalysisBroken("%s: %s" % (rid, what))

    # -- finish -----------------------------------------------------------------
    def finish(self):
        nviol = 0
        lines = []
        replay_dir = os.path.join(VERIF, "build", "replay", self.pid)
        for rid in self.order:
            r = self.rules[rid]
            for inst, where, msg in r.known:
                lines.append("KNOWN-FINDING: property=%s rule=%s %s: %s [%s]" % (self.pid, rid, where, msg, inst))
            for inst, where, msg, extra in r.violations:
                nviol += 1
                os.makedirs(replay_dir, exist_ok=True)
                h = hashlib.sha256((rid + "|" + inst).encode()).hexdigest()[:12]
                path = os.path.join(replay_dir, "%s-%s.json" % (rid, h))
                with open(path, "w") as f:
                    json.dump({"property": self.pid, "rule": rid, "instance": inst,
                               "where": where, "message": msg, "extra": extra,
                               "rule_text": r.text}, f, indent=1)
                lines.append("%s: %s violated: %s [instance %s]" % (where, rid, msg, inst))
                lines.append("VIOLATION property=%s replay=%s" % (self.pid, path))
        if self.only_instance is None:
            self.write_evidence(nviol)
        if not self.quiet:
            for rid in self.order:
                r = self.rules[rid]
                print("%s %s: %d instances, %d ok, %d excepted, %d known, %d violations  %s" % (
                    self.pid, rid, r.n, len(r.ok), len(r.excepted), len(r.known),
                    len(r.violations), json.dumps(r.counters) if r.counters else ""))
        for ln in lines:
            print(ln)
        sys.stdout.flush()
        return 1 if nviol else 0

    def write_evidence(self, nviol):
        rules = []
        evaluations = 0
        distinct = set()
        samples = []
        for rid in self.order:
            r = self.rules[rid]
            evaluations += r.n
            for inst, *_ in r.ok + r.excepted + r.violations + r.known:
                distinct.add((rid, inst))
            rules.append({
                "rule": rid, "text": r.text, "instances": r.n,
                "satisfied": len(r.ok), "excepted": len(r.excepted),
                "known_findings": len(r.known), "violations": len(r.violations),
                "exceptions": [{"instance": i, "reason": why} for i, _, why in r.excepted][:40],
                "counters": r.counters, "notes": r.notes[:20],
            })
            for inst, where in r.ok[:3]:
                samples.append({"rule": rid, "instance": inst, "where": where, "verdict": "satisfied"})
            for inst, where, msg in r.known[:3]:
                samples.append({"rule": rid, "instance": inst, "where": where, "verdict": "known finding", "detail": msg})
            for inst, where, msg, _ in r.violations[:3]:
                samples.append({"rule": rid, "instance": inst, "where": where, "verdict": "VIOLATION", "detail": msg})
        ev = {
            "property_id": self.pid,
            "tier": self.tier,
            "seed": self.seed,
            "level": "other",
            "coverage": {
                "explanation": self.explanation or "static all-paths rule checking over /repo's current source (libTooling facts + rule engines); no PPL code is executed",
                "evaluations": evaluations,
                "distinct_nontrivial": len(distinct),
                "rule": "one evaluation = one rule instance (function / call site / path obligation) found in the parsed program; distinct = distinct (rule, instance key) pairs; every instance carries at least one obligation",
                "samples": samples[:30],
                "obligations": evaluations,
                "discharged": evaluations - nviol - sum(len(self.rules[r].known) for r in self.order),
                "translation_units": sorted(set(self.units)),
                "functions_analysed": self.functions_analysed,
                "tolerated_diagnostics": self.tolerated_diags,
                "rules": rules,
                "tree_hash": F.tree_hash(self.repo),
            },
            "assumptions": self.assumptions,
            "wall_s": round(time.time() - self.t0, 2),
            "violations": nviol,
        }
        if self.selftest is not None:
            ev["coverage"]["selftest"] = self.selftest
        os.makedirs(os.path.join(VERIF, "evidence"), exist_ok=True)
        with open(os.path.join(VERIF, "evidence", self.pid + ".json"), "w") as f:
            json.dump(ev, f, indent=1)
