"""A-EFF: write effects with alias tracking, and same-object callee summaries."""
from . import facts as F

_INCDEC = ("++", "--")


def lvalue_root(f, n):
    """Root written by assigning to / incrementing expression n.  A pointer or
    iterator variable named directly is itself the target (`++it`, `p = q`);
    a reference variable designates its referee."""
    n = f.deref(n)
    if n is not None and n["k"] == "ref" and n.get("dk") in ("local", "param", "slocal"):
        t = n.get("t", "").strip()
        if not t.endswith("&"):
            return ("local" if n["dk"] != "param" else "param", n["n"])
    return f.root(n)


def writes(f, include_index=False):
    """Yield (node, root, how) for every syntactic write in f.

    how: 'assign' | 'incdec' | 'call:<name>' (non-const member call on the root)
         | 'arg:<callee>' (bound to a non-const reference / pointer parameter)
         | 'delete' | 'depcall:<name>' (call in a template pattern, constness unknown)
    Non-const operator[] / operator* / operator-> / begin()/end() only derive
    an alias and are not writes by themselves (the alias is resolved by root()).
    """
    for n in f.walk():
        k = n["k"]
        if k == "assign":
            yield n, lvalue_root(f, n["c"][0]), "assign"
        elif k == "unop" and n.get("op") in _INCDEC:
            yield n, lvalue_root(f, n["c"][0]), "incdec"
        elif k == "delete":
            if n.get("c"):
                yield n, f.root(n["c"][0]), "delete"
        elif k in ("mcall", "ocall", "call", "construct"):
            obj = f.call_obj(n)
            name = f.call_name(n)
            if obj is not None:
                if n.get("dep"):
                    yield n, f.root(obj), "depcall:" + name
                elif not n.get("cconst") and not n.get("cstatic"):
                    if k == "ocall" and n.get("op") in ("[]", "*", "->", "()") and not include_index:
                        pass
                    elif k == "ocall" and n.get("op") in ("++", "--", "=", "+=", "-="):
                        yield n, lvalue_root(f, obj), "call:" + name
                    elif name in ("begin", "end", "rbegin", "rend", "find", "lower_bound", "upper_bound",
                                  "front", "back", "at", "operator[]", "get", "data",
                                  "row_begin", "row_end", "element_begin", "element_end"):
                        pass
                    else:
                        yield n, f.root(obj), "call:" + name
            pm = n.get("pm", "")
            args = f.call_args(n)
            if k == "ocall" and n.get("member"):
                pm_args = pm
            elif k == "ocall":
                # free operator: all operands are parameters
                args = [f.deref(c) for c in n.get("c", ())]
                pm_args = pm
            else:
                pm_args = pm
            for i, a in enumerate(args):
                if i < len(pm_args) and pm_args[i] in "rp":
                    r = f.root(a)
                    if r[0] not in ("temp",):
                        yield n, r, "arg:" + name


def field_of(root):
    """Field of *this a root designates (None if not this-rooted)."""
    if root and root[0] == "this":
        return root[1] if len(root) > 1 else "*this"
    return None


class Summaries:
    """May-write summaries of same-class member functions (depth-bounded)."""

    def __init__(self, fx, clsn, depth=3):
        self.fx = fx
        self.clsn = clsn
        self.depth = depth
        self.by_name = {}
        for f in fx.functions:
            if f.clsn == clsn:
                self.by_name.setdefault(f.name, []).append(f)
        self._memo = {}

    def callees_on_this(self, f):
        """(call node, [callee Func]) for member calls whose receiver is *this."""
        for n in f.calls():
            if n["k"] != "mcall":
                continue
            obj = f.call_obj(n)
            if obj is None or f.root(obj) != ("this",):
                continue
            cands = self.by_name.get(f.call_name(n), [])
            yield n, cands

    def may_write(self, f, depth=None, _stack=()):
        """Set of fields of *this that f may write, following same-object callees."""
        depth = self.depth if depth is None else depth
        key = (id(f), depth)
        if key in self._memo:
            return self._memo[key]
        out = set()
        for n, r, how in writes(f):
            fld = field_of(r)
            if fld is not None and fld != "*this":
                out.add(fld)
            elif fld == "*this" and how.startswith(("call:", "depcall:")):
                pass  # resolved through callees below
            elif fld == "*this":
                out.add("*this")
        if depth > 0:
            for n, cands in self.callees_on_this(f):
                for g in cands:
                    if g is f or id(g) in _stack:
                        continue
                    if len(g.params) != len(f.call_args(n)):
                        continue
                    out |= self.may_write(g, depth - 1, _stack + (id(f),))
        self._memo[key] = out
        return out
