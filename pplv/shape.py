"""Canonical shapes of sub-trees for sibling-agreement rules (A-SIB).

canon(f, node, subst) returns a nested tuple that is equal for two sub-trees
iff they have the same statement/expression structure, the same resolved
callee names, member names, operators and literals, after applying the textual
substitution `subst` (list of (regex, replacement)) to every name and type.
Line numbers, node ids and local formatting do not take part.
"""
import re


def _sub(s, subst):
    if s is None:
        return None
    for a, b in subst:
        s = re.sub(a, b, s)
    return s


def canon(f, n, subst=(), types=True, drop=None):
    n = f.deref(n)
    if n is None:
        return None
    k = n["k"]
    if drop and drop(n):
        return ("dropped",)
    head = [k]
    if k in ("call", "mcall", "ocall", "construct"):
        head.append(_sub(n.get("cn") or n.get("callee"), subst))
        if k == "ocall":
            head.append(n.get("op"))
        if k == "construct" and types:
            head.append(_sub(n.get("t"), subst))
    elif k in ("ref", "member"):
        head.append(_sub(n.get("n"), subst))
        head.append(n.get("dk"))
    elif k in ("int", "bool", "str", "char"):
        head.append(n.get("v"))
    elif k in ("unop", "binop", "assign"):
        head.append(n.get("op"))
        if n.get("post"):
            head.append("post")
    elif k == "cast":
        head.append(n.get("ck"))
        if types:
            head.append(_sub(n.get("t"), subst))
    elif k in ("new", "throw", "catch"):
        if types:
            head.append(_sub(n.get("t"), subst))
    elif k == "var":
        head.append(_sub(n.get("n"), subst))
        if types:
            head.append(_sub(n.get("t"), subst))
    elif k in ("expr", "stmt"):
        head.append(n.get("cls"))
    kids = tuple(canon(f, c, subst, types, drop) for c in n.get("c", ()))
    return tuple(head) + (kids,)


def first_diff(a, b, path=""):
    """Human-readable first difference between two canonical shapes."""
    if a == b:
        return None
    if not isinstance(a, tuple) or not isinstance(b, tuple):
        return "%s: %r vs %r" % (path, a, b)
    if a[:-1] != b[:-1] or not isinstance(a[-1], tuple) or not isinstance(b[-1], tuple):
        return "%s: %r vs %r" % (path, a[:-1], b[:-1])
    ka, kb = a[-1], b[-1]
    if len(ka) != len(kb):
        return "%s/%s: %d vs %d children" % (path, a[0], len(ka), len(kb))
    for i, (x, y) in enumerate(zip(ka, kb)):
        d = first_diff(x, y, "%s/%s[%d]" % (path, a[0], i))
        if d:
            return d
    return "%s: differ" % path
