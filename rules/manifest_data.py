"""Per-property claims for MANIFEST.json (bin/mkmanifest writes the file)."""

HOOK_COMMITS = []

NOTES = ("Static analysis only. Every check parses /repo's current working tree with clang-14 libTooling "
         "(tool/pplfacts.cc) and decides named structural clauses that are necessary conditions of the property; "
         "each level_claimed.text says which clause is decided and what stays undecided. exit 2 = analysis broken "
         "(anchor vanished / instance floor not met / parse error), never a pass.")

NOT_APPLICABLE = {
    "C18": "truth lies in the Farkas-dual coefficient layouts and MIP results (numeric); no ordering, pairing, ownership or agreement clause whose violation is visible in code shape (DESIGN.md §3 C18)",
}

CLAIMS = {
    "C16": {
        "text": "Decides the representation-agnostic dispatch clause, not the behaviour: on every run-time dispatch over the dynamic type of a linear-expression operand (42 sites) the Dense and Sparse arms are identical modulo Dense_Row<->Sparse_Row and the tail is unreachable; every switch over Representation has both cases with identical bodies; the explicitly specialised members exist for both rows. Necessary for 'behave identically whether dense or sparse'; the CO_Tree as an ordered map (index arithmetic, rebalancing, iterator validity) is NOT decided.",
        "design_ref": "DESIGN.md §3 C16",
        "note": "trusts clang's type resolution of the instantiated Linear_Expression_Impl<Dense_Row|Sparse_Row>; the generic Row2-templated bodies are assumed representation-agnostic through the iterator interface",
        "technique": "sibling-agreement rule over type-resolved instantiated ASTs (libTooling), with instance floors",
    },
}
