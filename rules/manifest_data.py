"""Per-property claims for MANIFEST.json (bin/mkmanifest writes the file)."""

HOOK_COMMITS = []

NOTES = ("Static analysis only. Every check parses /repo's current working tree with clang-14 libTooling "
         "(tool/pplfacts.cc) and decides named structural clauses that are necessary conditions of the property; "
         "each level_claimed.text says which clause is decided and what stays undecided. exit 2 = analysis broken "
         "(anchor vanished / instance floor not met / parse error), never a pass.")

NOT_APPLICABLE = {
    "C18": "truth lies in the Farkas-dual coefficient layouts and MIP results (numeric); no ordering, pairing, ownership or agreement clause whose violation is visible in code shape (DESIGN.md §3 C18)",
}

CLAIMS = {
    "C02": {
        "text": "Decides two structural clauses only, not which set the operators compute: (R2.1) degenerate receiver — typestate of the receiver (unknown / marked non-empty / semantically non-empty / maybe empty) along every CFG path to each of the 119 call sites of members that assert `!marked_empty()` on entry (the asserted preconditions are read from the assertion-enabled view on every run): no such member is applied after a same-object call that may have found the receiver empty without an intervening emptiness test — otherwise the operation aborts instead of returning the documented empty set; (R2.2) dimension alignment — on every path through a member that changes space_dim each description is edited, known not up to date, withdrawn or replaced wholesale. The set-theoretic content of the operators (signs, invertibility case split, epsilon encoding, conversions) is numeric and NOT decided.",
        "design_ref": "DESIGN.md §3 C02",
        "note": "may-mark-empty / adds-constraints summaries are may-analyses over same-object callees (depth 3); one call site is a reasoned exception (BHRZ03 widening precondition y <= x)",
        "technique": "branch-sensitive typestate over clang CFG with callee summaries; preconditions mined from the assertion-enabled view",
    },
    "C01": {
        "text": "Decides protocol clauses of the Polyhedron lazy representation, not the double-description arithmetic: (R1.1) flag typestate over every CFG path — after a row is inserted into a description no path leaves that description's `minimized` claim standing, and after an insertion into the constraint system no path leaves `generators up to date` claimed (non-public writers hand the obligation to their callers); (R1.3) every insert_pending is followed on every path by the matching set_*_pending (correlated boolean locals such as `adding_pending` tracked); (R13.4) const members strip constness only at the 53 confirmed lazy-update sites. Necessary for 'the two descriptions denote the same set whatever the history' and 'observing never changes the set'. Write kinds other than row insertion (affine maps, dimension changes, sorting) are counted but not judged; the value preservation of the lazy-update members, conversion, minimization and every query's arithmetic are NOT decided (a seeded numeric shortcut in is_universe() is not detected, see DESIGN).",
        "design_ref": "DESIGN.md §3 C01",
        "note": "armed write kinds were inferred by unanimous majority over the tree and then frozen; strongly_minimize_* are tabled as establishing the claim they touch",
        "technique": "flag typestate and must-follow rules over clang CFG x boolean-local environment with callee summaries; who-may-const_cast allowlist",
    },
    "C05": {
        "text": "Decides two protocol clauses of the Grid lazy representation, not the lattice arithmetic: (R5.1) flag typestate over every CFG path — after a value-changing edit of a description (affine image/preimage, insertion, permutation, concatenation, removal of dimensions: the kinds for which every site of the confirmed tree does so) no path leaves that description's `minimized` claim standing; (R5.3/R5.4) for a class whose observers hand out a description member as it is when the object is marked empty (Grid), the copy constructor distinguishes the same source states as operator= (notably marked_empty, which installs the canonical empty representation). Necessary for 'the congruence and generator descriptions denote the same set whatever the history' and for copies to be the same value. The `up to date` pairing of the two descriptions, dimension changes that maintain the triangular form through dim_kinds, Hermite reduction, conversion, relation_with, frequency and difference are NOT decided.",
        "design_ref": "DESIGN.md §3 C05",
        "note": "write kinds outside the armed set are counted in the evidence but not judged; lazy-update members are assumed value-preserving",
        "technique": "flag typestate over clang CFG x boolean-local environment with callee summaries (armed write kinds inferred by unanimous majority, then frozen); sibling-agreement rule on copy operations",
    },
    "C19": {
        "text": "Decides signal-safety discipline and dispatch structure, not timing: (R19.1) outside the handler every use of the handler-shared list/timer state happens between in_critical_section = true and = false on every path; (R19.2) Handler::act() is invoked only by the two dispatch loops and is followed on every path by flagging the element expired and erasing it, and destructors deregister only watchers that have not fired; (R19.4) the weight watcher fires while !less_than(current, deadline); (R19.5) each comparison operator of the timer's Time type reads both operands; (R19.6) every set_timer() — which overwrites the record of the interval being timed — is preceded by an update of time_so_far. Necessary for 'at most once', 'never early' and 'promptly' under signals arriving at any point. The deadline arithmetic itself, promptness bounds and delivery order are numeric over timer values and NOT decided. One known finding (reschedule() loses the elapsed interval) is listed in known_findings.json.",
        "design_ref": "DESIGN.md §3 C19",
        "note": "the per-object `expired` flag read by ~Watchdog outside the critical section was reviewed and is not part of the rule (erasing an already-fired element only moves it inside the free list); ownership of the handler in the constructors is decided by the C14 check (R14.2)",
        "technique": "dominance / must-follow rules over clang CFG for a region protocol, who-may-call rule, operand-use rule on comparison operators",
    },
    "C14": {
        "text": "Decides ordering/ownership clauses, not leak-freedom for every failing allocation: (R14.1) in each of the 188 validating public mutators of the domains and solvers no write to the receiver lies on a CFG path to a validation throw of the same function (rejected calls change nothing); (R14.2) the result of every new / clone() / allocator allocate() (96 sites) is owned at once — returned, handed to a guard or callee, stored in an already constructed owner — or, while held in a raw local pointer or in a raw member of an object under construction (including what a same-class helper such as init() allocated for a constructor), is followed by no may-throw step until it is handed over, guarded or protected by try/catch(...){release; throw;}; (R14.3) every cycle of the nine loops that hold a maybe_abandon() checkpoint passes one and each anchor function keeps its confirmed number of checkpointed loops. R14.4 (cached results are handed out only after a successful solve) is decided by the C06/C07 checks. Leak-freedom under the k-th allocation failure deep inside call chains and the strong guarantee after bad_alloc in the middle of a mutator are NOT decided.",
        "design_ref": "DESIGN.md §3 C14",
        "note": "may-throw is a may-analysis over the parsed program with a reasoned nothrow name list (accessors, setters of raw pointers, C library calls); member templates are judged on the instantiations of drivers/domains.cc",
        "technique": "path rules over clang CFG (write-reaches-throw, allocation-reaches-may-throw before hand-over), loop-cycle cut rule, may-throw call-graph inference",
    },
    "C10": {
        "text": "Decides four structural clauses, not the entailment arithmetic: (R10.1) in every transformer of Partially_Reduced_Product each statement block applies the same operation with corresponding arguments to both components, in every branch (recycle/refine pairs allowed); (R10.2) the ten predicates combine the component answers with the connective that is sound for an intersection; (R10.3) inside the four reductions a component is changed only by a meet, a nested reduction or a swap with a freshly built EMPTY element; (R10.4) the symmetric halves of Congruences_Reduction and Shape_Preserving_Reduction are mirror images modulo d1 <-> d2. Necessary for 'transformers contain the exact image of the intersection' and 'reductions never lose the intersection'. That the constraints a reduction transfers are entailed by the partner (frequency / congruence arithmetic) is numeric and NOT decided.",
        "design_ref": "DESIGN.md §3 C10",
        "note": "transformers are judged on Partially_Reduced_Product<C_Polyhedron, Grid, Constraints_Reduction>; reductions as template patterns (dependent calls by name)",
        "technique": "sibling-agreement (d1 vs d2, mirrored loops) and allowlist rules over instantiated ASTs and template patterns",
    },
    "C09": {
        "text": "Decides three structural clauses, not the union-preservation arithmetic: (R9.1) copy-on-write — in Determinate<PSET> every non-const use of the shared representation is preceded by mutate() on every path, mutate() copies before it releases, and nothing outside Determinate reaches the representation; (R9.2) lifting — each of the 28 per-disjunct transformers of Pointset_Powerset (checked on the C_Polyhedron, NNC_Polyhedron and Grid instantiations) applies the same-named base operation with its own parameters in order to every disjunct (full begin..end traversal, no break/return/continue); (R9.3) dimension-changing members update the powerset's own space_dim on every path. Necessary for 'copies are unaffected by later changes to the original' and 'operations act on the union as the base operation acts on each disjunct'. That omega-reduction, pairwise merge, collapse and linear_partition preserve/enlarge the union as documented is numeric and NOT decided.",
        "design_ref": "DESIGN.md §3 C09",
        "note": "judged on three resolved instantiations (drivers/domains.cc); reduced-flag hygiene is reported but is not a deciding clause",
        "technique": "dominance (must-precede) rule over clang CFG with alias tracking; sibling-agreement rule on instantiated ASTs",
    },
    "C13": {
        "text": "Decides ownership/coverage clauses of value semantics, not aliasing in general: (R13.1) every class whose destructor releases a member declares copy constructor and copy assignment; (R13.2) each of the 44 user-provided copy assignments is copy-and-swap, guarded by this != &y, reference-count safe (acquire before release) or purely memberwise; (R13.3) m_swap exchanges every data member (121 member obligations); (R13.4) every const_cast of the library is one of 53 confirmed sites and through a writable alias of a const ARGUMENT only the tabled representation-preserving operations are applied; (R13.8) the temporary topology mark on a const argument is undone on every normal and exceptional path; (R9.1) copy-on-write of Determinate. Necessary for 'copies are independent' and 'a const argument keeps its value'. Passing the same object as receiver and argument (x.op(x)) needs read-after-write value reasoning and is NOT decided; value preservation by the lazy-update members themselves is assumed (C01).",
        "design_ref": "DESIGN.md §3 C13",
        "note": "class facts come from one resolved instantiation per template; helper classes local to one translation unit without a class record are listed as not judged",
        "technique": "class-fact rules (rule of three, member coverage), assignment-shape classifier, who-may-const_cast allowlist with effect check, try/catch pairing rule",
    },
    "C15": {
        "text": "Decides writer/reader agreement, not the round-trip behaviour: for all 37 ascii_dump/ascii_load pairs the linearised writer and reader agree on the order of keyword tokens (literals concatenated and split as the stream would, ?: / switch / if arms as alternatives), of sub-object dumps/loads (by resolved class) and of directly streamed members (R15.1); every literal the reader insists on can be produced by the writer (R15.2); in the five Status classes each keyword's test_X in the writer pairs with set_X and reset_X of the same flag in the reader and both polarities are restored (R15.3); every data member of 13 composite classes is named by both the dump and the load or is a reasoned exception (R15.4). Necessary for 'loading a dump yields the same value and the same text'. Number I/O of coefficients and special float values, loop extents and the semantic equality of the loaded object are NOT decided.",
        "design_ref": "DESIGN.md §3 C15",
        "note": "control structure is compared through linear order of first occurrences only; template classes are judged on one resolved instantiation (drivers/domains.cc) or, failing that, on the pattern",
        "technique": "sibling-agreement (writer vs reader) over type-resolved ASTs, field-coverage rule, with instance floors",
    },
    "C04": {
        "text": "Decides the canonical-form protocol of BD shapes and octagons on the rational instantiation, not the closure arithmetic: (R4.2) flag typestate over every CFG path of every member — no path leaves `closed` / `reduced` / `strongly closed` claimed after the matrix it describes was written (writes alias-tracked through references, iterators and proxy rows; private writers hand the obligation to their callers; each closure-preserving write is justified by a stated lemma per write event, never per function); (R4.1) 80 frozen (function, operand) pairs still close the operand before any read of its matrix contents; (R4.3) the element helpers reset closure when they change an element. Necessary for 'equal point sets compare equal whatever their history' and for exact predicates on non-closed / reduced operands. Exactness of the closure, reduction and join algorithms themselves and the optimality claims are NOT decided; three refine() call sites are listed as UNDECIDED in the evidence.",
        "design_ref": "DESIGN.md §3 C04",
        "note": "lemmas in rules/c04.py are mathematical statements about individual write events (pointwise max of closed matrices is closed, translation preserves closure, ...) and are trusted; Box is not covered (its emptiness is recomputed, see DESIGN)",
        "technique": "flag typestate over clang CFG x boolean-local environment (custom dataflow) with callee summaries; dominance rule with frozen instance table",
    },
    "C20": {
        "text": "Decides the wrapper-discipline clauses on the wrappers REGENERATED from /repo's m4 templates plus the hand-written common file (1987 extern \"C\" definitions): every body is a catch-all function-try-block; handlers map each documented exception class to its documented code, notify with the same code, are never shadowed by a base-class handler and reset timeouts; no const_cast/reinterpret_cast/C-style cast in a wrapper; every new result is owned at once by the out-parameter, every delete applies to the handle; Boolean answers are `E ? 1 : 0` un-negated; every prototype of the public headers has exactly one definition; the C++ member applied to the first handle is the one named by the wrapper, operands keep their order, and no library operation is guarded by a test on argument data; PPL_* status variables mirror the same-named C++ enumerators. Necessary for 'faithful, exception-tight wrapper'; that handle contents equal the C++ results for all inputs is C01-C17 behind the wrapper and is NOT decided here.",
        "design_ref": "DESIGN.md §3 C20",
        "note": "trusts the m4 regeneration (byte-identical to the build on the unchanged tree) and the configure-produced instantiation list; C++ typing of to_const/to_nonconst enforces const-correctness once unsafe casts are excluded",
        "technique": "custom AST rules (libTooling) over regenerated wrappers: handler-table, ownership path rule, who-may-cast allowlist, prototype/definition completeness, operand-order and name agreement",
    },
    "C06": {
        "text": "Decides the incremental-invalidation clause, not the solver: after every write to a problem input (constraints, space dimension, integer variables, objective, optimisation mode; directly or through a same-object callee) the set of possible values of the cached status at every normal exit is inside the set allowed for that input (path exploration of CFG x status-value sets, guards `status != UNSATISFIABLE` etc. interpreted); every switch(status) handles all five states; const members never write inputs through the const_cast alias; the cached witness is returned only on the edge of a successful is_satisfiable()/solve(). Necessary for 'incremental = from scratch'. Status/optimum/witness correctness of the simplex and branch-and-bound arithmetic is NOT decided.",
        "design_ref": "DESIGN.md §3 C06",
        "note": "assumes infeasibility is monotone under added constraints/dimensions; trusts the may-write summaries (depth 3) of same-object callees; numeric solver code is outside the claim",
        "technique": "path-sensitive must-follow over clang CFG x abstract status set (custom dataflow), plus effect summaries",
    },
    "C07": {
        "text": "Decides the incremental-invalidation clause, not the solver: after every write to input_cs / parameters / external_space_dim the cached status is within {UNSATISFIABLE, PARTIALLY_SATISFIABLE} at every normal exit; const members never write inputs; solution()/optimizing_solution() return the cached tree only after solve() or on the edge where the cached verdict is current; every switch(status) is exhaustive. Lexicographic minimality, cut generation, compatibility and termination of the parametric simplex are NOT decided.",
        "design_ref": "DESIGN.md §3 C07",
        "note": "set_big_parameter_dimension / set_control_parameter are reasoned exceptions (see rules/c07.py assumptions); numeric solver code is outside the claim",
        "technique": "path-sensitive must-follow over clang CFG x abstract status set (custom dataflow), plus effect summaries",
    },
    "C16": {
        "text": "Decides the representation-agnostic dispatch clause, not the behaviour: on every run-time dispatch over the dynamic type of a linear-expression operand (42 sites) the Dense and Sparse arms are identical modulo Dense_Row<->Sparse_Row and the tail is unreachable; every switch over Representation has both cases with identical bodies; the explicitly specialised members exist for both rows. Necessary for 'behave identically whether dense or sparse'; the CO_Tree as an ordered map (index arithmetic, rebalancing, iterator validity) is NOT decided.",
        "design_ref": "DESIGN.md §3 C16",
        "note": "trusts clang's type resolution of the instantiated Linear_Expression_Impl<Dense_Row|Sparse_Row>; the generic Row2-templated bodies are assumed representation-agnostic through the iterator interface",
        "technique": "sibling-agreement rule over type-resolved instantiated ASTs (libTooling), with instance floors",
    },
}
