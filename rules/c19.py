"""C19 — watchdog / weight-threshold timeouts: signal-safety discipline and once-only structure.

R19.1 CRITICAL-SECTION  outside the signal handler, every use of the handler-shared state
                        (pending list, timer bookkeeping, per-object `expired`) lies inside
                        in_critical_section = true ... = false, on every path
R19.2 ONCE-ONLY         Handler::act() is called only from the two dispatch loops, and on the
                        same path the element is flagged expired and erased before the loop
                        advances
R19.3 OWNERSHIP         = R14.2 for the two constructors (run by the C14 check)
R19.4 THRESHOLD-TEST    Threshold_Watcher::check fires elements while !less_than(current, deadline)
R19.5 ORDER-OPERATORS   the comparison operators of the timer's Time type read BOTH operands
Deadline arithmetic and promptness are numeric over timer values: not decided.
"""
import os

from pplv import facts as F
from pplv import effects as E
from pplv import flow

SHARED = ("pending", "time_so_far", "last_time_requested", "alarm_clock_running")
SHARED_CALLS = ("new_watchdog_event", "remove_watchdog_event", "set_timer", "get_timer", "stop_timer")


def units():
    r = F.REPO
    return [F.Unit(os.path.join(r, "src", "Watchdog.cc"), file_re=r"(Watchdog|Time|Pending_List|Pending_Element|EList|Handler|Threshold_Watcher)"),
            F.driver_unit("watch.cc", file_re=r"(Threshold_Watcher|Pending_List|Pending_Element|EList|EList_Iterator|Doubly_Linked_Object|Watchdog|Handler|Time)_(inlines|templates|defs)\.hh"),
            F.lib_unit("Weight_Profiler.cc", name_re="^$"), ]


def _sets_flag(f, x, val):
    if x["k"] != "assign":
        return False
    l = f.deref(x["c"][0])
    r = f.deref(x["c"][1])
    return l is not None and l.get("n") == "in_critical_section" and r is not None and r["k"] == "bool" and bool(r["v"]) == val


def r19_1(ctx, fx):
    rid = "R19.1"
    ctx.rule(rid, "critical section: in Watchdog members other than the handler itself, every touch of handler-shared state (pending, time_so_far, last_time_requested, alarm_clock_running, new/remove_watchdog_event) happens with in_critical_section == true: an assignment `= true` dominates it and `= false` follows it on every normal path")
    n = 0
    users = [f for f in fx.functions if f.clsn == "Watchdog" and not f.flag("pattern")
             and f.name not in ("handle_timeout", "new_watchdog_event", "remove_watchdog_event", "set_timer",
                                "get_timer", "stop_timer", "initialize", "finalize", "reschedule")]
    seen = set()
    for f in users:
        if (f.relfile, f.line) in seen:
            continue
        seen.add((f.relfile, f.line))
        events = []
        for x in f.walk():
            if x["k"] in ("call", "mcall") and f.call_name(x) in SHARED_CALLS:
                events.append((x, "call of " + f.call_name(x)))
            elif x["k"] == "member" and x.get("n") in SHARED and f.root(x)[0] in ("this", "global"):
                events.append((x, "use of " + x["n"]))
        for x, what in events:
            n += 1
            inst = "%s %s" % (F.strip_ns(f.sig()).split("(")[0], what)
            p1 = flow.must_precede(f, x, lambda y: _sets_flag(f, y, True))
            if p1 is not None:
                ctx.violation(rid, inst, f.where(x), "%s is reached without entering the critical section: the SIGPROF handler may run in between and change the same state" % what)
                continue
            p2 = flow.must_follow(f, x, lambda y: _sets_flag(f, y, False))
            if p2 is not None:
                ctx.violation(rid, inst, f.where(x), "a path leaves the function with in_critical_section still set: " + flow.render_path(f, p2))
                continue
            ctx.ok(rid, inst, f.where(x))
    ctx.floor(rid, n, 2, "uses of handler-shared state outside the handler")


def r19_2(ctx, fx):
    rid = "R19.2"
    ctx.rule(rid, "once only: Handler::act() is invoked only by Watchdog::handle_timeout and Threshold_Watcher::check; in both, on every path after act() the element's expired flag is set and the element is erased before the next iteration")
    n = 0
    callers = {}
    for f in fx.functions:
        if f.flag("pattern"):
            continue
        for c in f.calls():
            if c["k"] == "mcall" and f.call_name(c) == "act":
                callers.setdefault((f.clsn, f.name, f.relfile, f.line), (f, []))[1].append(c)
    for (cls, name, _, _), (f, cs) in sorted(callers.items(), key=lambda kv: str(kv[0])):
        for c in cs:
            n += 1
            inst = "%s::%s calls act()" % (cls, name)
            if (cls, name) not in (("Watchdog", "handle_timeout"), ("Threshold_Watcher", "check")):
                ctx.violation(rid, inst, f.where(c), "a timeout action is run outside the two dispatch loops")
                continue
            def flag_set(y):
                return y["k"] == "assign" and "expired_flag()" in f.text(f.deref(y["c"][0])) and f.text(f.deref(y["c"][1])) == "true"
            def erased(y):
                return y["k"] in ("mcall", "call") and f.call_name(y) in ("erase", "remove_threshold")
            p1 = flow.must_follow(f, c, flag_set)
            p2 = flow.must_follow(f, c, erased)
            # and nothing re-enters the loop condition before both
            if p1 is not None or p2 is not None:
                ctx.violation(rid, inst, f.where(c), "after act() a path continues without %s: the action could run again" % ("setting expired_flag()" if p1 is not None else "erasing the element"))
            else:
                ctx.ok(rid, inst, f.where(c))
    ctx.floor(rid, n, 2, "act() call sites")
    # destructors only deregister a watcher that has not fired
    for f in fx.functions:
        if f.kind != "dtor" or f.clsn not in ("Watchdog", "Threshold_Watcher") or f.flag("pattern"):
            continue
        for c in f.calls():
            if f.call_name(c) in ("remove_watchdog_event", "remove_threshold"):
                n += 1
                inst = "~%s deregisters only if not expired" % f.clsn
                guarded = any(a["k"] == "if" and "!expired" in f.text(f.deref(a["c"][2])).replace(" ", "") and f.within(c, f.deref(a["c"][3]))
                              for a in f.ancestors(c))
                if guarded:
                    ctx.ok(rid, inst, f.where(c))
                else:
                    ctx.violation(rid, inst, f.where(c), "an already fired (hence already erased) element is removed again")


def r19_4(ctx, fx):
    rid = "R19.4"
    ctx.rule(rid, "Threshold_Watcher::check keeps firing the head while !less_than(current, head deadline): an action fires at the first check with weight >= threshold and never before")
    n = 0
    for f in fx.functions:
        if f.clsn != "Threshold_Watcher" or f.name != "check" or f.flag("pattern"):
            continue
        n += 1
        conds = [f.text(x) for x in f.walk() if x["k"] in ("while", "do", "for")]
        txt = " ".join(f.text(f.deref(x["c"][0 if x["k"] == "while" else 1])) for x in f.walk() if x["k"] in ("while", "do"))
        ok = "!less_than(" in txt.replace(" ", "").replace("Traits::", "") and "deadline()" in txt
        if ok:
            ctx.ok(rid, "Threshold_Watcher::check loop condition", f.where())
        else:
            ctx.violation(rid, "Threshold_Watcher::check loop condition", f.where(), "dispatch loop condition is `%s`" % txt)
    ctx.floor(rid, n, 1, "Threshold_Watcher::check")


def r19_5(ctx, fx):
    rid = "R19.5"
    ctx.rule(rid, "each comparison operator of the timer's Time type reads both operands in every comparison it performs (no operand compared with itself), or is defined through another one of them")
    n = 0
    seen = set()
    for f in fx.functions:
        if not f.name.startswith("operator") or f.name[8:] not in ("==", "!=", "<", "<=", ">", ">="):
            continue
        if len(f.params) != 2 or "Time" not in f.params[0]["t"] or (f.relfile, f.line) in seen:
            continue
        seen.add((f.relfile, f.line))
        n += 1
        a, b = f.params[0]["n"], f.params[1]["n"]
        inst = "Time %s" % f.name
        bad = None
        for x in f.walk():
            if x["k"] == "binop" and x.get("op") in ("==", "!=", "<", "<=", ">", ">="):
                l, r = f.deref(x["c"][0]), f.deref(x["c"][1])
                pl = set(y["n"] for y in f.walk(l) if y["k"] == "ref" and y.get("dk") == "param")
                pr = set(y["n"] for y in f.walk(r) if y["k"] == "ref" and y.get("dk") == "param")
                if pl and pl == pr and len(pl) == 1 and f.text(l) == f.text(r):
                    bad = x
        if bad is not None:
            ctx.violation(rid, inst, f.where(bad), "`%s` compares an operand with itself" % f.text(bad))
        else:
            used = set(x["n"] for x in f.walk() if x["k"] == "ref" and x.get("dk") == "param")
            if {a, b} <= used:
                ctx.ok(rid, inst, f.where())
            else:
                ctx.violation(rid, inst, f.where(), "operand `%s` is never read" % sorted({a, b} - used)[0])
    ctx.floor(rid, n, 6, "Time comparison operators")


def r19_6(ctx, fx):
    rid = "R19.6"
    ctx.rule(rid, "rebase: set_timer() overwrites last_time_requested, the only record of the interval being timed; every call of set_timer in Watchdog is therefore preceded, on every path of its function, by an update of time_so_far that folds the elapsed part of the old interval in")
    n = 0
    seen = set()
    for f in fx.functions:
        if f.clsn != "Watchdog" or f.flag("pattern") or (f.relfile, f.line) in seen:
            continue
        seen.add((f.relfile, f.line))
        for c in f.calls():
            if f.call_name(c) != "set_timer":
                continue
            n += 1
            inst = "Watchdog::%s set_timer(%s)" % (f.name, f.text(f.call_args(c)[0]) if f.call_args(c) else "")
            writes = set(wn["i"] for wn, r, how in E.writes(f) if r[-1:] == ("time_so_far",) or (r[0] == "global" and "time_so_far" in str(r)))
            p = flow.must_precede(f, c, lambda y: y["i"] in writes)
            if p is None:
                ctx.ok(rid, inst, f.where(c))
            else:
                ctx.violation(rid, inst, f.where(c), "the timer is re-armed (last_time_requested overwritten) without first adding the elapsed interval to time_so_far: every watchdog behind the head then fires late by that interval")
    ctx.floor(rid, n, 5, "set_timer call sites")


def r19_7(ctx, fx):
    rid = "R19.7"
    ctx.rule(rid, "the check hook is armed while anything is pending: in Threshold_Watcher, (a) every assignment of null to Traits::check_function is reached only through the true edge of `pending.empty()` (or the false edge of its negation) — with the hook off no watcher is ever examined, whatever weight accumulates, and (b) add_threshold() installs the hook on every path to its exit")
    n = 0
    seen = set()
    for f in fx.functions:
        if f.clsn != "Threshold_Watcher" or not f.cfg or (f.name, f.line) in seen:
            continue
        seen.add((f.name, f.line))
        for a in f.walk():
            if a["k"] != "assign":
                continue
            l, r = f.deref(a["c"][0]), f.deref(a["c"][1])
            if l is None or r is None or "check_function" not in f.text(l):
                continue
            rt = f.text(r).replace(" ", "")
            if rt in ("nullptr", "0", "NULL") or r["k"] == "nullptr":
                n += 1
                inst = "%s::%s clears check_function (line %s)" % (f.clsn, f.name, a.get("l"))

                def empty_edge(tc, taken):
                    pol = True
                    x = tc
                    while x is not None and (x["k"] in ("cast", "paren") or (x["k"] == "unop" and x.get("op") == "!")):
                        if x["k"] == "unop":
                            pol = not pol
                        x = f.deref(x["c"][0])
                    return x is not None and x["k"] == "mcall" and f.call_name(x) == "empty" and "pending" in f.text(x) and taken == pol
                p = flow.must_precede(f, a, lambda x: False, edge_satisfied=empty_edge, track_env=False)
                if p is None:
                    ctx.ok(rid, inst, f.where(a))
                else:
                    ctx.violation(rid, inst, f.where(a), "the hook is switched off on a path that has not established `pending.empty()` (%s): watchers still pending are never examined again" % flow.render_path(f, p))
        if f.name == "add_threshold":
            n += 1
            inst = "%s::add_threshold installs check_function" % f.clsn

            def installs(x):
                if x["k"] != "assign":
                    return False
                l, r = f.deref(x["c"][0]), f.deref(x["c"][1])
                return l is not None and "check_function" in f.text(l) and r is not None and "check" in f.text(r) and f.text(r).replace(" ", "") not in ("nullptr", "0")
            p = flow.Explorer(f, track_env=False).find_path("ENTRY", installs)
            if p is None:
                ctx.ok(rid, inst, f.where())
            else:
                ctx.violation(rid, inst, f.where(), "a path through add_threshold() leaves the hook as it was: %s" % flow.render_path(f, p))
    ctx.floor(rid, n, 2, "writes of the check hook")


def run(ctx):
    ctx.explanation = ("C19 structural clauses: critical-section discipline around handler-shared state, once-only dispatch structure, dispatch test of the "
                       "weight watcher, operand use in the Time comparison operators; decides these clauses, not the deadline arithmetic or promptness")
    ctx.assumptions = ["timing (never early, promptly, deadline order) is numeric over timer values: not decided beyond the comparison operators' operand use",
                       "signals are delivered only through PPL_handle_timeout, which returns at once while in_critical_section is set (read in Watchdog.cc)"]
    fx = ctx.extract(units()[:2])
    r19_1(ctx, fx)
    r19_2(ctx, fx)
    r19_4(ctx, fx)
    r19_5(ctx, fx)
    r19_6(ctx, fx)
    r19_7(ctx, fx)
