"""C10 — products denote the intersection of their components.

R10.1 BOTH-COMPONENTS  every transformer applies the same operation, with corresponding
                       arguments, to d1 and to d2
R10.2 CONNECTIVES      predicates combine the component answers with the connective that is
                       sound for an intersection
R10.3 SHRINK-ONLY      reductions only meet components with information from the partner, or
                       replace a component by EMPTY under an emptiness test
R10.4 MIRROR           the two symmetric halves of a reduction are mirror images (d1 <-> d2)
That the transferred constraints are entailed by the partner is numeric: not decided.
"""
import re

from pplv import facts as F
from pplv import effects as E
from pplv.shape import canon, first_diff


def units(tier):
    return [F.driver_unit("domains.cc", file_re=r"Partially_Reduced_Product_(inlines|templates)\.hh"),
            F.driver_unit("all_headers.cc", file_re=r"Partially_Reduced_Product_(inlines|templates)\.hh",
                          name_re=r"product_reduce|shrink_to_congruence_no_check")]


def comp_calls(f, comp):
    """Ordered (name, normalised argument texts) of member calls on component `comp` of *this."""
    out = []
    for c in f.calls():
        if c["k"] != "mcall":
            continue
        obj = f.call_obj(c)
        if obj is None or f.root(obj) != ("this", comp):
            continue
        args = [re.sub(r"\b(y|x)\.d[12]\b", r"\1.dX", f.text(a)) for a in f.call_args(c)]
        out.append((f.call_name(c), tuple(args), c))
    return out


BOTH_EXC = {
    "upper_bound_assign_if_exact": "copy-then-commit: works on copies of both components and commits both only when both joins are exact (checked as its own shape)",
    "ascii_load": "the two components are loaded in sequence with a separator check in between",
    "ascii_dump": "the two components are dumped in sequence",
    "OK": "checks each component",
}


PAIRED_NAMES = {   # one component may recycle the argument while the other must then refine with it
    "add_recycled_constraints": "refine_with_constraints", "refine_with_constraints": "add_recycled_constraints",
    "add_recycled_congruences": "refine_with_congruences", "refine_with_congruences": "add_recycled_congruences",
}


def _strip_defaults(f, call):
    """Argument texts of a call, without trailing arguments that mention no parameter of f
    (default arguments of the component operation, e.g. Grid's modulus)."""
    args = f.call_args(call)
    out = [re.sub(r"\b(y|x)\.d[12]\b", r"\1.dX", f.text(a)) for a in args]
    while args and not any(x["k"] == "ref" and x.get("dk") in ("param", "local") for x in f.walk(args[-1])) \
            and f.deref(args[-1])["k"] in ("call", "mcall", "construct"):
        args = args[:-1]
        out = out[:-1]
    return tuple(out)


def r10_1(ctx, fx):
    rid = "R10.1"
    ctx.rule(rid, "in every non-const member of Partially_Reduced_Product, each statement block that applies an operation to component d1 applies the same operation with corresponding arguments to d2 (y.d1 <-> y.d2; recycle/refine pairs allowed), in every branch")
    n = 0
    for f in fx.functions:
        if f.clsn != "Partially_Reduced_Product" or f.flag("pattern") or f.kind in ("ctor", "dtor") or f.flag("const"):
            continue
        blocks = [b for b in f.walk() if b["k"] == "block"]
        touched = False
        problems = []
        for b in blocks:
            ops = {"d1": [], "d2": []}
            for st in b.get("c", []):
                st = f.deref(st)
                if st is None:
                    continue
                # direct statements only (also `x = d.op(...)` and `if (!d.op()) return`)
                cands = [st] if st["k"] == "mcall" else [c for c in f.calls(st) if c["k"] == "mcall"] if st["k"] in ("assign", "decl", "return") else []
                for c in cands:
                    obj = f.call_obj(c)
                    if obj is None:
                        continue
                    r = f.root(obj)
                    if r in (("this", "d1"), ("this", "d2")) and not c.get("cconst"):
                        ops[r[1]].append((f.call_name(c), _strip_defaults(f, c), c))
            if not ops["d1"] and not ops["d2"]:
                continue
            touched = True
            a = sorted((nm, ar) for nm, ar, _ in ops["d1"])
            bb = sorted((nm, ar) for nm, ar, _ in ops["d2"])
            if a == bb:
                continue
            a2 = sorted((PAIRED_NAMES.get(nm, nm), ar) for nm, ar in a)
            if a2 == bb:
                continue
            problems.append((b, a, bb))
        if not touched:
            continue
        n += 1
        inst = re.sub(r"Partially_Reduced_Product<.*?>>::", "Partially_Reduced_Product::", F.strip_ns(f.sig()))
        if not problems:
            ctx.ok(rid, inst, f.where())
        elif f.name in BOTH_EXC:
            ctx.excepted(rid, inst, f.where(), BOTH_EXC[f.name])
        else:
            b, a, bb = problems[0]
            ctx.violation(rid, inst, f.where(b), "components are treated differently in one branch: d1 gets %s, d2 gets %s" % (
                ["%s(%s)" % (m, ", ".join(ar)) for m, ar in a if (m, ar) not in bb][:3],
                ["%s(%s)" % (m, ", ".join(ar)) for m, ar in bb if (m, ar) not in a][:3]))
    ctx.floor(rid, n, 35, "transformers touching the components")


# soundness direction of definite answers for an intersection (definitions.dox, PRP docs)
CONNECTIVE = {
    "is_empty": "||", "is_universe": "&&", "is_topologically_closed": "&&", "is_disjoint_from": "||",
    "is_discrete": "||", "is_bounded": "||", "bounds_from_above": "||", "bounds_from_below": "||",
    "constrains": "||", "contains": "&&",
}


def r10_2(ctx, fx):
    rid = "R10.2"
    ctx.rule(rid, "predicate connectives: the returned combination of the two component answers uses the connective sound for an intersection (empty/disjoint/bounded/discrete/constrains: either suffices; universe/closed/contains: both needed)")
    n = 0
    for f in fx.functions:
        if f.clsn != "Partially_Reduced_Product" or f.flag("pattern") or f.name not in CONNECTIVE:
            continue
        for r in f.walk():
            if r["k"] != "return" or not r.get("c"):
                continue
            e = f.deref(r["c"][0])
            if e is None or e["k"] != "binop" or e.get("op") not in ("&&", "||"):
                continue
            l, rr = f.deref(e["c"][0]), f.deref(e["c"][1])
            if not (l and rr and l["k"] == "mcall" and rr["k"] == "mcall"):
                continue
            n += 1
            inst = "Partially_Reduced_Product::%s" % f.name
            want = CONNECTIVE[f.name]
            comps = sorted([f.root(f.call_obj(l)), f.root(f.call_obj(rr))])
            ok = e["op"] == want and f.call_name(l) == f.name and f.call_name(rr) == f.name \
                and comps == [("this", "d1"), ("this", "d2")]
            if ok:
                ctx.ok(rid, inst, f.where(r))
            else:
                ctx.violation(rid, inst, f.where(r), "returns `%s`; for an intersection `%s` must combine d1.%s and d2.%s with `%s`" % (
                    f.text(e)[:80], f.name, f.name, f.name, want))
    ctx.floor(rid, n, 10, "predicate connectives")


MEETS = ("refine_with_constraint", "refine_with_constraints", "refine_with_congruence", "refine_with_congruences",
         "add_constraint", "add_constraints", "add_congruence", "add_congruences", "intersection_assign")
SUBREDUCTIONS = ("product_reduce", "shrink_to_congruence_no_check")


def _is_empty_ctor(f, name):
    v = f.var_decl(name)
    if v is None:
        return False
    init = v.get("c", ())
    return bool(init) and "EMPTY" in f.text(init[0])


def r10_3(ctx, fx):
    rid = "R10.3"
    ctx.rule(rid, "reductions only shrink: inside product_reduce / shrink_to_congruence_no_check a component is changed only by a meet (refine_with_* / add_* / intersection_assign), by a nested reduction, or by a swap with a freshly built EMPTY element")
    n = 0
    seen = set()
    for f in fx.functions:
        if f.name not in SUBREDUCTIONS:
            continue
        key = (f.relfile, f.line)
        if key in seen:
            continue
        seen.add(key)
        for wn, r, how in E.writes(f):
            if r[0] != "param" or r[1] not in ("d1", "d2"):
                continue
            n += 1
            inst = "%s %s on %s" % (F.strip_ns(f.q).split("<")[0] + "::" + f.name, how, r[1])
            kind, _, name = how.partition(":")
            ok = False
            if kind in ("call", "depcall") and name in MEETS:
                ok = True
            elif kind == "arg" and name in SUBREDUCTIONS:
                ok = True
            elif kind in ("call", "depcall") and name in ("is_empty", "minimized_constraints", "minimized_congruences",
                                                           "space_dimension", "frequency", "maximize", "minimize",
                                                           "relation_with"):
                ok = True   # observers (constness unknown in the template pattern)
            elif kind == "arg" and name == "swap":
                other = [f.deref(a) for a in f.call_args(wn)]
                locs = [a["n"] for a in other if a is not None and a["k"] == "ref" and a.get("dk") == "local"]
                ok = bool(locs) and all(_is_empty_ctor(f, x) for x in locs)
            if ok:
                ctx.ok(rid, inst, f.where(wn))
            else:
                ctx.violation(rid, inst, f.where(wn), "a reduction changes component %s through `%s`, which is not a meet: the intersection may lose points" % (r[1], f.text(wn)[:60]))
    ctx.floor(rid, n, 20, "component updates inside reductions")


def _mirror_subst(which):
    a, b = ("1", "2") if which == 0 else ("2", "1")
    return [(r"^(d|cg|cgs)%s$" % a, r"\1_P"), (r"^(d|cg|cgs)%s$" % b, r"\1_Q")]


def r10_4(ctx, fx):
    rid = "R10.4"
    ctx.rule(rid, "mirror halves: consecutive top-level loops of a reduction that process the two components symmetrically are identical modulo d1 <-> d2")
    n = 0
    seen = set()
    for f in fx.functions:
        if f.name != "product_reduce" or not f.flag("pattern"):
            continue
        key = (f.relfile, f.line)
        if key in seen:
            continue
        seen.add(key)
        loops = [f.deref(c) for c in f.ast.get("c", []) if f.deref(c) is not None and f.deref(c)["k"] == "for"]
        if len(loops) < 2:
            continue
        for i in range(0, len(loops) - 1, 2):
            n += 1
            a = canon(f, loops[i], _mirror_subst(0), types=False)
            b = canon(f, loops[i + 1], _mirror_subst(1), types=False)
            inst = "%s loops %d/%d" % (F.strip_ns(f.q).split("<")[0], i + 1, i + 2)
            if a == b:
                ctx.ok(rid, inst, f.where(loops[i]))
            else:
                ctx.violation(rid, inst, f.where(loops[i + 1]), "the two symmetric halves differ: %s" % first_diff(a, b))
    ctx.floor(rid, n, 2, "mirrored loop pairs")


def r10_5(ctx, fx):
    import re
    from pplv import absint
    rid = "R10.5"
    ctx.rule(rid, "the product keeps the tighter bound: the product denotes the intersection of its components, so the supremum of an expression on it is at most the SMALLER of the two components' suprema and its infimum at least the LARGER of the two infima. maximize / minimize of Partially_Reduced_Product (with and without the generator argument) are interpreted on the order of the two component values (first below, equal, above the second; both bounded): the cross-multiplied comparison `v2_d * v1_n OP v1_d * v2_n` is decided by that order, and the values copied into the result must be those of the component with the tighter bound")
    n = 0
    seen = set()
    for f in fx.functions:
        if f.clsn != "Partially_Reduced_Product" or f.name not in ("maximize", "minimize") or not f.flag("pattern") or not f.cfg:
            continue
        if (f.relfile, f.line) in seen:
            continue
        seen.add((f.relfile, f.line))
        pn = [p["n"] for p in f.params]
        out_n = pn[1]
        pre = "sup" if f.name == "maximize" else "inf"
        bad = []
        for rel in (-1, 0, 1):
            def atom(e, env, it, rel=rel):
                t = f.text(e).replace(" ", "")
                k = e["k"]
                if k == "ref":
                    m = re.match(r"^%s([12])_n$" % pre, t)
                    if m:
                        return {m.group(1)}
                    return None
                if k in ("binop", "ocall") and e.get("op") in ("<", ">", "<=", ">="):
                    m = re.match(r"^%s2_d\*%s1_n(<=|>=|<|>)%s1_d\*%s2_n$" % (pre, pre, pre, pre), t)
                    if m:      # v1 OP v2 (denominators are positive)
                        return {{"<": rel < 0, ">": rel > 0, "<=": rel <= 0, ">=": rel >= 0}[m.group(1)]}
                    m = re.match(r"^%s1_d\*%s2_n(<=|>=|<|>)%s2_d\*%s1_n$" % (pre, pre, pre, pre), t)
                    if m:      # v2 OP v1
                        return {{"<": -rel < 0, ">": -rel > 0, "<=": -rel <= 0, ">=": -rel >= 0}[m.group(1)]}
                    return None
                if k in ("call", "mcall"):
                    cn = f.call_name(e).lstrip("~")
                    if cn == "is_empty":
                        return {False}
                    if cn in ("maximize", "minimize") and re.match(r"^d[12]\.", t):
                        return {True}
                return None
            it = absint.CfgInterp(f, atom)
            try:
                got = set()
                for ret, env, ev_ in it.run({out_n: None}):
                    v = it.ev(ret["c"][0], env)
                    if v == {True}:
                        if env.get(out_n) is None:
                            raise absint.Unknown("`%s` is not assigned on a path returning true" % out_n)
                        got |= set(env[out_n])
            except absint.Unknown as ex:
                raise F.AnalysisBroken("R10.5: %s: %s — the interpretation does not know this form" % (f.name, ex))
            n += 1
            if f.name == "maximize":
                want = {"1"} if rel < 0 else ({"2"} if rel > 0 else {"1", "2"})
            else:
                want = {"1"} if rel > 0 else ({"2"} if rel < 0 else {"1", "2"})
            if not got or not got <= want:
                bad.append((rel, got, want))
        inst = "Partially_Reduced_Product::%s(%s)" % (f.name, ", ".join(pn))
        if bad:
            for rel, got, want in bad:
                txt = {-1: "below", 0: "equal to", 1: "above"}[rel]
                ctx.violation(rid, "%s, first component's value %s the second's" % (inst, txt), f.where(), "the result takes the value of component %s; the %s of the intersection is bounded by component %s" % (
                    " or ".join(sorted(got)) or "?", "supremum" if f.name == "maximize" else "infimum", " or ".join(sorted(want))))
        else:
            ctx.ok(rid, inst, f.where())
    ctx.floor(rid, n, 12, "orderings of the two component values interpreted")


def r10_6(ctx, fx):
    import itertools
    from pplv import absint
    rid = "R10.6"
    ctx.rule(rid, "the product asserts about a constraint exactly what a component asserts: for the intersection of two components, `is included`, `is disjoint` and `saturates` hold as soon as ONE component has them and nothing lets the product conclude a flag neither component reports (a component lying on the hyperplane of a strict inequality saturates it and is disjoint from it, not included). relation_with(Constraint) and relation_with(Congruence) are interpreted on the 64 pairs of component answers: the result is the union of the two")
    flags = ("is_included", "is_disjoint", "saturates")
    subsets = [frozenset(c) for k in range(4) for c in itertools.combinations(flags, k)]
    n = 0
    seen = set()
    for f in fx.functions:
        if f.clsn != "Partially_Reduced_Product" or f.name != "relation_with" or not f.flag("pattern") or not f.cfg or len(f.params) != 1:
            continue
        if "Generator" in f.params[0]["t"] or (f.relfile, f.line) in seen:
            continue
        seen.add((f.relfile, f.line))
        bad = []
        for r1 in subsets:
            for r2 in subsets:
                def atom(e, env, it, r1=r1, r2=r2):
                    k = e["k"]
                    t = f.text(e).replace(" ", "")
                    if k in ("binop", "ocall") and e.get("op") == "&&" and "Poly_Con_Relation" in (e.get("t") or ""):
                        a, b = e["c"][-2:]
                        return {x | y for x in it.ev(a, env) for y in it.ev(b, env)}
                    if k in ("call", "mcall"):
                        cn = f.call_name(e).lstrip("~")
                        if "Poly_Con_Relation" in (e.get("ccls") or "") and cn in flags + ("strictly_intersects", "nothing") and not f.call_args(e):
                            return {frozenset() if cn == "nothing" else frozenset((cn,))}
                        if cn == "implies" and f.call_obj(e) is not None:
                            o = f.text(f.deref(f.call_obj(e))).strip()
                            if o in ("relation1", "relation2"):
                                arg = it.ev(f.call_args(e)[0], env)
                                rel = r1 if o == "relation1" else r2
                                return {a_ <= rel for a_ in arg}
                        if cn == "relation_with" and t.startswith(("d1.", "d2.")):
                            return {r1 if t.startswith("d1.") else r2}
                    return None
                it = absint.CfgInterp(f, atom)
                try:
                    got = set()
                    for ret, env, ev_ in it.run({}):
                        got |= it.ev(ret["c"][0], env)
                except absint.Unknown as ex:
                    raise F.AnalysisBroken("R10.6: %s: %s — the interpretation does not know this form" % (f.name, ex))
                n += 1
                if got != {r1 | r2}:
                    bad.append((r1, r2, got))
        inst = "Partially_Reduced_Product::relation_with(%s)" % f.params[0]["t"].split("::")[-1].replace("&", "").replace("const", "").strip()
        show = lambda r: " && ".join(sorted(r)) if r else "nothing"
        if bad:
            for r1, r2, got in bad[:6]:
                ctx.violation(rid, "%s on (%s ; %s)" % (inst, show(r1), show(r2)), f.where(), "the components answer %s and %s, the product answers %s" % (show(r1), show(r2), " or ".join(sorted(show(g) for g in got))))
        else:
            ctx.ok(rid, inst, f.where())
    ctx.floor(rid, n, 128, "pairs of component answers interpreted")


def run(ctx):
    ctx.explanation = ("C10 structural clauses on Partially_Reduced_Product and its four reductions: both components transformed alike, sound "
                       "connectives for predicates, reductions shrink only, symmetric halves mirror each other; decides these clauses, not that the "
                       "constraints transferred between components are entailed")
    ctx.assumptions = ["entailment of the information a reduction transfers (frequency / congruence arithmetic) is numeric: not decided",
                       "judged on Partially_Reduced_Product<C_Polyhedron, Grid, Constraints_Reduction> and on the reduction templates as patterns"]
    fx = ctx.extract(units(ctx.tier))
    r10_1(ctx, fx)
    r10_2(ctx, fx)
    r10_3(ctx, fx)
    r10_4(ctx, fx)
    r10_5(ctx, fx)
    r10_6(ctx, fx)
    # the worker behind refine_with_constraints(), which the constraints-based reductions call on a Box component
    from rules.c03 import r3_9
    r3_9(ctx)
