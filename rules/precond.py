"""Asserted-precondition discharge for the lazy double description of Polyhedron.

The private workers of Polyhedron state, in PPL_ASSERTs at the top of their bodies, which lazy
facts they need about the receiver and about their Polyhedron arguments (nothing pending,
constraints up to date, generators minimized, ...).  The suite is built without assertions and
a stale description is silently read instead.  The rule mines those entry assertions from the
assertion-enabled view on every run and checks, along every CFG path of every caller (release
view), that the abstract lazy state of the object handed over entails each asserted atom.
"""
from pplv import facts as F
from pplv import flow

FILES = ["Polyhedron_nonpublic.cc", "Polyhedron_public.cc", "Polyhedron_chdims.cc", "Polyhedron_widenings.cc"]
CLS = "Polyhedron"
HEADER_RE = r"Polyhedron_(inlines|templates|chdims_templates)\.hh"
ANCHOR = ("select_H79_constraints", 3)
MIN_REQ = 15
DISCARDS = ("clear_generators_up_to_date", "clear_constraints_up_to_date", "clear_constraints_minimized", "clear_generators_minimized")
# preconditions a worker relies on without asserting them (stated here, discharged at its call sites)
IMPLICIT_REQ = {
    # collapsing an object of positive dimension to the zero-dimensional universe asserts that it is
    # not empty: the witness is a complete generator description (the zero-dimensional branches are
    # pruned by the explorer, so only collapsing call sites are judged)
    ("set_zero_dim_univ", 0): [("this", "NE", True)],
    # withdrawing a description discards whatever only it knows (its pending rows included): the other
    # description must be complete at that point, or the value of the object changes
    ("clear_generators_up_to_date", 0): [("this", "CU", True), ("this", "PG", False), ("this", "PC", False)],
    ("clear_constraints_up_to_date", 0): [("this", "GU", True), ("this", "PC", False), ("this", "PG", False)],
    # rows become pending only on two minimized descriptions (Status::OK); the incremental conversion that
    # integrates them later starts from exactly that state
    ("set_constraints_pending", 0): [("this", "CM", True), ("this", "GM", True), ("this", "PG", False)],
    ("set_generators_pending", 0): [("this", "CM", True), ("this", "GM", True), ("this", "PC", False)],
    ("clear_constraints_minimized", 0): [("this", "PC", False), ("this", "PG", False)],
    ("clear_generators_minimized", 0): [("this", "PC", False), ("this", "PG", False)],
}

# predicate -> (atom, value when the predicate is true)
PRED = {
    "has_pending_generators": "PG", "has_pending_constraints": "PC",
    "constraints_are_up_to_date": "CU", "generators_are_up_to_date": "GU",
    "constraints_are_minimized": "CM", "generators_are_minimized": "GM",
    "sat_c_is_up_to_date": "SC", "sat_g_is_up_to_date": "SG",
    "marked_empty": "ME",
}
ALL_GOOD = {"PG": False, "PC": False, "CU": True, "GU": True, "CM": True, "GM": True}
# effect of (possibly const) members on the lazy facts of their receiver
EFFECT = {
    "process_pending_generators": ALL_GOOD, "process_pending_constraints": ALL_GOOD, "process_pending": ALL_GOOD,
    "minimize": ALL_GOOD, "update_constraints": ALL_GOOD, "update_generators": ALL_GOOD,
    "strongly_minimize_constraints": dict(ALL_GOOD), "strongly_minimize_generators": dict(ALL_GOOD),
    "remove_pending_to_obtain_constraints": {"PG": False, "PC": False, "CU": True},
    "remove_pending_to_obtain_generators": {"PG": False, "PC": False, "GU": True},
    "set_constraints_up_to_date": {"CU": True}, "set_generators_up_to_date": {"GU": True},
    "set_constraints_minimized": {"CM": True, "CU": True}, "set_generators_minimized": {"GM": True, "GU": True},
    "set_constraints_pending": {"PC": True, "PG": False}, "set_generators_pending": {"PG": True, "PC": False},
    "clear_pending_constraints": {"PC": False}, "clear_pending_generators": {"PG": False},
    "clear_constraints_up_to_date": {"CU": False, "CM": False, "PC": False, "SC": False, "SG": False},
    "clear_generators_up_to_date": {"GU": False, "GM": False, "PG": False, "SC": False, "SG": False},
    # a claim withdrawn by the code itself ("CM!" / "GM!") says nothing about pending rows: the invariant
    # `pending => both minimized' was true of the state before the call, not of the one it leaves
    "clear_constraints_minimized": {"CM": False, "CM!": True}, "clear_generators_minimized": {"GM": False, "GM!": True},
    "set_sat_c_up_to_date": {"SC": True}, "set_sat_g_up_to_date": {"SG": True},
    "clear_sat_c_up_to_date": {"SC": False}, "clear_sat_g_up_to_date": {"SG": False},
    "update_sat_c": {"SC": True}, "update_sat_g": {"SG": True},
    "obtain_sorted_constraints": {}, "obtain_sorted_generators": {},
    "obtain_sorted_constraints_with_sat_c": {"SC": True}, "obtain_sorted_generators_with_sat_g": {"SG": True},
    "OK": {},
}
# the bool result of these is false exactly when the object was found empty
EMPTY_IF_FALSE = ("minimize", "process_pending_constraints", "process_pending_generators", "process_pending",
                  "strongly_minimize_constraints", "strongly_minimize_generators", "update_generators",
                  "remove_pending_to_obtain_generators", "remove_pending_to_obtain_constraints")


def entails(st, atom, val):
    """Does the abstract state (dict atom -> bool) entail atom == val, using the class invariants
    (pending rows exist only on one side and only on top of two minimized, up-to-date descriptions)?"""
    if st.get(atom) is val:
        return True
    if atom == "ME" and val is False:
        # the status of a marked-empty object claims nothing else; a known non-empty object is not marked empty
        return any(st.get(a) is True for a in ("NE", "CU", "GU", "CM", "GM", "PC", "PG", "SP"))
    if atom == "NE" and val is True:
        # a complete generator description of an object not marked empty holds a point
        return entails(st, "GU", True) and entails(st, "PC", False)
    # rows are pending only on top of two up-to-date (minimized) descriptions, and on one side only
    observed_not_min = (st.get("CM") is False and not st.get("CM!")) or (st.get("GM") is False and not st.get("GM!"))
    if atom == "PG" and val is False:
        return st.get("PC") is True or st.get("GU") is False or st.get("CU") is False or observed_not_min
    if atom == "PC" and val is False:
        return st.get("PG") is True or st.get("GU") is False or st.get("CU") is False or observed_not_min
    if atom == "PG" and val is True:
        return st.get("SP") is True and st.get("PC") is False
    if atom == "PC" and val is True:
        return st.get("SP") is True and st.get("PG") is False
    if atom in ("CM", "GM") and val is True:
        return st.get("PC") is True or st.get("PG") is True
    # a non-empty polyhedron always has at least one description up to date (Polyhedron::OK)
    if atom == "CU" and val is True:
        return st.get("CM") is True or st.get("PC") is True or st.get("PG") is True or st.get("GU") is False
    if atom == "GU" and val is True:
        return st.get("GM") is True or st.get("PG") is True or st.get("PC") is True or st.get("CU") is False
    return False


def obj_key(f, n):
    """Abstract object designated by an expression: 'this', ('param', name) or None."""
    if n is None:
        return "this"
    r = f.root(n)
    if r == ("this",):
        return "this"
    if len(r) == 2 and r[0] == "param":
        return ("param", r[1])
    return None


def literal(f, n):
    """[!]O.pred() -> (object key, atom, value) or a list for has_something_pending."""
    n = f.deref(n)
    pol = True
    while n is not None and (n["k"] == "cast" or (n["k"] == "unop" and n.get("op") == "!") or n["k"] == "paren"):
        if n["k"] == "unop":
            pol = not pol
        n = f.deref(n["c"][0])
    if n is None or n["k"] != "mcall":
        return None
    nm = f.call_name(n)
    o = obj_key(f, f.call_obj(n))
    if o is None:
        return None
    if nm in PRED:
        return [(o, PRED[nm], pol)]
    if nm == "has_something_pending" and not pol:
        return [(o, "PG", False), (o, "PC", False)]
    if nm == "has_something_pending" and pol:
        return [(o, "SP", True)]
    if nm == "can_have_something_pending" and pol:
        return [(o, "CM", True), (o, "GM", True)]
    return None


def conjuncts(f, n):
    n = f.deref(n)
    while n is not None and n["k"] in ("cast", "paren") and n.get("c"):
        n = f.deref(n["c"][0])
    if n is not None and n["k"] == "binop" and n.get("op") == "&&":
        return conjuncts(f, n["c"][0]) + conjuncts(f, n["c"][1])
    return [n]


def entry_assertions(f):
    """Atoms asserted by the leading PPL_ASSERTs of f (debug view): [(object key, atom, value)]."""
    out = []
    for st in f.ast.get("c", ()):
        st = f.deref(st)
        if st is None:
            continue
        if st["k"] == "decl":
            continue
        if st["k"] != "do":
            break
        conds = [x for x in f.walk(st) if x["k"] == "cond" and any(f.call_name(c) == "ppl_assertion_failed" for c in f.calls(x))]
        if not conds:
            break
        for c in conds:
            for lit in conjuncts(f, c["c"][0]):
                l = literal(f, lit)
                if l:
                    out.extend(l)
    return out


def debug_units():
    return [F.lib_unit(n, view="debug") for n in FILES] + \
        [F.driver_unit("domains.cc", view="debug", file_re=HEADER_RE)]


# non-const asserted workers that change their receiver only by a final, committing m_swap after
# which every caller returns (checked by R8.2): the receiver's lazy facts survive a `false` result
KEEPS_RECEIVER_UNLESS_COMMITTED = ("BHRZ03_combining_constraints", "BHRZ03_evolving_points", "BHRZ03_evolving_rays")


def mine(ctx):
    """{member name: [(object index: 'this' | parameter position, atom, value)]} from the debug view."""
    fx = ctx.extract(debug_units())
    req = {}
    for f in fx.functions:
        if f.clsn != CLS or f.flag("pattern"):
            continue
        atoms = entry_assertions(f)
        if not atoms:
            continue
        pos = {p["n"]: i for i, p in enumerate(f.params)}
        lst = []
        for o, a, v in atoms:
            if o == "this":
                lst.append(("this", a, v))
            elif o[1] in pos:
                lst.append((pos[o[1]], a, v))
        if lst:
            req[(f.name, len(f.params))] = sorted(set(lst), key=str)
    for k, v in IMPLICIT_REQ.items():
        req[k] = sorted(set(req.get(k, []) + list(v)), key=str)
    return req


NAMES = {"ME": "marked_empty()", "NE": "<known non-empty>", "SP": "has_something_pending()", "PG": "has_pending_generators()", "PC": "has_pending_constraints()", "CU": "constraints_are_up_to_date()",
         "GU": "generators_are_up_to_date()", "CM": "constraints_are_minimized()", "GM": "generators_are_minimized()",
         "SC": "sat_c_is_up_to_date()", "SG": "sat_g_is_up_to_date()"}


def show(atom, val):
    return ("" if val else "!") + NAMES[atom]


NONCONTENT = ("space_dimension", "topology", "is_necessarily_closed", "total_memory_in_bytes", "external_memory_in_bytes",
              "representation", "OK", "ascii_dump", "is_sorted", "first_pending_row", "num_pending_rows", "check_sorted")
SKIP_FUNCS = ("OK", "ascii_dump", "ascii_load", "m_swap", "operator=", "total_memory_in_bytes", "external_memory_in_bytes",
              "print", "set_empty", "set_zero_dim_univ")
# non-const members of a description that add rows to it: the rows already there must be current
# (linear maps and dimension changes are applied uniformly to all rows, pending ones included, and need no such state)
ROW_EDITS = ("insert", "insert_pending", "merge_rows_assign", "add_row", "add_rows", "add_recycled_rows",
             "add_recycled_row", "add_pending_row", "add_pending_rows", "add_recycled_pending_rows", "add_recycled_pending_row")
NEED = {"con_sys": (("CU", True), ("PG", False)), "gen_sys": (("GU", True), ("PC", False))}


def direct_reads(f):
    """{node id of a CFG element: (object key, 'con_sys'|'gen_sys', node)} for content reads of a description."""
    out = {}
    if f.name in SKIP_FUNCS or f.kind in ("ctor", "dtor"):
        return out
    for m in f.walk():
        if m["k"] != "member" or m.get("n") not in ("con_sys", "gen_sys"):
            continue
        r = f.root(m)
        if len(r) < 2 or r[-1] != m["n"]:
            continue
        o = "this" if r[0] == "this" and len(r) == 2 else (("param", r[1]) if r[0] == "param" and len(r) == 3 else None)
        if o is None:
            continue
        p = f.parent.get(m["i"])
        while p is not None and p["k"] in ("cast", "paren"):
            m2 = p
            p = f.parent.get(p["i"])
        if p is None:
            continue
        content = False
        if p["k"] == "mcall" and f.call_obj(p) is not None and f.within(m, f.call_obj(p)):
            content = (bool(p.get("cconst")) and f.call_name(p) not in NONCONTENT) or \
                (not p.get("cconst") and f.call_name(p) in ROW_EDITS)
        elif p["k"] == "ocall" and p.get("op") == "[]":
            content = True
        elif p["k"] in ("call", "mcall", "construct", "ocall"):
            args = f.call_args(p)
            pm = p.get("pm", "")
            for a_, md in zip(args, pm):
                if a_ is not None and f.within(m, a_) and md in "cv":
                    content = True
        elif p["k"] == "var" and "const" in p.get("t", ""):
            content = True
        elif p["k"] == "return":
            content = True
        if not content:
            continue
        # attach to the nearest enclosing CFG element
        e = m
        while e is not None and f.cfg_pos(e) is None:
            e = f.parent.get(e["i"])
        if e is not None:
            out.setdefault(m["i"] if f.cfg_pos(m) is not None else e["i"], (o, m["n"], m))
    return out


# non-const members that can only enlarge the set (or map it one to one): a non-empty object stays non-empty
NE_PRESERVING = ("add_generator", "add_generators", "add_recycled_generators", "add_grid_generator", "add_grid_generators",
                 "add_recycled_grid_generators", "affine_image", "affine_preimage_of_nonempty_dummy", "unconstrain",
                 "add_space_dimensions_and_embed", "add_space_dimensions_and_project", "topological_closure_assign",
                 "poly_hull_assign", "upper_bound_assign", "time_elapse_assign", "expand_space_dimension")


def _result_ignored(f, call):
    p = f.parent.get(call["i"])
    while p is not None and p["k"] in ("cast", "paren"):
        if p["k"] == "cast" and "void" in p.get("t", ""):
            return True
        p = f.parent.get(p["i"])
    return p is None or p["k"] in ("block", "case", "default", "for", "while", "do", "try") or \
        (p["k"] == "if" and f.deref(p["c"][2]) is not call and not f.within(call, f.deref(p["c"][2])))


def discharge(ctx, rid, exceptions=None, judged_atoms=("PG", "PC", "CU", "GU", "NE"), direct=False, only_callees=None):
    exceptions = exceptions or {}
    req = mine(ctx)
    ctx.require(rid, ANCHOR in req and len(req) >= MIN_REQ,
                "entry assertions on the lazy state were not found in the assertion-enabled view (%d members)" % len(req))
    fx = ctx.extract(debug_units())
    n_sites = 0
    n_atoms = 0
    skipped = 0
    seen = set()
    for f in fx.functions:
        if f.clsn != CLS or f.flag("pattern") or not f.cfg or (f.relfile, f.line) in seen:
            continue
        seen.add((f.relfile, f.line))
        sites = {}
        for c in f.calls():
            if c["k"] != "mcall":
                continue
            key = (f.call_name(c), len(f.call_args(c)))
            if key not in req or (only_callees is not None and key[0] not in only_callees):
                continue
            ro = obj_key(f, f.call_obj(c))
            obl = []
            for o, a, v in req[key]:
                if a not in judged_atoms and (o, a, v) not in IMPLICIT_REQ.get(key, ()):
                    continue      # tabled implicit preconditions are judged whatever their atom
                tgt = ro if o == "this" else obj_key(f, f.call_args(c)[o])
                if tgt is None:
                    skipped += 1
                    continue
                obl.append((tgt, a, v))
            if obl:
                sites[c["i"]] = (c, obl)
        # literals of the function's own assertions (debug view): node id of the literal -> assertion node
        in_assert = {}
        for a_ in f.walk():
            if a_["k"] == "cond" and len(a_.get("c", ())) == 3 and any(f.call_name(c) == "ppl_assertion_failed" for c in f.calls(f.deref(a_["c"][2]))):
                for lit in conjuncts(f, a_["c"][0]):
                    if lit is not None and literal(f, lit):
                        in_assert[lit["i"]] = a_
        reads = direct_reads(f) if direct else {}
        if only_callees is not None and not sites:
            continue
        if not sites and not in_assert and not reads:
            continue
        own = req.get((f.name, len(f.params)), [])
        start = {}
        for o, a, v in own:
            k = "this" if o == "this" else ("param", f.params[o]["n"])
            start[(k, a)] = v
        failures = {}
        afail = {}

        def apply(env, o, eff):
            env = dict(env)
            # what the invariants imply now stays true after the effect unless the effect itself changes it
            # (integrating pending rows clears the pending flag, not the two up-to-date flags it implied)
            raw = {k[1]: v for k, v in env.items() if k[0] == o}
            for a in ("CU", "GU"):
                if a not in eff and a not in raw and entails(raw, a, True):
                    env[(o, a)] = True
            for a in ("PC", "PG"):
                if a not in eff and a not in raw and entails(raw, a, False):
                    env[(o, a)] = False
            for a, v in eff.items():
                env[(o, a)] = v
                if a in ("CM", "GM") and (a + "!") not in eff:
                    env.pop((o, a + "!"), None)
            if eff:
                # a flag remembered in a bool local (`const bool adding_pending = can_have_something_pending()`)
                # speaks of the state before this change
                for k in [k for k, v in env.items() if k[0] == "bind" and v[0] == o]:
                    del env[k]
            return env

        def forget(env, o):
            return {k: v for k, v in env.items() if k[0] != o and not (k[0] == "bind" and v[0] == o)}

        def state_of(env, o):
            if env.get((o, "ME?")):
                return {}
            return {k[1]: v for k, v in env.items() if k[0] == o}

        rfail = {}

        def elem_effect(x, env):
            if x["i"] in reads:
                o_, side, m_ = reads[x["i"]]
                for a_, v_ in NEED[side]:
                    if not entails(state_of(env, o_), a_, v_):
                        rfail.setdefault(x["i"], ((o_, a_, v_), dict(state_of(env, o_))))
            if x["k"] in ("mcall", "call", "ocall", "construct"):
                if x["i"] in sites:
                    c, obl = sites[x["i"]]
                    for tgt, a, v in obl:
                        st_ = state_of(env, tgt)
                        if f.call_name(c) in DISCARDS and env.get((tgt, "ME?")):
                            # a possibly empty object (unexamined `false' answer) loses nothing by the discard:
                            # judge the case where it is not empty
                            st_ = {k[1]: v2 for k, v2 in env.items() if k[0] == tgt and k[1] != "ME?"}
                        if not entails(st_, a, v):
                            failures.setdefault(x["i"], {}).setdefault((tgt, a, v), dict(st_))
                if x["k"] == "mcall":
                    o = obj_key(f, f.call_obj(x))
                    nm = f.call_name(x)
                    if o is not None:
                        if nm in EFFECT and nm in EMPTY_IF_FALSE and _result_ignored(f, x) and not entails(state_of(env, o), "NE", True):
                            # the `false' answer (object found and marked empty) is not looked at: the effect
                            # holds only once a later marked_empty() / is_empty() test has excluded that case
                            env = apply(env, o, EFFECT[nm])
                            env[(o, "ME?")] = True
                        elif nm in EFFECT:
                            env = apply(env, o, EFFECT[nm])
                        elif (nm, len(f.call_args(x))) in req:
                            pass        # an asserted worker: its own effect on the lazy facts is not modelled; keep what is known only if const
                        if nm not in EFFECT and not x.get("cconst") and nm not in KEEPS_RECEIVER_UNLESS_COMMITTED:
                            ne = nm in NE_PRESERVING and entails(state_of(env, o), "NE", True)
                            env = forget(env, o)
                            if ne:
                                env[(o, "NE")] = True
                # objects handed over by non-const reference lose their facts
                pm = x.get("pm", "")
                for a_, m in zip(f.call_args(x), pm):
                    if m in "rp":
                        o2 = obj_key(f, a_)
                        if o2 is not None and a_ is not None:
                            env = forget(env, o2)
                if x["k"] in ("call",) and f.call_name(x) == "swap":
                    for a_ in f.call_args(x):
                        o2 = obj_key(f, a_)
                        if o2 is not None:
                            env = forget(env, o2)
            elif x["k"] == "assign":
                o2 = obj_key(f, f.deref(x["c"][0]))
                if o2 is not None and f.root(f.deref(x["c"][0])) in (("this",),) :
                    env = forget(env, o2)
            elif x["k"] in ("var", "decl"):
              for x in ([x] if x["k"] == "var" else [f.deref(c_) for c_ in x.get("c", ())]):
                if x is None or x["k"] != "var" or not x.get("c") or "bool" not in x.get("t", ""):
                    continue
                init = f.deref(x["c"][0])
                while init is not None and init["k"] in ("cast", "paren") and init.get("c"):
                    init = f.deref(init["c"][0])
                if init is not None and init["k"] == "mcall" and not f.call_args(init) and \
                        (f.call_name(init) in PRED or f.call_name(init) in ("can_have_something_pending", "has_something_pending")):
                    ob = obj_key(f, f.call_obj(init))
                    if ob is not None:
                        env = dict(env)
                        env[("bind", x["n"])] = (ob, init["i"])
            return env

        def edge_effect(cond, taken, env):
            cn = f.deref(cond)
            pol = True
            while cn is not None and (cn["k"] == "cast" or (cn["k"] == "unop" and cn.get("op") == "!")):
                if cn["k"] == "unop":
                    pol = not pol
                cn = f.deref(cn["c"][0])
            if cn is not None and cn["k"] == "ref" and cn.get("dk") == "local" and ("bind", cn.get("n")) in env:
                cn = f.nodes.get(env[("bind", cn["n"])][1])
            if cn is not None and cn["k"] == "binop" and cn.get("op") in ("==", "!="):
                t = f.text(cn).replace(" ", "").replace("x.", "")
                if t in ("space_dim==0", "0==space_dim", "space_dimension()==0") and ((taken == pol) == (cn["op"] == "==")):
                    return None       # zero-dimensional: both descriptions are trivial
                if t in ("space_dim!=0",) and ((taken == pol) != True):
                    return None
            if cn is not None and cn["k"] == "binop" and cn.get("op") == ">" and \
                    f.text(cn).replace(" ", "").replace("x.", "") == "space_dim>0" and (taken == pol) is False:
                return None
            if cn is None or cn["k"] != "mcall":
                return env
            o = obj_key(f, f.call_obj(cn))
            if o is None:
                return env
            nm = f.call_name(cn)
            truth = taken if pol else not taken
            top = f.deref(cond)
            if top is not None and top["i"] in in_assert and not taken:
                # the failing edge of one of the function's own assertions
                for (o_, a_, v_) in literal(f, top) or ():
                    if a_ in judged_atoms + ("SP",) and not entails(state_of(env, o_), a_, v_):
                        afail.setdefault(in_assert[top["i"]]["i"], ((o_, a_, v_), dict(state_of(env, o_)), top))
                return None
            if nm == "marked_empty":
                if truth:
                    return None       # the callers return (or take the empty-object branch) on this edge
                env = dict(env)
                env[(o, "ME")] = False
                env.pop((o, "ME?"), None)
            elif nm in PRED:
                env = dict(env)
                env[(o, PRED[nm])] = truth
                env.pop((o, PRED[nm] + "!"), None)
                if nm == "has_pending_constraints" and truth:
                    env[(o, "PG")] = False
                if nm == "has_pending_generators" and truth:
                    env[(o, "PC")] = False
            elif nm == "has_something_pending" and not truth:
                env = dict(env)
                env[(o, "PG")] = False
                env[(o, "PC")] = False
            elif nm == "has_something_pending" and truth:
                env = dict(env)
                env[(o, "SP")] = True
            elif nm == "can_have_something_pending" and truth:
                env = dict(env)
                env[(o, "CM")] = True
                env[(o, "GM")] = True
            elif nm == "can_have_something_pending" and not truth:
                # Status::OK: rows are pending only when both descriptions are minimized and a saturation
                # matrix is up to date, which is what can_have_something_pending() tests
                env = dict(env)
                env[(o, "PC")] = False
                env[(o, "PG")] = False
            elif nm in EMPTY_IF_FALSE and not truth:
                return None       # the object turned out to be empty: the callers return on this edge
            elif nm in EMPTY_IF_FALSE and truth:
                env = dict(env)
                env[(o, "NE")] = True
            elif nm in ("marked_empty", "is_empty") and truth:
                return None
            elif nm == "marked_empty" and not truth:
                if env.get((o, "ME?")):
                    env = dict(env)
                    del env[(o, "ME?")]
            elif nm == "is_empty" and not truth:
                env = dict(env)
                env[(o, "NE")] = True
                env.pop((o, "ME?"), None)
            return env
        ex = flow.Explorer(f, elem_effect=elem_effect, edge_effect=edge_effect)
        p = ex.find_path("ENTRY", lambda x: False, "EXIT", exit_ok=lambda env: True, start_env=start, max_states=400000)
        if p is not None:
            raise F.AnalysisBroken("%s: state limit reached while exploring %s" % (rid, f.short))
        who = F.strip_ns(f.sig()).split("::", 1)[-1].split("(")[0]
        for ai in sorted(set(a["i"] for a in in_assert.values())):
            if only_callees is not None:
                break
            an = f.nodes[ai]
            n_sites += 1
            inst = CLS + "::%s asserts `%s`" % (who, f.text(an["c"][0])[:60])
            if ai not in afail:
                ctx.ok(rid, inst, f.where(an))
            else:
                (tgt, a, v), st, lit = afail[ai]
                oname = "the receiver" if tgt == "this" else "`%s`" % tgt[1]
                ek = (who, "assert", a)
                if ek in exceptions:
                    ctx.excepted(rid, inst, f.where(an), exceptions[ek])
                else:
                    ctx.violation(rid, inst, f.where(an), "the assertion claims %s about %s, but a path reaches it where only {%s} is known: the suite runs without assertions and the code below relies on the claim" % (
                        show(a, v), oname, ", ".join(show(k, w) for k, w in sorted(st.items()) if not k.endswith('!'))))
        for i, (o_, side, m_) in sorted(reads.items()):
            if only_callees is not None:
                break
            n_sites += 1
            inst = CLS + "::%s reads %s%s" % (who, "" if o_ == "this" else o_[1] + ".", side)
            if i not in rfail:
                ctx.ok(rid, inst, f.where(m_))
            else:
                (tgt, a, v), st = rfail[i]
                ek = (who, "reads", ("" if o_ == "this" else o_[1] + ".") + side)
                if ek in exceptions:
                    ctx.excepted(rid, inst, f.where(m_), exceptions[ek])
                    continue
                ctx.violation(rid, inst, f.where(m_), "the rows of %s are read on a path where %s is not known (state {%s}): the description may be stale" % (
                    side, show(a, v), ", ".join(show(k, w) for k, w in sorted(st.items()) if not k.endswith('!'))))
        for i, (c, obl) in sorted(sites.items()):
            n_sites += 1
            n_atoms += len(obl)
            inst = CLS + "::%s calls %s" % (who, f.call_name(c))
            if i not in failures:
                ctx.ok(rid, inst, f.where(c))
                continue
            fl = sorted(failures[i].items(), key=str)
            ek = (who, f.call_name(c))
            if ek in exceptions:
                eo, why = exceptions[ek]
                fl = [x_ for x_ in fl if ("this" if x_[0][0] == "this" else x_[0][0][1]) != eo]
                if not fl:
                    ctx.excepted(rid, inst, f.where(c), why)
                    continue
            (tgt, a, v), st = fl[0]
            oname = "the receiver" if tgt == "this" else "`%s`" % tgt[1]
            if False:
                pass
            else:
                ctx.violation(rid, inst, f.where(c), "%s() requires %s of %s (asserted or tabled precondition), but a path reaches the call where only {%s} is known about it: the suite runs without assertions, so the worker silently proceeds on a stale or unproved state" % (
                    f.call_name(c), show(a, v), oname, ", ".join(show(k, w) for k, w in sorted(st.items()) if not k.endswith('!'))))
    ctx.count(rid, "asserted atoms judged", n_atoms)
    ctx.count(rid, "obligations on local objects not judged", skipped)
    return n_sites


# ---------------------------------------------------------------------------------------------
# Configurations.  The tables above are Polyhedron's; use(GRID) swaps in Grid's.

def _entails_poly(st, atom, val):
    return entails(st, atom, val)


def entails_grid(st, atom, val):
    if st.get(atom) is val:
        return True
    if atom == "ME" and val is False:
        return any(st.get(a) is True for a in ("NE", "CU", "GU", "CM", "GM"))
    if atom == "NE" and val is True:
        return entails_grid(st, "GU", True)
    # a non-empty grid has at least one description up to date; minimized implies up to date
    if atom == "CU" and val is True:
        return st.get("CM") is True or st.get("GU") is False
    if atom == "GU" and val is True:
        return st.get("GM") is True or st.get("CU") is False
    return False


_POLY = None


def use(cfg):
    """Install a configuration (dict of module-level tables); returns the previous one."""
    g = globals()
    prev = {k: g[k] for k in cfg}
    g.update(cfg)
    return prev


GRID_ALL = {"CU": True, "GU": True, "CM": True, "GM": True}
GRID = {
    "FILES": ["Grid_nonpublic.cc", "Grid_public.cc", "Grid_chdims.cc", "Grid_widenings.cc"],
    "CLS": "Grid",
    "HEADER_RE": r"Grid_(inlines|templates)\.hh",
    "ANCHOR": ("select_wider_congruences", 2),
    "MIN_REQ": 4,
    "PRED": {"congruences_are_up_to_date": "CU", "generators_are_up_to_date": "GU",
             "congruences_are_minimized": "CM", "generators_are_minimized": "GM", "marked_empty": "ME"},
    "EFFECT": {
        "minimize": GRID_ALL,
        "update_congruences": {"CU": True, "CM": True}, "update_generators": {"GU": True, "GM": True},
        "set_congruences_up_to_date": {"CU": True}, "set_generators_up_to_date": {"GU": True},
        "set_congruences_minimized": {"CM": True, "CU": True}, "set_generators_minimized": {"GM": True, "GU": True},
        "clear_congruences_up_to_date": {"CU": False, "CM": False}, "clear_generators_up_to_date": {"GU": False, "GM": False},
        "clear_congruences_minimized": {"CM": False}, "clear_generators_minimized": {"GM": False},
        "OK": {},
    },
    "EMPTY_IF_FALSE": ("minimize", "update_generators", "simplify"),
    "entails": entails_grid,
    "NEED": {"con_sys": (("CU", True),), "gen_sys": (("GU", True),)},
    "NAMES": {"ME": "marked_empty()", "NE": "<known non-empty>", "CU": "congruences_are_up_to_date()", "GU": "generators_are_up_to_date()",
              "CM": "congruences_are_minimized()", "GM": "generators_are_minimized()"},
    "KEEPS_RECEIVER_UNLESS_COMMITTED": (),
    "SKIP_FUNCS": SKIP_FUNCS + ("construct",),
    "IMPLICIT_REQ": {("update_congruences", 0): [("this", "GU", True)],
                     ("set_zero_dim_univ", 0): [("this", "NE", True)],
                     # withdrawing a description: the other one must be complete, or the value is lost
                     ("clear_generators_up_to_date", 0): [("this", "CU", True)],
                     ("clear_congruences_up_to_date", 0): [("this", "GU", True)]},
    "DISCARDS": ("clear_generators_up_to_date", "clear_congruences_up_to_date"),
}
