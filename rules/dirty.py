"""Dirty temporaries are written before they are read.

PPL_DIRTY_TEMP(T, id) / PPL_DIRTY_TEMP_COEFFICIENT(id) bind `id` to a recycled object whose value is
whatever its previous user left there.  Reading it before the first write computes with garbage.
The rule walks every CFG path from the declaration: the first element that mentions the variable
must write it (assignment target, destination of a call through a non-const reference, non-const
member call); a read first (operand, const-reference argument, compound assignment, const member) is
reported.
"""
from pplv import flow


def dirty_vars(f):
    out = []
    for v in f.walk():
        if v["k"] == "var" and v.get("c") and "&" in v.get("t", ""):
            init = f.deref(v["c"][0])
            if init is not None and init["k"] == "mcall" and f.call_name(init) == "item":
                o = f.call_obj(init)
                if o is not None and "Dirty_Temp" in o.get("t", ""):
                    out.append(v)
    return out


def _is_v(f, x, name):
    x = f.deref(x)
    while x is not None and x["k"] in ("cast", "paren") and x.get("c"):
        x = f.deref(x["c"][0])
    return x is not None and x["k"] == "ref" and x.get("n") == name


def _mentions(f, x, name):
    return x is not None and any(y["k"] == "ref" and y.get("n") == name for y in f.walk(x))


def classify(f, n, name):
    """'W' / 'R' / None: what the CFG element n does to the local `name`."""
    k = n["k"]
    if k == "assign" or (k == "ocall" and n.get("op") == "="):
        l, r = n["c"][0], n["c"][1]
        if _is_v(f, l, name):
            return "R" if _mentions(f, f.deref(r), name) else "W"
        return "R" if _mentions(f, n, name) else None
    if k == "ocall" and n.get("op") in ("+=", "-=", "*=", "/=", "%=", "++", "--", "<<=", ">>="):
        return "R" if _mentions(f, n, name) else None
    if k in ("call", "mcall", "construct", "ocall"):
        args = f.call_args(n)
        pm = n.get("pm", "")
        obj = f.call_obj(n) if (k == "mcall" or (k == "ocall" and n.get("member"))) else None
        res = None
        if obj is not None and _is_v(f, obj, name):
            res = "R" if n.get("cconst") else "W"
        elif obj is not None and _mentions(f, obj, name):
            return "R"
        for i, a in enumerate(args):
            if a is None:
                continue
            m = pm[i] if i < len(pm) else "?"
            if _is_v(f, a, name):
                if m in "rp":
                    res = res or "W"
                else:
                    return "R"
            elif _mentions(f, a, name):
                inner = [y for y in f.walk(a) if y["k"] == "mcall" and f.call_obj(y) is not None and _is_v(f, f.call_obj(y), name)]
                if inner and all(not y.get("cconst") for y in inner) and m in "rp" and \
                        all(not (z["k"] == "ref" and z.get("n") == name) or any(f.within(z, y) for y in inner) for z in f.walk(a)):
                    res = res or "W"
                else:
                    return "R"
        return res
    if k in ("binop", "unop", "cond", "return", "member", "if", "switch", "while", "for", "do"):
        return "R" if _mentions(f, n, name) else None
    return None


def check_function(f):
    """[(var node, offending path)] for dirty temporaries of f that may be read before written."""
    out = []
    for v in dirty_vars(f):
        name = v["n"]
        decl = f.parent.get(v["i"]) or v
        pos = f.cfg_pos(decl) or f.cfg_pos(v)
        if pos is None:
            continue
        p = flow.Explorer(f).find_path(pos, lambda n: classify(f, n, name) == "W", lambda n: classify(f, n, name) == "R")
        out.append((v, p))
    return out


# (function, variable) -> why the first read is fine although the explorer finds a syntactic path
EXCEPTIONS = {
    ("is_matching_closure_point", "cp_0_scaled"): "read only through `rel_prime ? ... : cp_0_scaled`, i.e. when !rel_prime, the branch that assigned it",
    ("is_matching_closure_point", "p_0_scaled"): "as for cp_0_scaled",
    ("steepest_edge_exact_entering_index", "current_numer"): "the first candidate (entering_index == 0) initialises it by swap before any comparison; entering_index is an integer the explorer does not track",
    ("steepest_edge_exact_entering_index", "current_denom"): "as for current_numer",
    ("solve_mip", "tmp_rational"): "left unwritten only when mip_status == UNBOUNDED_MIP_PROBLEM, and every later read is under mip_status != UNBOUNDED_MIP_PROBLEM (the unbounded case returns first)",
    ("solve", "best_score"): "read as `best_i == not_a_dim || score < best_score`: the first candidate short-circuits and assigns it",
    ("max_min", "extremum"): "assigned by the first point or closure point met; the generator system of a non-empty polyhedron, bounded in the direction tested just above, contains one",
    ("relation_with", "sp_point"): "assigned at the first point of the generator system; a non-empty polyhedron has one",
    ("frequency", "value"): "assigned by the first point met (first_candidate); a non-empty polyhedron has one",
    ("Grid", "point_divisor"): "assigned when the first point of the polyhedron's generators is found; the polyhedron was found non-empty above",
    ("wrap_assign", "rational_quadrant_itv"): "written when o == OVERFLOW_UNDEFINED and read only in the OVERFLOW_UNDEFINED cases of the switches over o (enum correlation the explorer does not track)",
}


def run(ctx, rid, fx, select, minimum, what):
    """Apply the rule to the functions of fx accepted by select(f)."""
    ctx.rule(rid, "dirty temporaries (PPL_DIRTY_TEMP*: recycled objects holding whatever their last user left) are written before they are read: on every CFG path from the declaration the first element mentioning the variable writes it (assignment target, destination of a call through a non-const reference, non-const member); " + what)
    n = 0
    seen = set()
    for f in fx.functions:
        if f.flag("pattern") or not f.cfg or not select(f):
            continue
        key = (f.relfile, f.line)
        if key in seen:
            continue
        seen.add(key)
        for v, p in check_function(f):
            n += 1
            inst = "%s::%s dirty temporary `%s`" % (f.clsn or "", f.name, v["n"])
            if p is None:
                ctx.ok(rid, inst, f.where(v))
            elif (f.name, v["n"]) in EXCEPTIONS:
                ctx.excepted(rid, inst, f.where(v), EXCEPTIONS[(f.name, v["n"])])
            else:
                ctx.violation(rid, inst, f.where(v), "`%s` may be read before anything was written to it (path %s): the computation uses a leftover value" % (v["n"], flow.render_path(f, p)))
    ctx.floor(rid, n, minimum, "dirty temporaries")
