"""C18 — termination analysis: wrapper agreement and witness discipline (a thin structural claim).

R18.1 VALIDATE-FIRST  every public wrapper checks the dimensions of its pointset arguments and
                      throws before it uses them for anything else
R18.2 FORWARDING      each wrapper forwards to the core of its own method and kind (MS -> *_MS,
                      PR -> *_PR_original, PR_2 -> *_PR) with the constraint systems built from
                      (pset) / (pset_before, pset_after) in this order and the output parameters
                      in order; the `_2' sibling forwards to the same MS core as the single one
R18.3 EMPTY-RELATION  the six all_* wrappers test emptiness of the (before) relation before
                      building constraints and then return the universe of dimension 1 + n
R18.4 WITNESS         in the cores, `return true` with an output ranking function is reached only
                      after a successful mip.is_satisfiable() and an assignment of mu on every path;
                      the plain tests return mip.is_satisfiable() itself
That the Farkas-dual systems built by fill_constraint_system* characterise ranking functions, and
the MIP results, are numeric: not decided.
"""
import re

from pplv import facts as F
from pplv import flow

KINDS = ("termination_test", "one_affine_ranking_function", "all_affine_ranking_functions", "all_affine_quasi_ranking_functions")


def units():
    return [F.driver_unit("all_headers.cc", file_re=r"termination_templates\.hh"), F.lib_unit("termination.cc")]


def split_name(n):
    m = re.match(r"(.*)_(MS|PR)(_2)?$", n)
    if not m or m.group(1) not in KINDS:
        return None
    return m.group(1), m.group(2), bool(m.group(3))


def refs(f, n):
    return [x["n"] for x in f.walk(n) if x["k"] == "ref" and x.get("dk") in ("param", "local")]


def wrappers(fx):
    out = []
    for f in fx.functions:
        if f.file.endswith("termination_templates.hh") and f.flag("pattern") and split_name(f.name):
            out.append(f)
    return out


def r18_1(ctx, ws):
    rid = "R18.1"
    ctx.rule(rid, "validate first: each public termination wrapper throws std::invalid_argument on the dimension condition of its arguments (odd dimension / after != 2 * before) and no use of a pointset argument other than space_dimension() is reachable before that test")
    n = 0
    for f in ws:
        n += 1
        _, _, two = split_name(f.name)
        inst = f.name
        throws = [t for t in f.walk() if t["k"] == "throw"]
        if not throws:
            ctx.violation(rid, inst, f.where(), "no dimension check: the wrapper never throws")
            continue
        thr = throws[0]
        guard = None
        child = thr
        for a in f.ancestors(thr):
            if a["k"] == "if" and f.within(child, f.deref(a["c"][3])):
                guard = a
            child = a
        ct = f.text(f.deref(guard["c"][2])).replace(" ", "") if guard else ""
        want = "after_space_dim!=2*before_space_dim" if two else "space_dim%2!=0"
        if ct != want:
            # accept the mirrored spellings, otherwise unknown form
            alt = {"2*before_space_dim!=after_space_dim", "before_space_dim*2!=after_space_dim", "0!=space_dim%2", "space_dim%2==1", "(space_dim%2)!=0"}
            ctx.require(rid, ct in alt or ct == "", "%s: dimension test `%s` has a form the rule does not know" % (f.name, ct))
            if ct == "":
                ctx.violation(rid, inst, f.where(thr), "the throw is not guarded by a dimension test")
                continue
        psets = [p["n"] for p in f.params if p["n"].startswith("pset")]

        def early_use(y):
            if y["k"] in ("mcall", "call") and f.call_name(y) != "space_dimension":
                for a_ in ([f.call_obj(y)] if y["k"] == "mcall" and f.call_obj(y) is not None else []) + list(f.call_args(y)):
                    if a_ is not None and any(r in psets for r in refs(f, a_)):
                        return True
            return False
        gpos = f.cfg_pos(f.deref(guard["c"][2]))
        p = flow.Explorer(f, exempt_throw=False).find_path("ENTRY", lambda y: y["i"] == f.deref(guard["c"][2])["i"] or f.within(y, f.deref(guard["c"][2])), early_use)
        if p is not None:
            ctx.violation(rid, inst, f.where(), "a pointset argument is used before the dimension check: " + flow.render_path(f, p))
        else:
            ctx.ok(rid, inst, f.where(guard))
    ctx.floor(rid, n, 14, "public termination wrappers")


def core_name(kind, method, two):
    if method == "MS":
        return kind + "_MS"
    return kind + ("_PR" if two else "_PR_original")


def r18_2(ctx, ws):
    rid = "R18.2"
    ctx.rule(rid, "forwarding: the wrapper <kind>_<M>[_2] ends in a call of the core <kind>_MS (both MS wrappers), <kind>_PR_original (single PR) or <kind>_PR (PR_2); the constraint systems handed to the core are locals filled by assign_all_inequalities_approximation from pset, from (pset_before, pset_after) in this order, or cs_before from pset_before and cs_after from pset_after; output parameters follow in declaration order")
    n = 0
    for f in ws:
        n += 1
        kind, method, two = split_name(f.name)
        inst = f.name
        want = core_name(kind, method, two)
        cores = [c for c in f.calls() if c["k"] == "call" and f.call_name(c) == want and c.get("l", 0) > f.line]
        cores = [c for c in cores if not any(f.call_name(a) == want and a is not c for a in [])]
        if not cores:
            others = sorted(set(f.call_name(c) for c in f.calls() if split_name(f.call_name(c) or "") or (f.call_name(c) or "").endswith("_original")))
            ctx.violation(rid, inst, f.where(), "does not forward to %s (calls %s)" % (want, others))
            continue
        core = cores[-1]
        args = [f.text(a) for a in f.call_args(core)]
        outs = [p["n"] for p in f.params if not p["n"].startswith("pset")]
        probs = []
        ncs = 2 if (method == "PR" and two) else 1
        cs_args, out_args = args[:ncs], args[ncs:]
        if out_args != outs:
            probs.append("output parameters forwarded as %s, declared %s" % (out_args, outs))
        # how were the cs locals filled?
        fills = {}
        for c in f.calls():
            if f.call_name(c) == "assign_all_inequalities_approximation":
                a = [f.text(x) for x in f.call_args(c)]
                fills[a[-1]] = a[:-1]
        if ncs == 1:
            src = fills.get(cs_args[0])
            wantsrc = ["pset_before", "pset_after"] if two else ["pset"]
            if src != wantsrc:
                probs.append("constraint system `%s` is built from %s, expected %s" % (cs_args[0], src, wantsrc))
        else:
            if cs_args != ["cs_before", "cs_after"] or fills.get("cs_before") != ["pset_before"] or fills.get("cs_after") != ["pset_after"]:
                probs.append("core called with %s built from %s" % (cs_args, {k: v for k, v in fills.items()}))
        # the core call is what is returned (bool kinds)
        if f.j.get("ret") == "bool":
            par = f.parent.get(core["i"])
            while par is not None and par["k"] == "cast":
                par = f.parent.get(par["i"])
            if par is None or par["k"] != "return":
                probs.append("the verdict of the core is not what is returned")
        if probs:
            ctx.violation(rid, inst, f.where(core), "; ".join(probs))
        else:
            ctx.ok(rid, inst, f.where(core))
    ctx.floor(rid, n, 14, "public termination wrappers")
    # the two-pointset helper concatenates before (shifted to the high dimensions) and after
    hs = [f for f in ctx._fx.functions if f.name == "assign_all_inequalities_approximation" and len(f.params) == 3 and f.flag("pattern")]
    ctx.require(rid, len(hs) >= 1, "Termination_Helpers::assign_all_inequalities_approximation(before, after, cs) not found")
    h = hs[0]
    inst = "assign_all_inequalities_approximation(pset_before, pset_after, cs)"
    calls = [c for c in h.calls() if h.call_name(c) in ("assign_all_inequalities_approximation", "shift_space_dimensions", "insert")]
    seq = [(h.call_name(c), [h.text(a) for a in h.call_args(c)][:2]) for c in calls]
    names = [s[0] for s in seq]
    ok = names[:3] == ["assign_all_inequalities_approximation", "shift_space_dimensions", "assign_all_inequalities_approximation"] \
        and seq[0][1] == ["pset_before", "cs"] and seq[2][1][0] == "pset_after" and "insert" in names[3:]
    shift = [c for c in calls if h.call_name(c) == "shift_space_dimensions"]
    if ok and shift:
        a = [h.text(x).replace(" ", "") for x in h.call_args(shift[0])]
        ok = "Variable(0)" in a[0] and a[1] == "cs.space_dimension()" and h.text(h.call_obj(shift[0])) == "cs"
    if ok:
        ctx.ok(rid, inst, h.where())
    else:
        ctx.violation(rid, inst, h.where(), "the before/after relation is not assembled as: constraints of pset_before shifted up by their own dimension, then the constraints of pset_after (found %s)" % seq)


def r18_3(ctx, ws):
    rid = "R18.3"
    ctx.rule(rid, "empty relation: each all_* wrapper tests is_empty() of pset (pset_before) before any constraint system is built and, on that edge, assigns every output space the universe of dimension 1 + n (n = space_dim/2, resp. before_space_dim) and returns — for an empty relation every affine function is a ranking function")
    n = 0
    for f in ws:
        kind, method, two = split_name(f.name)
        if not kind.startswith("all_"):
            continue
        n += 1
        inst = f.name
        psetn = "pset_before" if two else "pset"
        guards = [i for i in f.walk() if i["k"] == "if" and f.text(f.deref(i["c"][2])).replace(" ", "") == psetn + ".is_empty()"]
        if len(guards) != 1:
            ctx.violation(rid, inst, f.where(), "no `if (%s.is_empty())` guard" % psetn)
            continue
        g = guards[0]
        then = f.deref(g["c"][3])
        outs = [p["n"] for p in f.params if not p["n"].startswith("pset")]
        probs = []
        dim = "1+before_space_dim" if two else "1+space_dim/2"
        assigned = {}
        built = []
        for a in f.walk(then):
            if a["k"] in ("assign", "ocall") and (a.get("op") == "="):
                cs = [f.deref(c) for c in a["c"]]
                l = f.text(cs[0])
                assigned[l] = cs[1]
                r_ = cs[1]
                while r_ is not None and r_["k"] == "cast" and r_.get("ck") not in ("functional",) and r_.get("c"):
                    r_ = f.deref(r_["c"][0])
                if r_ is not None and "Polyhedron" in r_.get("t", "") and r_["k"] in ("construct", "cast"):
                    kids = [f.deref(c) for c in r_.get("c", ())]
                    if kids and kids[0] is not None and "Polyhedron" not in kids[0].get("t", ""):
                        built.append((kids[0], [f.text(k) for k in kids[1:]]))
        for o in outs:
            if o not in assigned:
                probs.append("output `%s` is not set on the empty edge" % o)
        base = "before_space_dim" if two else "space_dim/2"
        for d_, rest in built:
            dn = d_
            while dn is not None and dn["k"] in ("cast", "paren") and dn.get("c"):
                dn = f.deref(dn["c"][0])
            txt = f.text(dn).replace(" ", "")
            form = None
            if dn["k"] == "binop" and dn.get("op") == "+":
                a_, b_ = f.deref(dn["c"][0]), f.deref(dn["c"][1])
                ta, tb = f.text(a_).replace(" ", ""), f.text(b_).replace(" ", "")
                if ta == "1":
                    form = tb
                elif tb == "1":
                    form = ta
            if form is None:
                ctx.require(rid, txt in (base, "space_dim", "2*before_space_dim"), "%s: dimension expression `%s` of the empty-relation result has a form the rule does not know" % (f.name, txt))
                probs.append("the space of ranking functions of the empty relation has dimension `%s` (must be 1 + %s: one coefficient per variable plus the constant)" % (txt, base))
            elif form.strip("()") != base:
                probs.append("the space of ranking functions of the empty relation has dimension `%s` (must be 1 + %s)" % (txt, base))
            if any("EMPTY" in x for x in rest):
                probs.append("the empty relation is given the EMPTY space of ranking functions (every affine function ranks an empty relation: must be the universe)")
        if not built:
            probs.append("no polyhedron of dimension %s is built on the empty edge" % dim)
        if not any(r["k"] == "return" for r in f.walk(then)):
            probs.append("the empty edge does not return")
        builds = [c for c in f.calls() if f.call_name(c) == "assign_all_inequalities_approximation"]
        for b in builds:
            p = flow.must_precede(f, b, lambda y: f.within(y, f.deref(g["c"][2])) or y["i"] == f.deref(g["c"][2])["i"])
            if p is not None:
                probs.append("constraints are built before the emptiness test")
                break
        if probs:
            ctx.violation(rid, inst, f.where(g), "; ".join(probs))
        else:
            ctx.ok(rid, inst, f.where(g))
    ctx.floor(rid, n, 6, "all_* wrappers")


def r18_4(ctx, fx):
    rid = "R18.4"
    ctx.rule(rid, "witness discipline in the cores (termination.cc): a function with an output ranking function `mu` returns true only on paths that passed the false edge of `!mip.is_satisfiable()` and assigned mu; the plain termination tests return mip.is_satisfiable() itself")
    n = 0
    seen = set()
    for f in fx.functions:
        if not f.file.endswith("termination.cc") or f.flag("pattern") or (f.line in seen):
            continue
        if f.j.get("ret") != "bool":
            continue
        seen.add(f.line)
        hasmu = any(p["n"] == "mu" for p in f.params)
        rets = [r for r in f.walk() if r["k"] == "return" and r.get("c")]
        if all(f.deref(r["c"][0])["k"] in ("call", "mcall") and split_name(f.call_name(f.deref(r["c"][0])) or "") is None
               and f.call_name(f.deref(r["c"][0])) not in ("is_satisfiable",) for r in rets) and hasmu:
            # pure forwarding to Termination_Helpers::<same name>
            fw = f.deref(rets[0]["c"][0])
            n += 1
            inst = "%s(%s) forwards" % (f.name, ", ".join(p["n"] for p in f.params))
            if f.call_name(fw) == f.name and [f.text(a) for a in f.call_args(fw)] == [p["n"] for p in f.params]:
                ctx.ok(rid, inst, f.where())
            else:
                ctx.violation(rid, inst, f.where(), "forwards to %s(%s)" % (f.call_name(fw), [f.text(a) for a in f.call_args(fw)]))
            continue
        if not hasmu:
            n += 1
            inst = "%s(%s) returns the MIP verdict" % (f.name, ", ".join(p["n"] for p in f.params))
            ok = len(rets) >= 1 and all(f.text(r["c"][0]).replace(" ", "") == "mip.is_satisfiable()" for r in rets)
            if ok:
                ctx.ok(rid, inst, f.where())
            else:
                ctx.violation(rid, inst, f.where(), "returns %s" % [f.text(r["c"][0]) for r in rets])
            continue
        for r in rets:
            if f.text(r["c"][0]) != "true":
                continue
            n += 1
            inst = "%s(%s) return true" % (f.name, ", ".join(p["n"] for p in f.params))

            def sat_edge(tc, taken):
                t = f.text(tc).replace(" ", "")
                return (t == "!mip.is_satisfiable()" and not taken) or (t == "mip.is_satisfiable()" and taken)
            tgt = set(x["i"] for x in f.walk(r))
            p1 = flow.Explorer(f).find_path("ENTRY", lambda y: False, lambda y: y["i"] in tgt, edge_blocked=sat_edge)
            p2 = flow.must_precede(f, r, lambda y: y["k"] in ("assign", "ocall") and y.get("op") == "=" and f.text(f.deref(y["c"][0])) == "mu")
            if p1 is not None:
                ctx.violation(rid, inst, f.where(r), "true is returned on a path that did not establish mip.is_satisfiable(): " + flow.render_path(f, p1))
            elif p2 is not None:
                ctx.violation(rid, inst, f.where(r), "true is returned on a path that never assigned the ranking function mu")
            else:
                ctx.ok(rid, inst, f.where(r))
    ctx.floor(rid, n, 7, "core verdicts")


def r18_5(ctx, fx):
    rid = "R18.5"
    ctx.rule(rid, "approximation direction: the helpers that turn the constraints of the relation into non-strict inequalities (assign_all_inequalities_approximation, generic and C_Polyhedron versions) insert, for a constraint c with expression e, only constraints that c implies — for an equality e = 0: e >= k with k <= 0, e <= k with k >= 0; for a strict inequality e > 0: e >= k or e > k with k <= 0; otherwise c itself. The termination tests are sound for a relation that contains the given one; a stronger constraint drops transitions and lets the tests certify loops that do not terminate")
    fs = [f for f in fx.functions if f.name == "assign_all_inequalities_approximation" and f.relfile.endswith("termination.cc") and f.cfg]
    ctx.require(rid, len(fs) >= 2, "assign_all_inequalities_approximation: expected the generic and the C_Polyhedron version in termination.cc, found %d" % len(fs))
    n = 0
    for f in fs:
        for c in f.calls():
            if c["k"] != "mcall" or f.call_name(c) != "insert" or len(f.call_args(c)) != 1:
                continue
            arg = f.deref(f.call_args(c)[0])
            while arg is not None and arg["k"] in ("cast", "paren", "construct", "temp", "bind") and arg.get("c") and len(arg["c"]) == 1:
                arg = f.deref(arg["c"][0])
            # the arm: innermost enclosing `if` on a predicate of the current constraint
            kind = "as-is"
            child = c
            for a in f.ancestors(c):
                if a["k"] == "if":
                    ct = f.text(f.deref(a["c"][2])).replace(" ", "")
                    then = f.deref(a["c"][3])
                    if f.within(child, then) and ct.endswith("is_equality()"):
                        kind = "eq"
                        break
                    if f.within(child, then) and ct.endswith("is_strict_inequality()"):
                        kind = "strict"
                        break
            n += 1
            inst = "%s (line %s) inserts `%s` for %s" % (f.name, f.line, f.text(arg), {"eq": "an equality", "strict": "a strict inequality", "as-is": "any other constraint"}[kind])
            if arg is not None and arg["k"] == "ref":
                if kind == "as-is":
                    ctx.ok(rid, inst, f.where(c))
                else:
                    ctx.violation(rid, inst, f.where(c), "the %s is inserted unchanged into a system that must hold non-strict inequalities only" % kind)
                continue
            ctx.require(rid, arg is not None and arg["k"] in ("ocall", "call") and arg.get("op") in ("<=", ">=", "<", ">", "=="), "%s: unknown form of the inserted constraint `%s`" % (f.name, f.text(arg)))
            ops = [f.deref(x) for x in arg["c"]][-2:]

            def lit(x):
                while x is not None and x["k"] in ("cast", "paren", "construct", "temp", "bind") and x.get("c") and len(x["c"]) == 1:
                    x = f.deref(x["c"][0])
                neg = 1
                if x is not None and x["k"] == "unop" and x.get("op") == "-":
                    neg = -1
                    x = f.deref(x["c"][0])
                if x is not None and x["k"] in ("int", "lit") and str(x.get("v", "")).lstrip("-").isdigit():
                    return neg * int(x["v"])
                return None
            kl, kr = lit(ops[0]), lit(ops[1])
            ctx.require(rid, (kl is None) != (kr is None), "%s: unknown form of the inserted constraint `%s`" % (f.name, f.text(arg)))
            op, k, e = (arg["op"], kr, ops[0]) if kr is not None else ({"<=": ">=", ">=": "<=", "<": ">", ">": "<", "==": "=="}[arg["op"]], kl, ops[1])
            # e must be the expression of the current constraint
            et = f.text(e).replace(" ", "")
            src = et
            if e["k"] == "ref" and e.get("dk") == "local":
                v = [x for x in f.walk() if x["k"] == "var" and x.get("n") == e["n"] and x.get("c")]
                ctx.require(rid, len(v) >= 1, "%s: definition of `%s` not found" % (f.name, et))
                vv = [x for x in v if f.within(x, [a for a in f.ancestors(c) if a["k"] in ("block", "compound", "if")][0])] or v
                src = f.text(f.deref(vv[0]["c"][0])).replace(" ", "")
            ctx.require(rid, "expression()" in src, "%s: `%s` is not the expression of the current constraint" % (f.name, et))
            ok = (kind == "eq" and ((op == ">=" and k <= 0) or (op == "<=" and k >= 0) or (op == "==" and k == 0))) or \
                 (kind == "strict" and op in (">=", ">") and k <= 0)
            if kind == "as-is":
                ctx.violation(rid, inst, f.where(c), "a constraint that is neither an equality nor strict is replaced by `%s`" % f.text(arg))
            elif ok:
                ctx.ok(rid, inst, f.where(c))
            else:
                ctx.violation(rid, inst, f.where(c), "`e %s %d` is not implied by %s: the approximation drops transitions of the relation (those with e between 0 and %d), so the tests can certify a loop that does not terminate" % (op, k, "e = 0" if kind == "eq" else "e > 0", k))
    ctx.floor(rid, n, 7, "constraints inserted by the approximation helpers")


def run(ctx):
    ctx.explanation = ("C18 thin structural claim: the 14 public termination wrappers validate first, forward to the core of their own method with the relations in order, "
                       "treat the empty relation alike, and the cores hand out a ranking function only after a satisfiable MIP; decides these clauses, "
                       "not that the Farkas-dual systems characterise ranking functions")
    ctx.assumptions = ["the coefficient layouts of fill_constraint_system* and the MIP / projection results are numeric: not decided",
                       "the wrappers are template patterns: calls are resolved by name and argument text"]
    fx = ctx.extract(units())
    ctx._fx = fx
    ws = wrappers(fx)
    r18_1(ctx, ws)
    r18_2(ctx, ws)
    r18_3(ctx, ws)
    r18_4(ctx, fx)
    r18_5(ctx, fx)
