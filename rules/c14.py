"""C14 — exceptional exits are clean.

R14.1 VALIDATE-BEFORE-MUTATE  no write to the receiver reaches a validation throw
R14.2 OWNED-AT-ONCE           every allocation (new / clone()) is owned before anything can throw
R14.3 ABANDON-ON-EVERY-CYCLE  every cycle of a loop that holds a maybe_abandon() checkpoint passes one
R14.4 OBSERVER-THROWS         = R6.4 / R7.3 (cached results handed out only after a successful solve)
R14.5 TEMPORARY-MARKS         a topology mark put on an object temporarily is undone on every exit, exceptional ones included
Leak-freedom under the k-th allocation failure deep inside call chains is not decided.
"""
import os
import re

from pplv import facts as F
from pplv import effects as E
from pplv import flow


# ---------------------------------------------------------------------------
# R14.3

ABANDON_FLOOR = {   # anchor function -> number of checkpointed loops confirmed by reading
    "conversion": 4,
    "compute_simplex_using_steepest_edge_float": 1,
    "compute_simplex_using_exact_pricing": 1,
    "compatibility_check": 1,
    "solve": 1,
    "propagate_constraints_no_check": 1,
}


def units_abandon():
    r = F.REPO
    return [F.lib_unit("MIP_Problem.cc", name_re=r"compute_simplex"),
            F.lib_unit("PIP_Tree.cc", name_re=r"compatibility_check|PIP_Solution_Node::solve"),
            F.Unit(os.path.join(r, "src", "Polyhedron_nonpublic.cc"), file_re=r"Polyhedron_conversion_templates", name_re=r"conversion"),
            F.driver_unit("domains.cc", file_re=r"Box_templates\.hh", name_re=r"propagate_constraints_no_check")]


def _loop_of(f, n):
    for a in f.ancestors(n):
        if a["k"] in ("for", "while", "do", "forrange"):
            return a
    return None


def r14_3(ctx):
    rid = "R14.3"
    ctx.rule(rid, "abandonment checkpoints: in each loop that holds a maybe_abandon() call, no cycle of the loop (from its header back to its header) avoids every checkpoint; each anchor function keeps its confirmed number of checkpointed loops")
    fx = ctx.extract(units_abandon())
    found = {}
    for f in fx.functions:
        if f.flag("pattern") or not f.cfg:
            continue
        calls = [c for c in f.calls() if c["k"] == "call" and f.call_name(c) == "maybe_abandon"]
        if not calls:
            continue
        loops = {}
        for c in calls:
            lp = _loop_of(f, c)
            if lp is None:
                ctx.violation(rid, "%s checkpoint outside any loop" % f.name, f.where(c), "maybe_abandon() is not inside a loop")
                continue
            loops.setdefault(lp["i"], (lp, []))[1].append(c)
        key = f.name
        if key in found:
            continue      # same template body instantiated several times
        found[key] = len(loops)
        call_blocks = set()
        for c in calls:
            p = f.block_of(c["i"])
            if p:
                call_blocks.add(p[0])
        for lid, (lp, cs) in loops.items():
            inst = "%s loop@%s" % (f.name, "%s" % lp["k"])
            inst = "%s %s-loop #%d" % (f.name, lp["k"], sorted(loops).index(lid) + 1)
            headers = [b["id"] for b in f.cfg["b"] if b.get("t") == lid]
            if not headers:
                ctx.violation(rid, inst, f.where(lp), "loop header not found in the CFG")
                continue
            bad = None
            for h in headers:
                if h in call_blocks:
                    continue
                # reach h from its successors without entering a checkpoint block
                seen, stack, parent = set(), [], {}
                for s in f.succs(h):
                    stack.append(s)
                    parent[s] = h
                while stack:
                    b = stack.pop()
                    if b in seen or b in call_blocks:
                        continue
                    seen.add(b)
                    if b == h:
                        # reconstruct
                        path, x = [h], parent.get(("last", h))
                        bad = (h, seen)
                        break
                    # stay inside the loop: do not follow blocks outside the loop statement
                    blk = f.blocks[b]
                    inside = True
                    if blk["e"]:
                        nd = f.nodes.get(blk["e"][0])
                        inside = nd is None or f.within(nd, lp) or nd is lp
                    if not inside:
                        continue
                    for s in f.succs(b):
                        if s not in seen:
                            stack.append(s)
                if bad:
                    break
            if bad:
                lines = sorted(set(f.nodes[e].get("l") for b in bad[1] for e in f.blocks[b]["e"] if e in f.nodes and f.nodes[e].get("l")))
                ctx.violation(rid, inst, f.where(lp), "a cycle of this loop avoids every maybe_abandon() checkpoint (through lines %s...%s): a long run of iterations cannot be interrupted" % (lines[0] if lines else "?", lines[-1] if lines else "?"))
            else:
                ctx.ok(rid, inst, f.where(lp))
    for fn, want in ABANDON_FLOOR.items():
        got = found.get(fn)
        inst = "%s keeps %d checkpointed loop(s)" % (fn, want)
        if got is None:
            ctx.violation(rid, inst, "src", "anchor function no longer contains any maybe_abandon() checkpoint (or vanished)")
        elif got < want:
            ctx.violation(rid, inst, "src", "only %d loop(s) still hold a checkpoint" % got)
        else:
            ctx.ok(rid, inst, "src")


# ---------------------------------------------------------------------------
# R14.2

NOTHROW_NAMES = set("""set_parent set_owner release swap m_swap size capacity empty get begin end rbegin rend
 is_empty space_dimension operator-> operator* operator[] operator== operator!= operator< parent get_owner
 max_size num_rows num_columns id is_shared new_reference del_reference set_empty set_zero_dim_univ
 first second c_str data front back clear pop_back destroy deallocate move forward addressof
 compute_capacity not_a_dimension integer_log2 PPL_USED ppl_unreachable unused_index make_pair
 memcpy memmove memset memcmp strlen strcmp abs labs fabs""".split())

ALLOC_LEMMAS = {
    ("MIP_Problem::add_constraint_helper", "new Constraint"): "the vector's capacity is reserved just before (`input_cs.reserve`), so push_back cannot throw after the allocation",
}


def units_alloc():
    us = [F.lib_unit(n) for n in F.library_sources()]
    us.append(F.driver_unit("domains.cc", file_re=r"_(inlines|templates)\.hh"))
    us.append(F.driver_unit("watch.cc", file_re=r"(Threshold_Watcher|Pending_List|Pending_Element|EList|EList_Iterator|Doubly_Linked_Object|Watchdog|Handler|Time)_(inlines|templates|defs)\.hh"))
    return us


class Throwers:
    """May-throw inference over the functions in the facts (depth-bounded); unknown callees may throw
    unless their name is in the reasoned nothrow list."""

    def __init__(self, fx):
        self.by_q = {}
        for f in fx.functions:
            self.by_q.setdefault(f.q, []).append(f)
        self.memo = {}

    def func_may_throw(self, f, depth=4):
        key = (id(f), depth)
        if key in self.memo:
            return self.memo[key]
        self.memo[key] = True     # recursion guard: assume it may
        if f.j.get("exspec") == "nothrow":
            self.memo[key] = False
            return False
        res = False
        for n in f.walk():
            if self.node_may_throw(f, n, depth - 1):
                res = True
                break
        self.memo[key] = res
        return res

    def node_may_throw(self, f, n, depth=5):
        k = n["k"]
        if k == "throw":
            return True
        if k == "new" and not n.get("placement"):
            return True
        if k in ("call", "mcall", "ocall", "construct"):
            name = f.call_name(n)
            if name in NOTHROW_NAMES or name.startswith(("set_", "is_", "marked_", "test_", "reset_")):
                return False
            if k == "construct":
                tc = n.get("tc") or n.get("t", "")
                if "__gmp_expr" in tc or "mpz" in tc or "mpq" in tc:
                    return True     # GMP numbers allocate
                if (n.get("copy") or n.get("default")) and re.search(r"\*$|\b(bool|int|long|char|unsigned|double)\b|Variable$|iterator", tc):
                    return False
            q = n.get("callee")
            cands = self.by_q.get(q, []) if q else []
            if cands and depth > 0:
                return any(self.func_may_throw(g, depth) for g in cands)
            if k == "ocall" and n.get("op") in ("=", "==", "!=", "<", ">", "<=", ">=", "++", "--", "*", "->", "[]", "+", "-", "!", "&&", "||") and \
                    not any("Coefficient" in f.deref(c).get("t", "") or "mpz" in f.deref(c).get("t", "") for c in n.get("c", ()) if f.deref(c) is not None and f.deref(c).get("t")):
                return n.get("cext") is None and False
            return True
        return False


def _alloc_kind(f, n):
    if n["k"] == "new" and not n.get("placement"):
        return "new " + F.strip_ns(n.get("t", ""))[:40]
    if n["k"] == "mcall" and f.call_name(n) == "clone":
        return "clone()"
    if n["k"] == "mcall" and f.call_name(n) == "allocate" and "allocator" in (n.get("ccls", "") + f.text(f.call_obj(n))).lower():
        return "allocate()"
    return None


def _binding(f, n):
    """How the value of allocation n is first held: ('return'|'arg'|'field', name|'local', name|'global'|'sub'|'other', node)."""
    cur = n
    p = f.parent.get(n["i"])
    while p is not None and (p["k"] in ("cast", "cond") or (p["k"] == "unop" and p.get("op") in ("*", "&"))
                             or (p["k"] == "call" and f.call_name(p) in ("to_nonconst", "to_const"))):
        cur, p = p, f.parent.get(p["i"])
    if p is None:
        init_of = n.get("_init_of") or cur.get("_init_of")
        if init_of:
            return ("field", init_of, cur)
        return ("other", None, cur)
    k = p["k"]
    if k == "return":
        return ("return", None, p)
    if k == "var":
        return ("local", p["n"], p)
    if k in ("assign",) or (k == "ocall" and p.get("op") == "="):
        lhs = f.deref(p["c"][0])
        if lhs is cur or f.within(cur, lhs):
            return ("other", None, p)
        r = f.root(lhs)
        lr = E.lvalue_root(f, lhs)
        if lr[0] in ("local",) and len(lr) == 2:
            return ("local", lr[1], p)
        if r[0] == "this" and len(r) == 2:
            return ("field", r[1], p)
        if r[0] == "this" and len(r) > 2:
            return ("sub", ".".join(r[1:]), p)
        if r[0] == "local" and len(r) > 2:
            return ("sub", ".".join(r[1:]), p)    # member of a fully constructed local object
        if r[0] == "global":
            return ("global", r[1], p)
        if r[0] == "param":
            return ("out", r[1], p)
        return ("other", f.text(lhs), p)
    if k in ("call", "mcall", "construct", "ocall"):
        return ("arg", f.call_name(p), p)
    return ("other", k, p)


def _guard_classes(fx):
    g = set()
    for f in fx.functions:
        if f.kind == "dtor" and any(x["k"] == "delete" for x in f.walk()):
            g.add(f.clsn)
    rel = set(f.clsn for f in fx.functions if f.name == "release")
    return set(x for x in g if x in rel) | {"Safe_Ptr", "Safe_Node"}


def _protected_by_try(f, n, name, is_field):
    """n lies in a try block whose catch (...) releases `name` (delete / deallocate) and rethrows."""
    for a in f.ancestors(n):
        if a["k"] != "try":
            continue
        if not f.within(n, a["c"][0]):
            continue
        for h in a["c"][1:]:
            h = f.deref(h)
            if not h.get("all"):
                continue
            rel = False
            for x in f.walk(h):
                if x["k"] == "delete" and x.get("c") and name in f.text(x["c"][0]):
                    rel = True
                if x["k"] in ("call", "mcall") and f.call_name(x) in ("deallocate", "destroy") and (name in f.text(x) or not is_field):
                    rel = True
            if rel:
                return True
    return False


def r14_2(ctx):
    rid = "R14.2"
    ctx.rule(rid, "owned at once: the result of every new / clone() / allocator allocate() is returned, handed to a callee or guard object, stored in an already-constructed owner, or — when held in a raw local pointer or in a raw pointer member of an object still under construction — followed by no may-throw event until it is handed over, guarded (Safe_* object) or protected by try { } catch (...) { release; throw; }")
    fx = ctx.extract(units_alloc())
    th = Throwers(fx)
    guards = _guard_classes(fx)
    n_sites = 0
    seen = set()
    for f in fx.functions:
        if f.flag("pattern") or not f.cfg:
            continue
        for a in f.walk():
            kind = _alloc_kind(f, a)
            if not kind:
                continue
            key = (f.relfile, a.get("l"), kind)
            if key in seen:
                continue
            seen.add(key)
            n_sites += 1
            how, name, bnode = _binding(f, a)
            fq = re.sub(r"<.*", "", F.strip_ns(f.q))
            inst = "%s %s -> %s %s" % (re.sub(r"\(.*", "", F.strip_ns(f.sig()))[:70], kind, how, name or "")
            where = f.where(a)
            if how in ("return", "global", "sub", "out"):
                ctx.ok(rid, inst, where)
                continue
            if how == "arg":
                lem = ALLOC_LEMMAS.get((fq, kind))
                callee = name
                p = bnode
                if p["k"] == "construct" and (F.strip_ns(p.get("t", "")).split("<")[0].split("::")[-1] in guards):
                    ctx.ok(rid, inst, where)
                elif lem:
                    ctx.excepted(rid, inst, where, lem)
                elif not th.node_may_throw(f, p):
                    ctx.ok(rid, inst, where)
                else:
                    ctx.violation(rid, inst, where, "the fresh object is passed to `%s`, which may throw before taking ownership" % callee)
                continue
            if how == "field" and f.kind != "ctor":
                ctx.ok(rid, inst, where)      # the constructed object's destructor owns it
                continue
            if how in ("other",):
                ctx.violation(rid, inst, where, "cannot tell who owns the result (%s)" % name)
                continue
            # raw local pointer, or raw pointer member of an object under construction
            is_field = how == "field"
            pos = f.cfg_pos(bnode if bnode.get("i") is not None else a)
            if pos is None:
                pos = f.cfg_pos(a)

            def handed_over(x, name=name, is_field=is_field):
                k = x["k"]
                if k == "var" or k == "decl":
                    for v in ([x] if k == "var" else x.get("c", [])):
                        t = F.strip_ns(v.get("t", "")).split("<")[0].split("::")[-1].replace("const ", "").strip()
                        if t in guards and any(y["k"] in ("ref", "member") and y.get("n") == name for y in f.walk(v)):
                            return True
                    return False
                if k == "delete":
                    return any(y["k"] in ("ref", "member") and y.get("n") == name for y in f.walk(x))
                if is_field:
                    return False
                if k == "return":
                    return any(y["k"] == "ref" and y.get("n") == name for y in f.walk(x))
                if k == "delete":
                    return any(y["k"] == "ref" and y.get("n") == name for y in f.walk(x))
                if k in ("assign",) or (k == "ocall" and x.get("op") == "="):
                    rhs = f.deref(x["c"][1])
                    if rhs is not None and any(y["k"] == "ref" and y.get("n") == name for y in f.walk(rhs)):
                        r = f.root(x["c"][0])
                        return r[0] in ("this", "global", "param")
                if k in ("call", "mcall", "construct"):
                    if any(f.deref(y) is not None and f.deref(y)["k"] == "ref" and f.deref(y).get("n") == name for y in f.call_args(x)):
                        if f.call_name(x) in ("set_parent", "set_owner"):
                            return False
                        return True
                return False

            def risky(x, name=name, is_field=is_field):
                if x is a or f.within(x, a):
                    return False
                if not th.node_may_throw(f, x):
                    return False
                if _protected_by_try(f, x, name, is_field):
                    return False
                return True
            ex = flow.Explorer(f, exempt_throw=False)
            p = ex.find_path(pos, handed_over, risky)
            if p is None:
                ctx.ok(rid, inst, where)
            else:
                last = p[-1][1][-1] if p and p[-1][1] else "?"
                ctx.violation(rid, inst, where, "held only by %s `%s` while a later step (line %s) may throw: the object leaks%s" % (
                    "the raw pointer member" if is_field else "the raw local pointer", name, last,
                    " (the destructor of an object under construction does not run)" if is_field else ""),
                    {"path": p})
    # constructors that allocate through a same-class helper (CO_Tree::init, ...): the object is still
    # under construction, so what the helper stored in raw members leaks if the rest of the body throws
    by_cls = {}
    for g in fx.functions:
        if g.clsn and not g.flag("pattern") and g.kind == "method":
            by_cls.setdefault((g.clsn, g.name), []).append(g)

    def alloc_fields(g):
        out = set()
        for a in g.walk():
            if _alloc_kind(g, a):
                how, name, _ = _binding(g, a)
                if how == "field":
                    out.add(name)
        return out
    seen2 = set()
    for f in fx.functions:
        if f.kind != "ctor" or f.flag("pattern") or not f.cfg:
            continue
        for c in f.calls():
            if c["k"] != "mcall" or f.call_obj(c) is None or f.root(f.call_obj(c)) != ("this",):
                continue
            flds = set()
            for g in by_cls.get((f.clsn, f.call_name(c)), []):
                flds |= alloc_fields(g)
            if not flds:
                continue
            key = (f.relfile, c.get("l"))
            if key in seen2:
                continue
            seen2.add(key)
            n_sites += 1
            inst = "%s %s() allocates %s" % (re.sub(r"\(.*", "", F.strip_ns(f.sig()))[:70], f.call_name(c), "/".join(sorted(flds)))

            def risky2(x, c=c, flds=flds):
                if x is c or f.within(x, c):
                    return False
                if not th.node_may_throw(f, x):
                    return False
                # protected if inside a try whose catch (...) releases (delete / deallocate / destroy) and rethrows
                for a in f.ancestors(x):
                    if a["k"] == "try" and f.within(x, a["c"][0]):
                        for h in a["c"][1:]:
                            h = f.deref(h)
                            if h.get("all") and any(y["k"] == "delete" or (y["k"] in ("call", "mcall") and f.call_name(y) in ("deallocate", "destroy"))
                                                    for y in f.walk(h)):
                                return False
                # a same-class callee that protects itself (try/catch releasing + rethrow inside it)
                if x["k"] == "mcall" and f.call_obj(x) is not None and f.root(f.call_obj(x)) == ("this",):
                    gs = by_cls.get((f.clsn, f.call_name(x)), [])
                    if gs and all(_self_protecting(g, th) for g in gs):
                        return False
                return True
            pos = f.cfg_pos(c)
            ex = flow.Explorer(f, exempt_throw=False)
            p = ex.find_path(pos, lambda x: False, risky2) if pos else None
            if p is None:
                ctx.ok(rid, inst, f.where(c))
            else:
                last = p[-1][1][-1] if p and p[-1][1] else "?"
                ctx.violation(rid, inst, f.where(c), "the constructor stores freshly allocated memory in %s through %s() and a later step (line %s) may throw: the destructor does not run, the memory leaks" % (
                    "/".join(sorted(flds)), f.call_name(c), last), {"path": p})
    ctx.floor(rid, n_sites, 70, "allocation sites")


def _self_protecting(g, th):
    """Every may-throw event of g lies in a try whose catch (...) releases and rethrows."""
    for x in g.walk():
        if not th.node_may_throw(g, x):
            continue
        if any(a["k"] == "catch" for a in g.ancestors(x)):
            continue    # inside a handler: the release has already happened
        ok = False
        for a in g.ancestors(x):
            if a["k"] == "try" and g.within(x, a["c"][0]):
                for h in a["c"][1:]:
                    h = g.deref(h)
                    if h.get("all") and any(y["k"] == "delete" or (y["k"] in ("call", "mcall") and g.call_name(y) in ("deallocate", "destroy"))
                                            for y in g.walk(h)):
                        ok = True
        if not ok:
            return False
    return True


# ---------------------------------------------------------------------------
# R14.1

VALIDATION_EXC = ("invalid_argument", "length_error", "domain_error", "logic_error", "out_of_range")
DOMAIN_CLASSES = ("Polyhedron", "C_Polyhedron", "NNC_Polyhedron", "Grid", "BD_Shape", "Octagonal_Shape", "Box",
                  "Pointset_Powerset", "Powerset", "Partially_Reduced_Product", "MIP_Problem", "PIP_Problem",
                  "Linear_Expression", "Constraint_System", "Generator_System", "Congruence_System",
                  "Grid_Generator_System", "Constraint", "Generator", "Congruence", "Grid_Generator", "Variables_Set")


def units_validate():
    us = [F.lib_unit(n) for n in F.library_sources()]
    us.append(F.driver_unit("domains.cc", file_re=r"_(inlines|templates)\.hh"))
    return us


def _is_validation_throw(f, n):
    if n["k"] == "throw" and any(e in n.get("t", "") for e in VALIDATION_EXC):
        return True
    if n["k"] in ("call", "mcall") and (f.call_name(n).startswith("throw_") or f.call_name(n).lstrip("~") == "check_space_dimension_overflow"):
        return True
    return False


R141_EXC = {
    ("Box", "concatenate_assign"): "x.set_empty() precedes check_space_dimension_overflow(): the only check reached after the write is the overflow of the space dimension, which would need an operand holding more than max_size() / 2 intervals in memory — no such call can be made (found when the overflow helper was added to the validation throws; not replayable, hence neither a finding nor a fix)",
}


def how_is_overflow_check(f, path, tids):
    """the validation reached at the end of the offending path is a check_space_dimension_overflow() call"""
    for t in tids:
        n = f.nodes.get(t)
        if n is not None and n["k"] in ("call", "mcall") and f.call_name(n).lstrip("~") == "check_space_dimension_overflow" and path and path[-1][1] and n.get("l") == path[-1][1][-1]:
            return True
    return False


def r14_1(ctx):
    rid = "R14.1"
    ctx.rule(rid, "validate before mutate: in every public non-const member of the domains and solvers, no write to the receiver (field assignment, non-const member call on *this or on a field, receiver passed by non-const reference) lies on a path to a validation throw (std::invalid_argument / length_error / domain_error / logic_error or a throw_* helper) of the same function")
    fx = ctx.extract(units_validate())
    n = 0
    seen = set()
    for f in fx.functions:
        if f.flag("pattern") or not f.cfg or f.kind != "method" or f.flag("const") or f.flag("static"):
            continue
        if f.clsn not in DOMAIN_CLASSES or f.j.get("access") != "public":
            continue
        key = (f.relfile, f.line)
        if key in seen:
            continue
        seen.add(key)
        throws = [x for x in f.walk() if _is_validation_throw(f, x)]
        if not throws:
            continue
        tids = set(t["i"] for t in throws)   # the throwing nodes themselves (default-argument sub-trees are shared)
        writes = []
        for wn, r, how in E.writes(f):
            if r[0] != "this":
                continue
            if f.within(wn, throws[0]) or any(f.within(wn, t) for t in throws):
                continue
            writes.append((wn, r, how))
        n += 1
        inst = re.sub(r"<.*?>(?=::)", "", F.strip_ns(f.sig()))
        bad = None
        ex = flow.Explorer(f, exempt_throw=False)
        for wn, r, how in writes:
            pos = f.cfg_pos(wn)
            if pos is None:
                continue
            p = ex.find_path(pos, lambda x: False, lambda x: x["i"] in tids)
            if p is not None:
                bad = (wn, r, how, p)
                break
        if bad is None:
            ctx.ok(rid, inst, f.where())
        elif (f.clsn, f.name) in R141_EXC and how_is_overflow_check(f, bad[3], tids):
            ctx.excepted(rid, inst, f.where(bad[0]), R141_EXC[(f.clsn, f.name)])
        else:
            wn, r, how, p = bad
            last = p[-1][1][-1] if p[-1][1] else "?"
            ctx.violation(rid, inst, f.where(wn), "the receiver is already modified (%s on %s) when the argument check at line %s rejects the call: the object does not keep its value" % (
                how, ".".join(r[1:]) or "*this", last), {"path": p})
    ctx.floor(rid, n, 150, "validating public mutators")


# (call that changes the state, call that puts it back): a function using both on one object, the second
# reachable from the first, changes that object temporarily
TEMP_MARKS = (("mark_as_necessarily_closed", "mark_as_not_necessarily_closed"),)


def r14_4(ctx):
    rid = "R14.5"
    ctx.rule(rid, "temporary marks are undone on every exit: where a function re-marks the topology of an object (mark_as_necessarily_closed / mark_as_not_necessarily_closed) and, further along, marks it back — the KLUDGE that lets a MIP_Problem read the epsilon dimension of an NNC constraint or constraint system, applied to const arguments and to the receiver's own constraints — (a) every normal path from the first mark reaches the second, and (b) every may-throw event between the two lies in a try block whose catch (...) handler marks the same object back; otherwise an exception (bad_alloc in add_constraints) leaves a const argument with the wrong topology and space dimension")
    fx = ctx.extract(units_alloc())
    th = Throwers(fx)
    n = 0
    seen = set()
    for f in fx.functions:
        if f.flag("pattern") or not f.cfg or (f.relfile, f.line) in seen:
            continue
        seen.add((f.relfile, f.line))
        calls = [c for c in f.calls() if c["k"] == "mcall" and f.call_name(c) in ("mark_as_necessarily_closed", "mark_as_not_necessarily_closed")]
        if len(calls) < 2:
            continue
        for c1 in calls:
            for a_name, b_name in TEMP_MARKS:
                if f.call_name(c1) != a_name or f.call_obj(c1) is None:
                    continue
                obj = f.text(f.call_obj(c1)).replace(" ", "")

                def is_back(x, b_name=b_name, obj=obj):
                    return x["k"] == "mcall" and f.call_name(x) == b_name and f.call_obj(x) is not None and f.text(f.call_obj(x)).replace(" ", "") == obj
                backs = [c for c in calls if is_back(c)]
                pos = f.cfg_pos(c1)
                if not backs or pos is None:
                    continue
                # temporary only if a marking back is reachable from the mark (ascii_load sets one or the other)
                ex = flow.Explorer(f, exempt_throw=False, track_env=False)
                if ex.find_path(pos, lambda x: False, target=is_back) is None:
                    continue
                if any(f.within(c1, f.deref(h)) for a in f.walk() if a["k"] == "try" for h in a["c"][1:]):
                    continue      # the handler's own marking back is not a new temporary change
                n += 1
                inst = "%s::%s marks `%s` temporarily (%s)" % (f.clsn or "", f.name, obj, a_name)
                p = flow.must_follow(f, c1, is_back, track_env=False)
                if p is not None:
                    ctx.violation(rid, inst, f.where(c1), "a normal path leaves the function without %s(): %s" % (b_name, flow.render_path(f, p)))
                    continue

                # is_back is nothrow itself; protected events are those under a restoring catch-all

                def prot(x):
                    for a in f.ancestors(x):
                        if a["k"] == "try" and f.within(x, f.deref(a["c"][0])):
                            for h in a["c"][1:]:
                                h = f.deref(h)
                                if h.get("all") and any(is_back(y) for y in f.walk(h)):
                                    return True
                    return False
                bad = ex.find_path(pos, is_back, target=lambda x: x["i"] != c1["i"] and x["k"] in ("call", "mcall", "ocall", "construct", "new", "throw") and not is_back(x) and th.node_may_throw(f, x) and not prot(x))
                if bad is None:
                    ctx.ok(rid, inst, f.where(c1))
                else:
                    # name the event: last line of the path
                    last = bad[-1][1][-1] if bad and bad[-1][1] else "?"
                    ctx.violation(rid, inst, f.where(c1), "between the mark and %s() a step that may throw (line %s) is not inside a try block whose catch (...) marks `%s` back: an exception leaves the object — a const argument or the receiver's constraint system — with the wrong topology" % (b_name, last, obj))
    ctx.floor(rid, n, 3, "temporary topology marks")


BASE_DOMAINS = ("Polyhedron", "Grid", "BD_Shape", "Octagonal_Shape", "Box", "C_Polyhedron", "NNC_Polyhedron")
DIM_TYPES = r"\b(Polyhedron|Grid|BD_Shape|Octagonal_Shape|Box|Constraint|Generator|Congruence|Grid_Generator|Constraint_System|Generator_System|Congruence_System|Grid_Generator_System|Linear_Expression|Variable|Variables_Set|Linear_Form)\b"
SYSTEM_TYPES = r"\b(Constraint_System|Congruence_System|Generator_System|Grid_Generator_System)\b"

R146_EXC = {
    ("Box", "has_lower_bound", "var"): "documented precondition (Box_defs.hh: `an undefined behavior is obtained if this assumption is not met`); not exported to the C interface",
    ("Box", "has_upper_bound", "var"): "as for has_lower_bound",
    ("Polyhedron", "drop_some_non_integer_points", "vars"): "no exception is documented for this overload; the set is only searched (`vars_p->find(i)` for i below the dimension), so variables beyond the dimension are ignored and nothing is indexed with them",
    ("BD_Shape", "concatenate_assign", "y"): "concatenation accepts an argument of any dimension (the result has the sum of the two)",
    ("Octagonal_Shape", "concatenate_assign", "y"): "concatenation accepts an argument of any dimension (the result has the sum of the two)",
    ("Polyhedron", "concatenate_assign", "y"): "concatenation accepts an argument of any dimension; only the size of the result is checked (check_space_dimension_overflow)",
    ("Grid", "concatenate_assign", "y"): "concatenation accepts an argument of any dimension; only the size of the result is checked",
    ("Box", "concatenate_assign", "y"): "concatenation accepts an argument of any dimension; only the size of the result is checked",
}


class _Validators:
    def __init__(self, fx):
        self.byname = {}
        self.byq = {}
        for f in fx.functions:
            self.byname.setdefault(f.name, []).append(f)
            self.byq.setdefault(f.q, []).append(f)
        self.memo = {}

    @staticmethod
    def _mentions(f, n, names):
        return n is not None and any(x["k"] == "ref" and x.get("n") in names for x in f.walk(n))

    @staticmethod
    def _is_throw(f, x):
        return x["k"] == "throw" or (x["k"] in ("call", "mcall") and (f.call_name(x).startswith("throw_") or f.call_name(x).startswith("check_space_dimension")))

    def validates(self, f, p, depth=3, system=False):
        """system: p is a constraint / generator / congruence SYSTEM, whose space dimension does not depend on its
        elements: a check that sits inside a loop (over the elements) does not run for a system without elements,
        or with tautologies only, and does not count."""
        k = (id(f), p, depth, system)
        if k in self.memo:
            return self.memo[k]
        self.memo[k] = False
        in_loop = (lambda x: any(a["k"] in ("for", "while", "do") for a in f.ancestors(x))) if system else (lambda x: False)
        # p and the locals derived from it (dimensions read off it, iterators over it, objects built from it)
        dset = set([p])
        changed = True
        while changed:
            changed = False
            for v in f.walk():
                if v["k"] == "var" and v.get("c") and v["n"] not in dset and any(self._mentions(f, f.deref(c_), dset) for c_ in v["c"]):
                    dset.add(v["n"])
                    changed = True
        for x in f.walk():
            if not self._is_throw(f, x) or in_loop(x):
                continue
            named = x["k"] in ("call", "mcall") and ("dimension_incompatible" in f.call_name(x) or "constraint_incompatible" in f.call_name(x) or "expression_too_complex" in f.call_name(x))
            guards = [f.deref(a["c"][2]) for a in f.ancestors(x) if a["k"] == "if"]
            dim_guard = any(self._mentions(f, g_, dset) and ("space_dim" in f.text(g_) or "dimension" in f.text(g_) or "size()" in f.text(g_) or ".id()" in f.text(g_)) for g_ in guards)
            # a dimension check: a *dimension* helper the argument is passed to or guards, or any throw under a
            # test of the argument's dimension
            if (named and (self._mentions(f, x, dset) or any(self._mentions(f, g_, dset) for g_ in guards))) or dim_guard:
                self.memo[k] = True
                return True
        if depth > 0:
            for c in f.calls():
                nm = f.call_name(c)
                if not nm or in_loop(c):
                    continue
                args = f.call_args(c)
                idx = [i for i, a in enumerate(args) if a is not None and self._mentions(f, a, dset)]
                recv = c["k"] == "mcall" and f.call_obj(c) is not None and self._mentions(f, f.call_obj(c), dset)
                if not idx and not recv:
                    continue
                q_ = c.get("callee")
                if c.get("dep") or (q_ or "").startswith("~"):
                    q_ = None
                if q_ and q_ in self.byq:
                    cands = self.byq[q_]            # type-resolved callee
                elif q_:
                    continue                         # resolved, body not in the facts (standard library, ...)
                else:
                    # dependent call in a template pattern: same-named members of the caller's own class, or free functions
                    cands = [g for g in self.byname.get(nm, []) if (g.clsn == f.clsn and f.clsn) or not g.clsn]
                # compatibility with the receiver is checked inside the domain classes (or the generic wrap_assign),
                # not in the constructors of the argument's own class
                cands = [g for g in cands if g.clsn in BASE_DOMAINS or (not g.clsn and g.name == "wrap_assign")]
                cands = sorted(cands, key=lambda g: (len(g.params) != len(args), bool(g.flag("pattern"))))[:24]
                for g in cands:
                    if g is f or len(g.params) < len(args):
                        continue
                    if any(i < len(g.params) and self.validates(g, g.params[i]["n"], depth - 1, system and bool(re.search(SYSTEM_TYPES, g.params[i]["t"]))) for i in idx):
                        self.memo[k] = True
                        return True
                    # p is the receiver of a member that checks its own dimension against an argument's
                    if recv and any(self.validates(g, q["n"], depth - 1) for q in g.params if q["n"] and re.search(DIM_TYPES, q["t"])):
                        self.memo[k] = True
                        return True
        return False


def r14_6(ctx):
    rid = "R14.6"
    ctx.rule(rid, "arguments are validated: every public member of the five simple domains (Polyhedron, Grid, BD_Shape, Octagonal_Shape, Box) that takes an argument with a space dimension (another domain element, a constraint / generator / congruence or a system of them, a linear expression, a variable or variable set) reaches, for that argument, a throw / throw_*() / check_space_dimension_overflow() that the argument (or a value derived from it) guards or is passed to — in the member itself or, following the argument through calls, in a callee within depth 3. The private workers only assert these conditions and the suite runs without assertions, so a public member that forgets the check indexes rows with a foreign dimension instead of throwing std::invalid_argument")
    fx = ctx.extract(units_alloc())
    V = _Validators(fx)
    # the generic wrap_assign lives in a header of its own
    for g in ctx.extract([F.driver_unit("all_headers.cc", file_re=r"wrap_assign\.hh")]).functions:
        V.byname.setdefault(g.name, []).append(g)
        V.byq.setdefault(g.q, []).append(g)
    n = 0
    seen = set()
    for f in fx.functions:
        if f.clsn not in BASE_DOMAINS or f.kind != "method" or f.j.get("access") != "public":
            continue
        key = (f.clsn, f.name, len(f.params), f.relfile, f.line)
        if key in seen or f.name in ("m_swap", "operator=", "swap", "ascii_load", "ascii_dump", "print"):
            continue
        seen.add(key)
        for q in f.params:
            if not q["n"] or not re.search(DIM_TYPES, q["t"]):
                continue
            if re.search(r"(^|[^t] )(Parma_Polyhedra_Library::)?Generator &$", q["t"]) and "const" not in q["t"]:
                continue      # output parameter (the point where the extremum is reached)
            n += 1
            inst = "%s::%s(%s)" % (f.clsn, f.name, q["n"])
            if V.validates(f, q["n"], 3, bool(re.search(SYSTEM_TYPES, q["t"]))):
                ctx.ok(rid, inst, f.where())
            elif (f.clsn, f.name, q["n"]) in R146_EXC:
                ctx.excepted(rid, inst, f.where(), R146_EXC[(f.clsn, f.name, q["n"])])
            else:
                ctx.violation(rid, inst, f.where(), "no validation of `%s` (%s) is reached from this public member: an argument of the wrong dimension goes on to workers that only assert compatibility" % (q["n"], q["t"][-50:]))
    ctx.floor(rid, n, 350, "dimensioned arguments of public members")


def r14_7(ctx):
    rid = "R14.7"
    ctx.rule(rid, "exceeding the maximum space dimension is reported as std::length_error: the documentation of every dimension-adding operation promises std::length_error when the result would exceed max_space_dimension() (and the C interface maps it to its own error code). Wherever a guard compares against max_space_dimension() and throws, the exception is std::length_error — thrown directly or through check_space_dimension_overflow(); throw_invalid_argument() there gives the caller the wrong exception class")
    fx = ctx.extract(units_alloc())
    seen = set()
    n = 0
    for f in fx.functions:
        key = (f.relfile, f.line)
        if key in seen:
            continue
        seen.add(key)
        for x in f.walk():
            if x["k"] in ("call", "mcall") and f.call_name(x).lstrip("~") == "check_space_dimension_overflow":
                n += 1
                ctx.ok(rid, "%s: check_space_dimension_overflow (line %s)" % (f.name, x.get("l")), f.where(x))
            if x["k"] != "if":
                continue
            cond = f.deref(x["c"][2])
            if cond is None or "max_space_dimension" not in " ".join(f.text(y) for y in f.walk(cond) if y["k"] in ("call", "mcall", "ref")):
                continue
            then = f.deref(x["c"][3])
            throws = [y for y in f.walk(then) if y["k"] == "throw" or (y["k"] in ("call", "mcall") and f.call_name(y).startswith("throw_"))] if then is not None else []
            if not throws:
                continue
            n += 1
            inst = "%s%s: guard `%s`" % ((f.clsn + "::") if f.clsn else "", f.name, f.text(cond)[:50])
            bad = [y for y in throws if not (y["k"] == "throw" and "length_error" in (f.text(y) + " " + str(y.get("t", ""))))]
            if bad:
                ctx.violation(rid, inst, f.where(bad[0]), "the overflow of the space dimension is reported by `%s`, not by std::length_error as documented" % f.text(bad[0])[:50])
            else:
                ctx.ok(rid, inst, f.where(x))
    ctx.floor(rid, n, 25, "space-dimension overflow checks")


def run(ctx):
    ctx.explanation = ("C14 structural clauses: validation precedes mutation, allocations are owned before anything can throw, every cycle of the "
                       "checkpointed loops passes an abandonment checkpoint; decides these ordering/ownership clauses, not leak-freedom for every failing allocation")
    ctx.assumptions = ["strong guarantee after bad_alloc in the middle of a mutator is not decided",
                       "may-throw inference is a may-analysis (over-approximation)"]
    r14_3(ctx)
    r14_2(ctx)
    r14_1(ctx)
    r14_4(ctx)
    r14_6(ctx)
    r14_7(ctx)




