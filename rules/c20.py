"""C20 — the C interface is a faithful, exception-tight wrapper.

Analysed on wrappers REGENERATED from /repo's current m4 templates plus the
hand-written ppl_c_implementation_common.cc.

R20.1 EXCEPTION-TIGHT  every extern "C" definition is a function-try-block with catch (...)
R20.2 HANDLER-TABLE    handlers: documented class -> documented code, notify_error with
                       the same code, no handler shadowed by an earlier base-class handler,
                       timeouts reset before reporting
R20.3 CONST-SAFE       no const_cast / reinterpret_cast / C-style cast in a wrapper body
R20.4 OWNERSHIP        ppl_new_*: new result stored through the out-parameter inside the try;
                       ppl_delete_*: exactly one delete of the handle
R20.5 BOOLEAN-MAPPING  predicates return `E ? 1 : 0` (never inverted / other constants)
R20.6 COMPLETENESS     every prototype of the public C headers has a definition
R20.7 ENUM-MAPPING     PPL_* status variables initialised from the same-named C++ enumerators
"""
import os
import re

from pplv import facts as F
from pplv import cgen
from pplv import flow

# documented mapping (ppl_c_header.h, enum ppl_enum_error_code) — the API contract
HANDLER_CODE = {
    "std::bad_alloc": "PPL_ERROR_OUT_OF_MEMORY",
    "std::invalid_argument": "PPL_ERROR_INVALID_ARGUMENT",
    "std::domain_error": "PPL_ERROR_DOMAIN_ERROR",
    "std::length_error": "PPL_ERROR_LENGTH_ERROR",
    "std::logic_error": "PPL_ERROR_LOGIC_ERROR",
    "std::overflow_error": "PPL_ARITHMETIC_OVERFLOW",
    "std::runtime_error": "PPL_ERROR_INTERNAL_ERROR",
    "std::exception": "PPL_ERROR_UNKNOWN_STANDARD_EXCEPTION",
    "timeout_exception": "PPL_TIMEOUT_EXCEPTION",
    "deterministic_timeout_exception": "PPL_TIMEOUT_EXCEPTION",
    "...": "PPL_ERROR_UNEXPECTED_ERROR",
}
# C++ standard hierarchy (base classes of each handled type)
BASES = {
    "std::bad_alloc": ["std::exception"],
    "std::invalid_argument": ["std::logic_error", "std::exception"],
    "std::domain_error": ["std::logic_error", "std::exception"],
    "std::length_error": ["std::logic_error", "std::exception"],
    "std::logic_error": ["std::exception"],
    "std::overflow_error": ["std::runtime_error", "std::exception"],
    "std::runtime_error": ["std::exception"],
    "std::exception": [],
    "timeout_exception": [],
    "deterministic_timeout_exception": [],
}
RESET = {"timeout_exception": "reset_timeout", "deterministic_timeout_exception": "reset_deterministic_timeout"}


def _norm_type(t):
    t = t.replace("const ", "").replace("&", "").strip()
    t = t.replace("Parma_Polyhedra_Library::Interfaces::C::", "").replace("Parma_Polyhedra_Library::", "")
    if t in ("bad_alloc", "invalid_argument", "domain_error", "length_error", "logic_error",
             "overflow_error", "runtime_error", "exception"):
        t = "std::" + t
    return t


def relname(f):
    p = f.file
    m = re.match(r".*/pplv-cgen-[^/]+/(.*)", p)
    if m:
        return _relgen(m.group(1))
    return f.relfile


HANDWRITTEN = ("ppl_c_implementation_common.cc", "ppl_c_implementation_common_defs.hh",
               "ppl_c_implementation_common_inlines.hh", "ppl_c_header.h")


def _relgen(base):
    return ("interfaces/C/" if base in HANDWRITTEN else "interfaces/C(generated)/") + base


def where(f, n=None):
    return "%s:%d" % (relname(f), (n or {}).get("l") or f.line)


def handlers(f):
    if f.ast["k"] != "try":
        return None
    return [f.deref(c) for c in f.ast["c"][1:]]


def r20_1_2(ctx, ext):
    ctx.rule("R20.1", "every extern \"C\" function definition is a function-try-block whose handlers include catch (...); bodies without a try are reported unless nothing in them can throw")
    ctx.rule("R20.2", "handler table: each handled class returns (and notifies) its documented error code; no handler is shadowed by an earlier handler of a base class; timeouts are reset before being reported; std::exception and catch-all are present")
    for f in ext:
        hs = handlers(f)
        inst = f.name
        if hs is None:
            calls = [c for c in f.calls() if not (c["k"] == "call" and f.call_name(c) in ("strdup",))]
            news = [x for x in f.walk() if x["k"] in ("new", "throw")]
            if not calls and not news:
                ctx.excepted("R20.1", inst, where(f), "body contains no call, new or throw: nothing can throw")
            else:
                ctx.violation("R20.1", inst, where(f),
                              "extern \"C\" body has no function-try-block but calls %s: a C++ exception (e.g. std::bad_alloc) can cross the language boundary" % (
                                  ", ".join(sorted(set(f.call_name(c) for c in calls)))[:120]))
            continue
        # everything of the body must be inside the try (function-try-block => yes)
        if not any(h.get("all") for h in hs):
            ctx.violation("R20.1", inst, where(f), "no catch (...) handler")
            continue
        ctx.ok("R20.1", inst, where(f))
        if f.j.get("ret") != "int":
            # no error code can be returned through a non-int result: the table does not apply
            ctx.count("R20.2", "non_int_wrappers_skipped")
            continue
        # handler table
        seen = []
        bad = None
        for h in hs:
            t = "..." if h.get("all") else _norm_type(h.get("t", ""))
            if t not in HANDLER_CODE:
                bad = "handler for undocumented class %s" % t
                break
            for b in BASES.get(t, []):
                if b in seen:
                    bad = "handler for %s is shadowed by the earlier handler for its base %s" % (t, b)
                    break
            if bad:
                break
            if "..." in seen:
                bad = "handler after catch (...)"
                break
            seen.append(t)
            rets = [x for x in f.walk(h) if x["k"] == "return"]
            codes = set()
            for r in rets:
                v = f.deref(r["c"][0]) if r.get("c") else None
                codes.add(v.get("n") if v is not None and v["k"] == "ref" else f.text(v))
            if codes != {HANDLER_CODE[t]}:
                bad = "handler for %s returns %s, documented code is %s" % (t, sorted(codes), HANDLER_CODE[t])
                break
            notes = [c for c in f.calls(h) if f.call_name(c) == "notify_error"]
            if len(notes) != 1:
                bad = "handler for %s does not call notify_error exactly once" % t
                break
            a0 = f.deref(f.call_args(notes[0])[0])
            if a0 is None or a0.get("n") != HANDLER_CODE[t]:
                bad = "handler for %s notifies %s but returns %s" % (t, f.text(a0), HANDLER_CODE[t])
                break
            if t in RESET:
                order = [f.call_name(c) for c in f.calls(h)]
                if RESET[t] not in order or order.index(RESET[t]) > order.index("notify_error"):
                    bad = "handler for %s does not call %s before reporting" % (t, RESET[t])
                    break
        if not bad:
            missing = [t for t in HANDLER_CODE if t not in seen]
            if missing:
                bad = "no handler for " + ", ".join(missing)
        if bad:
            ctx.violation("R20.2", inst, where(f), bad)
        else:
            ctx.ok("R20.2", inst, where(f))


def r20_3(ctx, ext, helpers):
    rid = "R20.3"
    ctx.rule(rid, "no const_cast, reinterpret_cast or C-style cast inside an extern \"C\" wrapper (handle conversions go through the typed to_const/to_nonconst helpers only, so const handles can only reach const members)")
    conv = 0
    for f in helpers:
        if f.name in ("to_const", "to_nonconst"):
            conv += 1
    ctx.count(rid, "typed_conversion_helpers", conv)
    ctx.require(rid, conv >= 40, "typed to_const/to_nonconst helpers not found (%d)" % conv)
    for f in ext:
        bad = [x for x in f.walk() if x["k"] == "cast" and x.get("ck") in ("const_cast", "reinterpret_cast", "cstyle")]
        if bad:
            ctx.violation(rid, f.name, where(f, bad[0]), "%s to %s inside a wrapper" % (bad[0]["ck"], bad[0].get("t")))
        else:
            ctx.ok(rid, f.name, where(f))


def _new_owned(f, nw):
    """The new-expression's value is owned at once: through (optional ?: and)
    to_nonconst into `*out_param`, into a global owner, or into a local pointer
    that reaches `*out_param = to_nonconst(local)` with no call in between."""
    from pplv import flow
    p = f.parent.get(nw["i"])
    while p is not None and (p["k"] == "cond" or (p["k"] == "call" and f.call_name(p) == "to_nonconst")):
        p = f.parent.get(p["i"])
    if p is None or p["k"] != "assign":
        if p is not None and p["k"] == "var" and p.get("t", "").endswith("*"):
            local = p["n"]
            start = f.parent.get(p["i"])
        else:
            return False
    else:
        lhs = f.deref(p["c"][0])
        if lhs is None:
            return False
        if lhs["k"] == "unop" and lhs.get("op") == "*":
            tgt = f.deref(lhs["c"][0])
            return tgt is not None and tgt["k"] == "ref" and tgt.get("dk") == "param"
        if lhs["k"] == "ref" and lhs.get("dk") == "global":
            return True
        if not (lhs["k"] == "ref" and lhs.get("dk") == "local"):
            return False
        local = lhs["n"]
        start = p

    def handed_over(x):
        if x["k"] != "assign":
            return False
        l = f.deref(x["c"][0])
        r = f.deref(x["c"][1])
        if l is None or r is None or l["k"] != "unop" or l.get("op") != "*":
            return False
        t = f.deref(l["c"][0])
        if t is None or t.get("dk") != "param":
            return False
        return r["k"] == "call" and f.call_name(r) == "to_nonconst" and \
            f.text(f.call_args(r)[0]) == local

    def risky(x):
        # any call other than the hand-over's own to_nonconst may throw and leak the local
        return x["k"] in ("call", "mcall", "ocall", "construct", "new", "throw") and \
            not (x["k"] == "call" and f.call_name(x) == "to_nonconst")
    pos = f.cfg_pos(start)
    if pos is None:
        return False
    ex = flow.Explorer(f, exempt_throw=False)
    # no path from the allocation to a risky event or to the exit that avoids the hand-over
    if ex.find_path(pos, handed_over, risky) is not None:
        return False
    if ex.find_path(pos, handed_over, "EXIT") is not None:
        return False
    return True


def r20_4(ctx, ext):
    rid = "R20.4"
    ctx.rule(rid, "ppl_new_*: every new-expression's result goes straight through to_nonconst into the out-parameter (`*p = to_nonconst(new T(...))`) inside the try; ppl_delete_*: exactly one delete, of the converted handle parameter")
    nnew = ndel = 0
    for f in ext:
        body = f.ast["c"][0] if f.ast["k"] == "try" else f.ast
        news = [x for x in f.walk(body) if x["k"] == "new" and not x.get("placement")]
        if f.name.startswith("ppl_new_") or news:
            for nw in news:
                nnew += 1
                inst = "%s new %s" % (f.name, F.strip_ns(nw.get("t", "")))
                ok = _new_owned(f, nw)
                if ok:
                    ctx.ok(rid, inst, where(f, nw))
                else:
                    ctx.violation(rid, inst, where(f, nw), "result of new is not stored directly into the out-parameter handle (may leak if a later step throws)")
            if f.name.startswith("ppl_new_") and not news:
                # builds through a helper (e.g. iterators): must still assign the out-parameter
                assigns = [x for x in f.walk(body) if x["k"] == "assign" and f.deref(x["c"][0])["k"] == "unop"]
                nnew += 1
                if assigns:
                    ctx.ok(rid, f.name + " (no new-expression)", where(f))
                else:
                    ctx.violation(rid, f.name + " (no new-expression)", where(f), "constructor wrapper never writes its out-parameter")
        if f.name.startswith("ppl_delete_"):
            ndel += 1
            dels = [x for x in f.walk(body) if x["k"] == "delete"]
            inst = f.name
            if len(dels) != 1:
                ctx.violation(rid, inst, where(f), "%d delete-expressions" % len(dels))
                continue
            arg = f.deref(dels[0]["c"][0])
            ok = arg is not None and arg["k"] == "call" and f.call_name(arg) in ("to_const", "to_nonconst")
            if ok:
                a = f.deref(f.call_args(arg)[0])
                ok = a is not None and a["k"] == "ref" and a.get("dk") == "param"
            if ok:
                ctx.ok(rid, inst, where(f, dels[0]))
            else:
                ctx.violation(rid, inst, where(f, dels[0]), "delete does not apply to the converted handle parameter")
    ctx.floor(rid, nnew, 150, "new-sites / constructor wrappers")
    ctx.floor(rid, ndel, 25, "ppl_delete_* wrappers")


def r20_5(ctx, ext):
    rid = "R20.5"
    ctx.rule(rid, "Boolean answers: every conditional return of a wrapper body is `E ? 1 : 0` with E not negated; no other constants")
    n = 0
    for f in ext:
        if f.ast["k"] != "try":
            continue
        body = f.ast["c"][0]
        k = 0
        for r in f.walk(body):
            if r["k"] != "return" or not r.get("c"):
                continue
            v = f.deref(r["c"][0])
            if v is None or v["k"] != "cond":
                continue
            n += 1
            k += 1
            inst = "%s #%d" % (f.name, k)
            c, a, b = [f.deref(x) for x in v["c"]]
            if not (a["k"] == "int" and a["v"] == "1" and b["k"] == "int" and b["v"] == "0"):
                ctx.violation(rid, inst, where(f, r), "Boolean mapped as `%s` instead of `? 1 : 0`" % f.text(v))
            elif c["k"] == "unop" and c.get("op") == "!":
                ctx.violation(rid, inst, where(f, r), "Boolean answer is negated: `%s`" % f.text(v))
            else:
                ctx.ok(rid, inst, where(f, r))
    ctx.floor(rid, n, 350, "conditional returns")


def r20_6(ctx, fx, ext, gen_dir):
    rid = "R20.6"
    ctx.rule(rid, "every function prototype of the public C headers (ppl_c_header.h, generated ppl_c_domains.h) has exactly one extern \"C\" definition")
    defs = {}
    for f in ext:
        defs.setdefault(f.name, []).append(f)
    n = 0
    for name, (file, line) in sorted(fx.protos.items()):
        base = os.path.basename(file)
        if base not in ("ppl_c_header.h", "ppl_c_domains.h"):
            continue
        n += 1
        w = "%s:%d" % (_relgen(base), line)
        ds = defs.get(name, [])
        if len(ds) == 1:
            ctx.ok(rid, name, w)
        elif not ds:
            ctx.violation(rid, name, w, "declared and documented in the public header but never defined: any C program calling it fails to link")
        else:
            ctx.violation(rid, name, w, "defined %d times" % len(ds))
    ctx.floor(rid, n, 1900, "prototypes in the public headers")


def _same_words(a, b):
    """MIP_PROBLEM_STATUS_UNFEASIBLE vs UNFEASIBLE_MIP_PROBLEM: same word multiset modulo filler words."""
    filler = {"STATUS", "CLASS", "MODE", "CONTROL", "PARAMETER", "NAME", "VALUE"}
    wa = sorted(w for w in a.split("_") if w not in filler)
    wb = sorted(w for w in b.split("_") if w not in filler)
    return wa == wb


def r20_7(ctx, fx):
    rid = "R20.7"
    ctx.rule(rid, "each C status variable PPL_X is initialised in ppl_initialize from the same-named C++ enumerator X (relation symbols, complexity classes, MIP/PIP statuses and control parameters)")
    n = 0
    for f in fx.functions:
        if f.name not in ("ppl_initialize", "ppl_initialize_aux", "init"):
            continue
        for a in f.walk():
            if a["k"] != "assign":
                continue
            lhs = f.deref(a["c"][0])
            if lhs is None or lhs["k"] != "ref" or not lhs.get("n", "").startswith("PPL_") or lhs.get("dk") != "global":
                continue
            rhs = f.deref(a["c"][1])
            enums = [x for x in f.walk(rhs) if x["k"] == "ref" and x.get("dk") == "enum"]
            meths = [x for x in f.walk(rhs) if x["k"] in ("call", "mcall")]
            n += 1
            inst = lhs["n"]
            want = lhs["n"][4:]
            names = [x["n"] for x in enums] + [f.call_name(x) for x in meths]
            if not names:
                ctx.violation(rid, inst, where(f, a), "initialiser is not an enumerator / named constant: %s" % f.text(rhs))
                continue
            # accepted spellings: X, and class-prefixed forms (POLY_CON_RELATION_X <- Poly_Con_Relation::x())
            if any(want == g.upper() or want.endswith("_" + g.upper()) or g.upper().endswith("_" + want)
                   or _same_words(want, g.upper()) for g in names):
                ctx.ok(rid, inst, where(f, a))
            else:
                ctx.violation(rid, inst, where(f, a), "initialised from %s" % f.text(rhs))
    ctx.floor(rid, n, 25, "PPL_* status variables initialised")


def r20_8(ctx, ext):
    rid = "R20.8"
    ctx.rule(rid, "operand order: in a wrapper ppl_<Class>_<op>..., the C++ member named like <op> is applied to the object behind the FIRST handle parameter, and handle parameters passed as arguments keep their declaration order (x.op(y), never y.op(x))")
    n = 0
    for f in ext:
        if f.ast["k"] != "try" or not f.params:
            continue
        p0 = f.params[0]
        if not re.match(r"ppl_(const_)?\w+_t$", p0["t"]):
            continue
        pnames = [p["n"] for p in f.params]
        body = f.ast["c"][0]
        k = 0
        for m in f.walk(body):
            if m["k"] != "mcall" or m.get("cext"):
                continue
            cn = f.call_name(m)
            if len(cn) < 4 or ("_" + cn) not in f.name:
                continue
            obj = f.call_obj(m)
            r = f.root(obj)
            if r[0] != "param":
                continue
            n += 1
            k += 1
            inst = "%s .%s #%d" % (f.name, cn, k)
            if r[1] != pnames[0]:
                ctx.violation(rid, inst, where(f, m), "member %s is applied to parameter `%s`, not to the first handle `%s`" % (cn, r[1], pnames[0]))
                continue
            order = []
            for a in f.call_args(m):
                ra = f.root(a)
                if ra[0] == "param" and ra[1] in pnames:
                    order.append(pnames.index(ra[1]))
            if order != sorted(order) or (order and order[0] == 0):
                ctx.violation(rid, inst, where(f, m), "handle parameters are passed out of order: %s" % f.text(m)[:80])
            else:
                ctx.ok(rid, inst, where(f, m))
    ctx.floor(rid, n, 600, "named member applications")


def _lib_calls(f, n):
    """Names of PPL library operations (not interface helpers, not std) applied under n."""
    out = set()
    for c in f.calls(n):
        if c.get("cext"):
            continue
        q = c.get("callee", "")
        if "Interfaces::C::" in q or not q.startswith("Parma_Polyhedra_Library::"):
            continue
        if c["k"] == "construct" and c.get("copy"):
            continue
        out.add(f.call_name(c))
    return out


def r20_10(ctx, ext):
    rid = "R20.10"
    ctx.rule(rid, "unconditional forwarding: a library operation inside a wrapper is never guarded by a test on the VALUE of an argument (an `if` whose condition reads data behind a parameter must apply the same library operations in both branches, or throw in the other); conditions on results of the operation itself are fine")
    n = 0
    for f in ext:
        body = f.ast["c"][0] if f.ast["k"] == "try" else f.ast
        k = 0
        for i in f.walk(body):
            if i["k"] != "if":
                continue
            cond, then, els = f.deref(i["c"][2]), f.deref(i["c"][3]), f.deref(i["c"][4])
            # does the condition read argument data?
            reads = []
            for x in f.walk(cond):
                if x["k"] == "ref" and x.get("dk") in ("param", "local"):
                    r = f.root(x)
                    if r[0] == "param":
                        reads.append(r[1])
            if not reads:
                continue
            a = _lib_calls(f, then)
            b = _lib_calls(f, els) if els is not None else set()
            if not a and not b:
                continue
            n += 1
            k += 1
            inst = "%s if#%d" % (f.name, k)
            throws_other = any(x["k"] == "throw" for x in (f.walk(els) if els is not None else [])) if a and not b else \
                any(x["k"] == "throw" for x in f.walk(then)) if b and not a else False
            if a == b or throws_other:
                ctx.ok(rid, inst, where(f, i))
            else:
                ctx.violation(rid, inst, where(f, i), "library operation(s) %s applied only when `%s` (argument data): the wrapper no longer forwards every call to the C++ operation" % (
                    ", ".join(sorted(a ^ b)), f.text(cond)[:60]))
    ctx.count(rid, "guarded_sites", n)
    ctx.floor(rid, n, 4, "argument-dependent guards around library operations")


# wrappers whose C name legitimately differs from the C++ member applied to the first handle
NAME_EXCEPTIONS = [
    (r"_(const_)?iterator_dereference$", {"pointset"}, "a powerset iterator dereferences to the disjunct's pointset()"),
    (r"_BHZ03_\w+_widening_assign$", {"BHZ03_widening_assign"}, "certificate and base widening are encoded in the C name, the member is BHZ03_widening_assign<Cert>"),
    (r"_BGP99_\w+_extrapolation_assign$", {"BGP99_extrapolation_assign"}, "base widening is encoded in the C name"),
    (r"_poly_hull_assign_if_exact$", {"upper_bound_assign_if_exact"}, "documented synonym: poly_hull_assign_if_exact is upper_bound_assign_if_exact"),
    (r"_Problem_number_of_constraints$", {"constraints_begin", "constraints_end"}, "counted as the distance between the constraint iterators"),
    (r"_Problem_constraint_at_index$", {"constraints_begin"}, "indexed from constraints_begin()"),
    (r"_Tree_Node_number_of_artificials$", {"art_parameter_count"}, "C name spells out artificials"),
    (r"_Tree_Node_begin$", {"art_parameter_begin"}, "iterator over artificial parameters"),
    (r"_Tree_Node_end$", {"art_parameter_end"}, "iterator over artificial parameters"),
]


def r20_9(ctx, ext):
    rid = "R20.9"
    ctx.rule(rid, "name agreement: a wrapper that applies C++ members to the object behind its first handle applies one whose name occurs in the wrapper's own name (else it is a named, reasoned exception)")
    n = 0
    for f in ext:
        if f.ast["k"] != "try" or not f.params:
            continue
        if not re.match(r"ppl_(const_)?\w+_t$", f.params[0]["t"]):
            continue
        body = f.ast["c"][0]
        ms = [m for m in f.walk(body) if m["k"] == "mcall" and not m.get("cext")
              and f.root(f.call_obj(m))[:2] == ("param", f.params[0]["n"])]
        if not ms:
            continue
        n += 1
        names = set(f.call_name(m) for m in ms)
        if any(("_" + nm) in f.name for nm in names):
            ctx.ok(rid, f.name, where(f))
            continue
        for rx, allowed, why in NAME_EXCEPTIONS:
            if re.search(rx, f.name) and names <= allowed:
                ctx.excepted(rid, f.name, where(f), why)
                break
        else:
            ctx.violation(rid, f.name, where(f), "applies %s to its first handle; none of these is named in the wrapper" % ", ".join(sorted(names)))
    ctx.floor(rid, n, 900, "wrappers applying members to their first handle")


def r20_11(ctx, fx):
    rid = "R20.11"
    ctx.rule(rid, "disarming clears the flag: a timeout object held in a global pointer P is created with `new W(.., F, ..)`, F being the global flag the library polls (abandon_expensive_computations); wherever P is deleted, F is set back to null on every path to the function's exit — unconditionally: an expired watcher leaves F pointing at the timeout exception, and if it stays set every later call through any handle returns PPL_TIMEOUT_EXCEPTION although the wrapped operation would succeed")
    reg = {}
    for f in fx.functions:
        for a in f.walk():
            if a["k"] != "assign":
                continue
            lhs, rhs = f.deref(a["c"][0]), f.deref(a["c"][1])
            if lhs is None or lhs["k"] != "ref" or lhs.get("dk") != "global" or rhs is None:
                continue
            news = [x for x in f.walk(rhs) if x["k"] == "new"]
            if not news:
                continue
            flags = sorted(set(x["n"] for x in f.walk(news[0]) if x["k"] == "ref" and x.get("dk") == "global"))
            if len(flags) == 1:
                reg[lhs["n"]] = flags[0]
    ctx.require(rid, len(reg) >= 2, "registrations `P = new W(.., flag, ..)` of the timeout objects: found %d, expected 2" % len(reg))
    n = 0
    for f in fx.functions:
        if not f.cfg:
            continue
        for d in f.walk():
            if d["k"] != "delete" or not d.get("c"):
                continue
            t = f.deref(d["c"][0])
            while t is not None and t["k"] in ("cast", "paren") and t.get("c"):
                t = f.deref(t["c"][0])
            if t is None or t["k"] != "ref" or t.get("n") not in reg:
                continue
            flag = reg[t["n"]]
            n += 1
            inst = "%s deletes %s (flag %s)" % (f.name, t["n"], flag)

            def clears(x, flag=flag):
                if x["k"] != "assign":
                    return False
                l, r = f.deref(x["c"][0]), f.deref(x["c"][1])
                while r is not None and r["k"] in ("cast", "paren") and r.get("c"):
                    r = f.deref(r["c"][0])
                return l is not None and l["k"] == "ref" and l.get("n") == flag and r is not None and (r["k"] == "nullptr" or f.text(r).strip() in ("nullptr", "0", "NULL"))
            p = flow.must_follow(f, d, clears, track_env=False)
            if p is None:
                ctx.ok(rid, inst, where(f, d))
            else:
                ctx.violation(rid, inst, where(f, d), "after the timeout object is deleted a path leaves %s() with %s still set (%s): once the watcher has fired, every later call returns the timeout error" % (f.name, flag, flow.render_path(f, p)))
    ctx.floor(rid, n, 2, "deletions of registered timeout objects")


def units(ctx):
    d, us = cgen.units(ctx.repo)
    for u in us:
        u.name_re = r"^ppl_|^PPL_|^Parma_Polyhedra_Library::Interfaces|^\(anonymous"
    return d, us


def run(ctx):
    ctx.explanation = ("C20 structural clauses on the regenerated wrappers: every extern \"C\" body is a catch-all function-try-block "
                       "with the documented class->code table, no unsafe casts, constructors/destructors own their handles, Booleans map "
                       "to 1/0 un-negated, every public prototype is defined, status variables mirror the C++ enumerators. Decides the "
                       "wrapper discipline, not that handle contents equal the C++ results for all inputs (that is C01-C17 behind the wrapper)")
    ctx.assumptions = ["wrappers are regenerated with m4 from /repo's templates exactly as interfaces/C/Makefile.am does (byte-identical to the build's on the unchanged tree)",
                       "interfaces/ppl_interface_instantiations.m4 (configure product) lists the enabled instantiations",
                       "to_const/to_nonconst are the only typed handle conversions; C++ typing then forbids non-const access through const handles"]
    gen_dir, us = units(ctx)
    fx = ctx.extract(us)
    ext = [f for f in fx.functions if f.flag("externC")]
    helpers = [f for f in fx.functions if not f.flag("externC")]
    ctx.rule("R20.0", "instance floor: extern \"C\" definitions found in the regenerated interface")
    ctx.ok("R20.0", "extern-C-definitions", "interfaces/C")
    ctx.floor("R20.0", len(ext), 1900, "extern \"C\" definitions")
    r20_1_2(ctx, ext)
    r20_3(ctx, ext, helpers)
    r20_4(ctx, ext)
    r20_5(ctx, ext)
    r20_6(ctx, fx, ext, gen_dir)
    r20_7(ctx, fx)
    r20_8(ctx, ext)
    r20_9(ctx, ext)
    r20_10(ctx, ext)
    r20_11(ctx, fx)
