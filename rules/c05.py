"""C05 — grids: the lazy status protocol and copy completeness.

R5.1 STATUS-PAIR   flag typestate: no path through a member leaves a claim about a description
                   (up to date / minimized) standing after the description it was derived from,
                   or the description itself, has been written
R5.3 COPY-SIBLINGS the copy constructor and operator= treat the source's states alike
R5.5 PRECONDITIONS every asserted (or tabled implicit) up-to-date precondition is entailed by the
                   state of the object handed over, and every content read of con_sys / gen_sys
                   happens where that description is known up to date
Hermite reduction, conversion, relation_with, frequency, difference: arithmetic, not decided.
"""
import os

from pplv import facts as F
from pplv import typestate as T
from pplv import flow

GRID = T.Protocol(
    "Grid", ["g_min", "c_min"],
    written_fields={"g_min": {"gen_sys"}, "c_min": {"con_sys"}},
    reset_calls={"clear_generators_minimized": {"g_min"}, "clear_congruences_minimized": {"c_min"},
                 "clear_generators_up_to_date": {"g_utd", "g_min"}, "clear_congruences_up_to_date": {"c_utd", "c_min"},
                 "set_empty": {"*"}, "set_zero_dim_univ": {"*"}},
    set_calls={"set_generators_minimized": "g_min", "set_congruences_minimized": "c_min",
               "set_generators_up_to_date": "g_utd", "set_congruences_up_to_date": "c_utd"},
    test_calls={"generators_are_minimized": ("g_min", True), "congruences_are_minimized": ("c_min", True),
                "generators_are_up_to_date": ("g_utd", True), "congruences_are_up_to_date": ("c_utd", True),
                "marked_empty": ("*", True)},
    implies_clear={"g_utd": ("g_min",), "c_utd": ("c_min",)})

GRID_LEMMAS = []

# Write kinds for which EVERY site of today's tree withdraws the minimized claim (unanimous
# majority, then confirmed by reading): value-changing edits of a description.  Writes of other
# kinds (set_space_dimension, add_universe_rows_and_columns, remove_trailing_rows, ... in the
# dimension-changing members, which keep the triangular form through dim_kinds; whole-object
# copies; ascii_load) are counted but not judged.
ARMED_KINDS = ("call:affine_image", "call:affine_preimage", "call:insert", "call:permute_space_dimensions",
               "call:concatenate", "call:remove_space_dimensions", "call:insert_verbatim", "call:swap_space_dimensions",
               "call of writer")


def units():
    r = F.REPO
    names = ["Grid_public.cc", "Grid_nonpublic.cc", "Grid_chdims.cc", "Grid_widenings.cc", "Grid_conversion.cc", "Grid_simplify.cc"]
    us = [F.lib_unit(n) for n in names]
    us.append(F.driver_unit("domains.cc", file_re=r"Grid_(inlines|templates)\.hh"))
    return us


def r5_1(ctx, fx):
    rid = "R5.1"
    ctx.rule(rid, "Grid lazy status: after a value-changing edit of a description (affine image/preimage, insertion, permutation, concatenation, removal of dimensions — the kinds for which every site of the confirmed tree does so) no path leaves that description's `minimized` claim standing (flag typestate over all CFG paths; private writers pass the obligation to their callers)")
    an = T.Analysis(fx, GRID, lemmas=GRID_LEMMAS)
    n = 0
    for f in an.funcs:
        if f.kind == "dtor":
            continue
        for flag in GRID.flags:
            for wn, desc, path, lemma in an.analyse(f, flag):
                if not desc.startswith(ARMED_KINDS):
                    ctx.count(rid, "events_of_unarmed_kinds")
                    continue
                n += 1
                inst = "Grid::%s [%s] %s" % (F.strip_ns(f.sig()).split("::", 1)[-1], flag, desc)
                if path is None:
                    ctx.ok(rid, inst, f.where(wn))
                elif lemma is not None:
                    ctx.excepted(rid, inst, f.where(wn), lemma)
                elif f.j.get("access") != "public" and f.kind != "ctor":
                    ctx.excepted(rid, inst, f.where(wn), "non-public writer: the obligation is carried by its callers")
                    ctx.count(rid, "private_writer_events")
                else:
                    ctx.violation(rid, inst, f.where(wn), "description written and a path reaches the exit with `%s` still claimed: %s" % (flag, flow.render_path(f, path)), {"path": path})
    ctx.floor(rid, n, 35, "armed write events x flags")


def _source_cases(f):
    """Texts of the branch conditions that test the SOURCE object (the parameter) of a copy."""
    if not f.params:
        return set()
    y = f.params[0]["n"]
    out = set()
    for n in f.walk():
        if n["k"] != "if":
            continue
        cond = f.deref(n["c"][2])
        for c in f.walk(cond):
            if c["k"] == "mcall" and f.call_obj(c) is not None and f.root(f.call_obj(c)) == ("param", y):
                out.add(f.call_name(c))
    return out


def r5_3(ctx, fx):
    import re
    rid = "R5.3"
    ctx.rule(rid, "copy siblings: for every class with a user-provided copy constructor and copy assignment, each state of the source that operator= distinguishes (y.marked_empty(), y.X_are_up_to_date(), ...) is distinguished by the copy constructor too (and vice versa)")
    n = 0
    ctors, assigns = {}, {}
    for f in fx.functions:
        if f.flag("pattern") or not f.cls:
            continue
        k = re.sub(r"<.*", "", F.strip_ns(f.cls))
        if f.flag("copyassign"):
            assigns.setdefault(k, f)
        elif f.kind == "ctor" and f.params and re.sub(r"<.*", "", F.strip_ns(f.params[0]["t"]).replace("const ", "").replace("&", "").strip()) == k:
            # the copy constructor proper, or its (y, Complexity_Class) variant
            if len(f.params) == 1 or (len(f.params) == 2 and "Complexity_Class" in f.params[1]["t"]):
                if k not in ctors or len(_source_cases(f)) > len(_source_cases(ctors[k])):
                    ctors[k] = f
    # R5.4: only classes with an observer that hands out a description member as it is when the
    # object is marked empty depend on every copy establishing the canonical empty representation
    relies = set()
    for f in fx.functions:
        if not f.flag("const") or f.flag("pattern") or not f.cls:
            continue
        for i in f.walk():
            if i["k"] != "if" or f.text(f.deref(i["c"][2])) != "marked_empty()":
                continue
            then = f.deref(i["c"][3])
            stmts = then.get("c", []) if then is not None and then["k"] == "block" else [then]
            first = f.deref(stmts[0]) if stmts else None
            if first is not None and first["k"] == "return" and first.get("c") and f.root(first["c"][0])[0] == "this" \
                    and len(f.root(first["c"][0])) == 2:
                relies.add(re.sub(r"<.*", "", F.strip_ns(f.cls)))
    ctx.count(rid, "classes_handing_out_a_member_when_marked_empty", len(relies))
    for k in sorted(set(ctors) & set(assigns)):
        if k not in relies:
            ctx.note(rid, "%s: empty objects are canonicalised lazily by the observers, copy operations need not agree on marked_empty" % k)
            continue
        a, c = _source_cases(assigns[k]), _source_cases(ctors[k])
        if not a and not c:
            continue
        n += 1
        inst = "%s copy constructor vs operator=" % k
        if a == c:
            ctx.ok(rid, inst, ctors[k].where())
        else:
            only_a, only_c = sorted(a - c), sorted(c - a)
            ctx.violation(rid, inst, ctors[k].where(), "the two copy operations distinguish different states of the source: operator= tests %s, the copy constructor tests %s" % (
                only_a or "nothing more", only_c or "nothing more"))
    ctx.floor(rid, n, 1, "classes with state-dependent copy operations that rely on a canonical empty representation")


R55_EXC = {
    ("generator_widening_assign", "select_wider_generators"): ("y", "if yy.update_generators() finds y empty it clears y's generators and the row-count comparison just above returns first (x non-empty has at least one row): select_wider_generators is reached only with y non-empty (replayed)"),
    ("generator_widening_assign", "reads", "y.gen_sys"): "yy.update_generators() is called for its effect; if it finds y empty it clears y's generators, and the row-count comparison that follows returns with x unchanged (x non-empty has at least one row): the correct result for an empty y (replayed)",
    ("Grid", "assert", "GU"): "Grid(const Polyhedron&): `use_constraints = ph.constraints_are_minimized() || !ph.generators_are_up_to_date()` is a computed bool the explorer cannot correlate; in its false branch the generators are up to date",
    ("upper_bound_assign_if_exact", "assert", "GU"): "the preceding x.is_included_in(y) returned false, which it does only after bringing the generators of x up to date (read in Grid_nonpublic.cc)",
    ("generalized_affine_image", "update_generators"): ("this", "add_recycled_congruences(new_cgs1) with a non-empty system brings the congruences up to date before inserting (or finds the grid empty, excluded by the `!is_empty()` guard)"),
    ("generalized_affine_preimage", "update_generators"): ("this", "as for generalized_affine_image"),
}


def r5_5(ctx):
    from rules import precond
    rid = "R5.5"
    ctx.rule(rid, "lazy-state assume/guarantee for Grid: the PPL_ASSERTs about the object not being marked empty and about congruences/generators being up to date or minimized (mined from the assertion-enabled view) are entry preconditions discharged at every call site along every CFG path, or entailed where they stand; update_congruences() additionally requires generators up to date (tabled implicit precondition); every content read of con_sys (gen_sys) happens in a state entailing congruences (generators) up to date. State: branch tests, update_* / minimize / set_* / clear_* members, and the invariants `minimized implies up to date` and `a non-empty grid has one description up to date`")
    prev = precond.use(precond.GRID)
    try:
        n = precond.discharge(ctx, rid, R55_EXC, judged_atoms=("CU", "GU", "NE", "ME"), direct=True)
    finally:
        precond.use(prev)
    ctx.floor(rid, n, 120, "assertions, call sites and description reads with lazy-state obligations")


DIMCHG = ("set_space_dimension", "add_universe_rows_and_columns", "add_unit_rows_and_space_dimensions", "remove_space_dimensions",
          "remove_trailing_space_dimensions", "remove_higher_space_dimensions", "concatenate", "permute_space_dimensions",
          "swap_space_dimensions", "add_universe_rows_and_space_dimensions", "shift_space_dimensions")


def r5_7(ctx, fx):
    rid = "R5.7"
    ctx.rule(rid, "dim_kinds alignment: the vector dim_kinds describes, per dimension, the shape of whichever description is minimized. In every Grid member, on every path on which the space dimension of con_sys / gen_sys (or of a system passed in by reference) is changed, either dim_kinds is edited as well, or the object is replaced wholesale, or at the exit both `minimized` claims are known false (false edge of *_are_minimized() / *_are_up_to_date(), or cleared) — otherwise a later conversion reads kinds for dimensions that do not exist or misses existing ones")
    n = 0
    seen = set()
    for f in fx.functions:
        if f.clsn != "Grid" or f.flag("pattern") or not f.cfg or (f.relfile, f.line) in seen or f.kind in ("ctor", "dtor"):
            continue
        seen.add((f.relfile, f.line))
        if f.name in ("ascii_load", "m_swap", "operator=", "OK"):
            continue
        # private helpers receive the two descriptions by reference; the systems a public member takes are user input
        sysparams = set(p["n"] for p in f.params if ("Congruence_System &" in p["t"] or "Grid_Generator_System &" in p["t"]) and "const" not in p["t"]) \
            if f.j.get("access") != "public" and not f.flag("static") else set()

        def is_dimchg(x):
            if x["k"] != "mcall" or f.call_name(x) not in DIMCHG or f.call_obj(x) is None:
                return False
            r = f.root(f.call_obj(x))
            return r in (("this", "con_sys"), ("this", "gen_sys")) or (r[0] == "param" and len(r) == 2 and r[1] in sysparams)
        if not any(is_dimchg(x) for x in f.walk()):
            continue
        n += 1
        inst = "Grid::%s/%d" % (f.name, len(f.params))

        def elem_effect(x, env):
            if is_dimchg(x):
                env = dict(env); env["chg"] = True
            if x["k"] == "mcall" and f.call_obj(x) is not None:
                r = f.root(f.call_obj(x))
                nm = f.call_name(x)
                if r == ("this", "dim_kinds") and not x.get("cconst"):
                    env = dict(env); env["dk"] = True
                elif r == ("this",):
                    if nm in ("clear_congruences_minimized", "clear_congruences_up_to_date"):
                        env = dict(env); env["cm"] = False
                    elif nm in ("clear_generators_minimized", "clear_generators_up_to_date"):
                        env = dict(env); env["gm"] = False
                    elif nm in ("set_empty", "set_zero_dim_univ", "m_swap"):
                        env = dict(env); env["dk"] = True
                    elif nm in ("set_congruences_minimized",):
                        env = dict(env); env["cm"] = True
                    elif nm in ("set_generators_minimized",):
                        env = dict(env); env["gm"] = True
            if x["k"] in ("call", "mcall", "ocall"):
                # dim_kinds handed to a routine that rebuilds it (simplify, conversion, swap)
                for a, m in zip(f.call_args(x), x.get("pm", "")):
                    if a is not None and m in "rp" and f.root(a) == ("this", "dim_kinds"):
                        env = dict(env); env["dk"] = True
                if x["k"] == "call" and f.call_name(x) == "swap" and any(f.root(a) == ("this",) for a in f.call_args(x) if a is not None):
                    env = dict(env); env["dk"] = True
            if x["k"] == "assign" and f.root(f.deref(x["c"][0])) == ("this", "dim_kinds"):
                env = dict(env); env["dk"] = True
            return env

        def edge_effect(cond, taken, env):
            cn = f.deref(cond)
            pol = True
            while cn is not None and cn["k"] == "unop" and cn.get("op") == "!":
                pol = not pol
                cn = f.deref(cn["c"][0])
            if cn is not None and cn["k"] == "mcall" and (f.call_obj(cn) is None or f.root(f.call_obj(cn)) == ("this",)):
                truth = taken if pol else not taken
                nm = f.call_name(cn)
                if nm == "congruences_are_minimized":
                    env = dict(env); env["cm"] = truth
                elif nm == "generators_are_minimized":
                    env = dict(env); env["gm"] = truth
                elif nm == "congruences_are_up_to_date" and not truth:
                    env = dict(env); env["cm"] = False
                elif nm == "generators_are_up_to_date" and not truth:
                    env = dict(env); env["gm"] = False
                elif nm == "marked_empty" and truth:
                    env = dict(env); env["dk"] = True
            return env
        ex = flow.Explorer(f, elem_effect=elem_effect, edge_effect=edge_effect)
        p = ex.find_path("ENTRY", lambda x: False, "EXIT",
                         exit_ok=lambda env: (not env.get("chg")) or env.get("dk") or (env.get("cm") is False and env.get("gm") is False))
        if p is None:
            ctx.ok(rid, inst, f.where())
        else:
            ctx.violation(rid, inst, f.where(), "the dimension of a description changes on a path that leaves dim_kinds as it is while a `minimized` claim may stand: " + flow.render_path(f, p))
    ctx.floor(rid, n, 6, "Grid members changing the dimension of a description")


def run(ctx):
    ctx.explanation = ("C05 Grid lazy-status protocol as a flag typestate over all CFG paths; decides the protocol clause, not the lattice arithmetic")
    fx = ctx.extract(units())
    r5_1(ctx, fx)
    r5_7(ctx, fx)
    fx2 = ctx.extract([F.lib_unit("Polyhedron_nonpublic.cc", name_re=r"Polyhedron::Polyhedron|operator="),
                       F.lib_unit("Polyhedron_public.cc", name_re=r"Polyhedron::(constraints|generators)$"),
                       F.lib_unit("Grid_public.cc", name_re=r"Grid::Grid|operator=|Grid::(congruences|grid_generators|minimized_)")])
    r5_3(ctx, fx2)
    r5_5(ctx)
    from rules import dirty
    fxd = ctx.extract([F.lib_unit(n) for n in ("Grid_public.cc", "Grid_nonpublic.cc", "Grid_chdims.cc", "Grid_widenings.cc", "Grid_conversion.cc",
                                                "Grid_simplify.cc", "Congruence.cc", "Congruence_System.cc", "Grid_Generator.cc",
                                                "Grid_Generator_System.cc", "Grid_Certificate.cc")])
    dirty.run(ctx, "R5.6", fxd, lambda f: True, 45, "judged on the Grid sources and the congruence / grid-generator classes")
