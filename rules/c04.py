"""C04 — canonical-form protocol of BD shapes and octagons (rational instantiation).

R4.2 RESET-AFTER-WRITE  no path through a member leaves `closed` / `reduced` /
     `strongly closed` claimed after the matrix it describes has been written.
R4.1 CLOSE-BEFORE-READ  queries that are exact only on the closed matrix close the
     operand(s) before reading them.
Exactness of the closure algorithms themselves is numeric and not decided.
"""
import re

from pplv import facts as F
from pplv import typestate as T
from pplv import flow

BDS = T.Protocol(
    "BD_Shape", ["closed", "reduced"],
    written_fields={"closed": {"dbm"}, "reduced": {"dbm"}},
    reset_calls={"reset_shortest_path_closed": {"closed", "reduced"},
                 "reset_shortest_path_reduced": {"reduced"},
                 "set_empty": {"*"}, "set_zero_dim_univ": {"*"}},
    set_calls={"set_shortest_path_closed": "closed", "set_shortest_path_reduced": "reduced"},
    test_calls={"marked_shortest_path_closed": ("closed", True),
                "marked_shortest_path_reduced": ("reduced", True),
                "marked_empty": ("*", True)},
    implies_clear={"closed": ("reduced",)},
    preserving={
        "forget_all_dbm_constraints": {"closed": "setting row and column v of a closed matrix to +inf keeps every triangle inequality (an infinite entry only ever appears on the larger side)"},
        "forget_binary_dbm_constraints": {"closed": "as forget_all_dbm_constraints: entries are only raised to +inf in row/column v, except the unary ones which are kept"},
    })

OCT = T.Protocol(
    "Octagonal_Shape", ["strongly_closed"],
    written_fields={"strongly_closed": {"matrix"}},
    reset_calls={"reset_strongly_closed": {"strongly_closed"},
                 "set_empty": {"*"}, "set_zero_dim_univ": {"*"}},
    set_calls={"set_strongly_closed": "strongly_closed"},
    test_calls={"marked_strongly_closed": ("strongly_closed", True),
                "marked_empty": ("*", True)},
    preserving={
        "forget_all_octagonal_constraints": {"strongly_closed": "setting the two rows and two columns of v to +infinity keeps every triangle and coherence inequality of a strongly closed matrix"},
        "forget_binary_octagonal_constraints": {"strongly_closed": "as forget_all_octagonal_constraints, the unary cells are kept"},
    })


# Write events that provably keep a claim, keyed (function, flag, regex on the event description).
# Every entry is a lemma about the write itself, confirmed by reading; a NEW unjustified write in
# the same function is still reported (the table never exempts a whole function).
L_MAX = "pointwise maximum of two (strongly) closed matrices is (strongly) closed: max(a,b) <= max(a1+a2, b1+b2) <= max(a1,b1)+max(a2,b2); both operands are closed by the closure calls that dominate the loop (R4.1)"
L_EMBED = "embedding: the new rows/columns are +infinity (unconstrained dimensions), which keeps every triangle inequality; the function resets the reduced claim itself"
L_SUBMATRIX = "a principal sub-matrix of a closed matrix is closed: removing dimensions only deletes rows/columns (rows and columns are moved, not changed); the function closes before removing"
L_FOLD = "join of row/column `dest` with those of the folded variables of a closed matrix: pointwise maximum of rows and columns of one closed matrix is closed; reduction is reset by remove_space_dimensions which follows on every path"
L_LOAD = "ascii_load replaces the whole object: status and matrix are read from the same dump, in that order"
L_HELPER = "drop_some_non_integer_points_helper (same class) resets closure itself whenever it changes the element (checked as R4.3)"
L_TRANSLATE = "translation of variable v by a constant: c is added to row v and -c to column v, so every sum dbm[i][v]+dbm[v][j] is unchanged; closure and reduction are preserved (exact over rationals, which is C04's scope)"
L_FRESH = "writes follow `*this = BD_Shape(n, UNIVERSE)`: a freshly constructed universe never claims reduction, and the constructor then claims closure only"
L_ZERO = "zero-dimensional branch: the status of a zero-dimensional shape is ZERO_DIM_UNIV or EMPTY, it carries no reduced claim"
L_AFTER_FORGET = "deduce_* is reached only after forget_all_dbm_constraints(v) made dbm[0][v] (resp. dbm[v][0]) +infinity and add_dbm_constraint on that entry with a finite bound (precondition of deduce_*) necessarily changed it, which resets closure"
L_INT_ONLY = "integer-only operation: the rational instantiation throws at entry; integer instantiations are outside C04 (rationals)"
UNDECIDED = "UNDECIDED (not claimed): refine() may let deduce_* overwrite column v while add_dbm_constraint left closure claimed; no failing replay was found because every caller then forgets or re-derives column v (generalized_affine_preimage, bounded_affine_preimage); kept visible here rather than silently dropped"

BDS_LEMMAS = [
    ("BD_Shape", "reduced", r"div_round_up\(dbm\[", L_FRESH),
    ("upper_bound_assign", "closed", r"dbm_ij = y_dbm_ij", L_MAX),
    ("affine_image", "closed", r"add_assign_r\(dbm_(vi|iv), dbm_(vi|iv), [cd], ROUND_UP\)", L_TRANSLATE),
    ("affine_image", "reduced", r"add_assign_r\(dbm_(vi|iv), dbm_(vi|iv), [cd], ROUND_UP\)", L_TRANSLATE),
    ("generalized_affine_image", "closed", r"call of writer deduce_(v_minus_u|u_minus_v)_bounds", L_AFTER_FORGET),
    ("generalized_affine_preimage", "closed", r"call of writer refine", UNDECIDED),
    ("generalized_affine_preimage", "reduced", r"call of writer refine", UNDECIDED),
    ("bounded_affine_preimage", "closed", r"call of writer refine", UNDECIDED),
    ("bounded_affine_preimage", "reduced", r"call of writer refine", UNDECIDED),
    ("drop_some_non_integer_points", "closed", r"drop_some_non_integer_points_helper", L_HELPER),
    ("drop_some_non_integer_points", "reduced", r"drop_some_non_integer_points_helper", L_HELPER),
    ("add_space_dimensions_and_embed", "closed", r"call:grow", L_EMBED),
    ("add_space_dimensions_and_project", "reduced", r"call:grow dbm.grow\(m \+ 1\)|assign_r\(dbm_i\[j\], 0", L_ZERO),
    ("remove_space_dimensions", "closed", r"arg:swap|assign_or_swap|resize_no_copy", L_SUBMATRIX),
    ("remove_higher_space_dimensions", "closed", r"resize_no_copy", L_SUBMATRIX),
    ("fold_space_dimensions", "closed", r"max_assign", L_FOLD),
    ("fold_space_dimensions", "reduced", r"max_assign", L_FOLD),
    ("ascii_load", "closed", r"dbm.ascii_load", L_LOAD),
    ("ascii_load", "reduced", r"dbm.ascii_load", L_LOAD),
]
L_OCT_TRANSLATE = "translation / reflection of variable v by a constant: d is added to the column cells of v and -d to the row cells (2d on the unary cells), swapped consistently under sign symmetry, so all triangle and coherence sums are unchanged: strong closure is preserved (exact over rationals)"
OCT_LEMMAS = [
    ("affine_image", "strongly_closed", r"add_assign_r\(m_(v_j|cv_j|i_v|i_cv|cv_v|v_cv), |swap\(m_(v_j, m_cv_j|i_v, m_i_cv|cv_v, m_v_cv)\)", L_OCT_TRANSLATE),
    ("generalized_affine_preimage", "strongly_closed", r"call of writer refine", UNDECIDED),
    ("bounded_affine_preimage", "strongly_closed", r"call of writer refine", UNDECIDED),
    ("upper_bound_assign", "strongly_closed", r"max_assign\(\*i, \*j\)", L_MAX),
    ("integer_upper_bound_assign_if_exact", "strongly_closed", r"tight_closure_assign", L_INT_ONLY),
    ("drop_some_non_integer_points", "strongly_closed", r"drop_some_non_integer_points_helper", L_HELPER),
    ("add_space_dimensions_and_embed", "strongly_closed", r"call:grow", L_EMBED),
    ("remove_space_dimensions", "strongly_closed", r"assign_or_swap|call:shrink", L_SUBMATRIX),
    ("remove_higher_space_dimensions", "strongly_closed", r"call:shrink", L_SUBMATRIX),
    ("fold_space_dimensions", "strongly_closed", r"max_assign", L_FOLD),
    ("ascii_load", "strongly_closed", r"matrix.ascii_load", L_LOAD),
]


def units(tier):
    return [F.driver_unit("shapes_mpq.cc", file_re=r"(BD_Shape|Octagonal_Shape)_(templates|inlines)\.hh")]


def r4_2(ctx, fx, proto, lemmas):
    rid = "R4.2"
    an = T.Analysis(fx, proto, lemmas=lemmas)
    n = 0
    for f in an.funcs:
        if f.kind in ("dtor",):
            continue
        for flag in proto.flags:
            res = an.analyse(f, flag)
            for wn, desc, path, lemma in res:
                n += 1
                inst = "%s::%s [%s] %s" % (proto.clsn, f.sig().split("::", 1)[-1], flag, desc)
                if path is None:
                    ctx.ok(rid, inst, f.where(wn))
                elif lemma is not None:
                    ctx.excepted(rid, inst, f.where(wn), lemma)
                elif f.j.get("access") != "public" and f.kind != "ctor":
                    ctx.excepted(rid, inst, f.where(wn), "non-public writer: the obligation is carried by its callers (its call sites are write events there)")
                    ctx.count(rid, "private_writer_events")
                else:
                    ctx.violation(rid, inst, f.where(wn),
                                  "matrix written and a path reaches the exit with `%s` still claimed: %s" % (
                                      flag, flow.render_path(f, path)), {"path": path})
    unused = [l for i, l in enumerate(lemmas) if i not in an.lemma_used]
    for fn, fl, rx, why in unused:
        ctx.note(rid, "lemma entry not needed on this tree: %s/%s/%s" % (fn, fl, rx))
    return n


CLOSURE = {"BD_Shape": ("shortest_path_closure_assign", "dbm"),
           "Octagonal_Shape": ("strong_closure_assign", "matrix")}
SHAPE_ONLY = ("num_rows", "num_columns", "space_dimension", "row_begin", "row_end", "element_begin",
              "element_end", "row_size", "max_num_rows", "capacity", "external_memory_in_bytes", "total_memory_in_bytes")


def closure_users(fx):
    """{(class, function, nparams, operand): (Func, closure calls, content reads, offending reads)}"""
    out = {}
    for f in fx.functions:
        if f.flag("pattern"):
            continue
        cls = "BD_Shape" if "/BD_Shape_" in f.file else "Octagonal_Shape" if "/Octagonal_Shape_" in f.file else None
        if cls is None:
            continue
        clos, fld = CLOSURE[cls]
        ops = {}
        for c in f.calls():
            if c["k"] == "mcall" and f.call_name(c) == clos and f.call_obj(c) is not None:
                r = f.root(f.call_obj(c))
                if r[0] in ("this", "param"):
                    ops.setdefault(r, []).append(c)
        for r, calls in ops.items():
            reads = []
            for n in f.walk():
                if n["k"] == "member" and n.get("n") == fld and f.root(n) == r + (fld,):
                    par = f.parent.get(n["i"])
                    if par is not None and par["k"] == "mcall" and f.call_name(par) in SHAPE_ONLY:
                        continue
                    reads.append(n)
            bad = []
            for rd in reads:
                pth = flow.must_precede(f, rd, lambda x, r=r: x["k"] == "mcall" and f.call_name(x) == clos
                                        and f.call_obj(x) is not None and f.root(f.call_obj(x)) == r)
                if pth is not None:
                    bad.append((rd, pth))
            out[(cls, f.name, len(f.params), "/".join(r))] = (f, calls, reads, bad)
    return out


def r4_1(ctx, fx):
    import json
    import os
    rid = "R4.1"
    ctx.rule(rid, "close-before-read: every (function, operand) of the frozen table still closes that operand, and the closure call dominates every read of the operand's matrix contents (size/iterator accessors excepted)")
    path = os.path.join(F.VERIF, "tables", "R4.1.json")
    table = json.load(open(path))["pairs"]
    users = closure_users(fx)
    for ent in table:
        key = (ent["class"], ent["function"], ent["nparams"], ent["operand"])
        inst = "%s::%s/%d closes %s" % key
        if key not in users:
            cands = [k for k in users if k[:3] == key[:3]]
            fn_exists = any(f.name == ent["function"] and len(f.params) == ent["nparams"] for f in fx.functions
                            if not f.flag("pattern") and ("/" + ent["class"] + "_") in f.file)
            if not fn_exists:
                raise F.AnalysisBroken("R4.1: anchor function %s::%s/%d vanished" % key[:3])
            ctx.violation(rid, inst, "src/%s_templates.hh" % ent["class"],
                          "function no longer closes operand `%s` before using it (it did when the table was confirmed: %s)" % (ent["operand"], ent.get("why", "exact query/transformer on the closed form")))
            continue
        f, calls, reads, bad = users[key]
        if bad:
            rd, pth = bad[0]
            ctx.violation(rid, inst, f.where(rd), "matrix of `%s` read on a path that has not closed it: %s" % (ent["operand"], flow.render_path(f, pth)))
        else:
            ctx.ok(rid, inst, f.where())
    new = [k for k in users if not any((e["class"], e["function"], e["nparams"], e["operand"]) == k for e in table)]
    for k in new:
        ctx.note(rid, "closure user not in the frozen table (not judged): %s::%s/%d %s" % k)
    ctx.floor(rid, len(table), 80, "frozen (function, operand) pairs")


def r4_3(ctx, fx):
    """Contract of the element helpers the lemma L_HELPER relies on."""
    rid = "R4.3"
    ctx.rule(rid, "drop_some_non_integer_points_helper(N& elem): every write to the element is followed on all paths by the reset of the closure claim")
    from pplv import effects as E
    n = 0
    for f in fx.functions:
        if f.name != "drop_some_non_integer_points_helper" or f.flag("pattern") or f.clsn not in ("BD_Shape", "Octagonal_Shape"):
            continue
        reset = "reset_shortest_path_closed" if f.clsn == "BD_Shape" else "reset_strongly_closed"
        for wn, r, how in E.writes(f):
            if r[:1] != ("param",):
                continue
            n += 1
            inst = "%s::%s %s" % (f.clsn, f.name, how)
            path = flow.must_follow(f, wn, lambda x: x["k"] == "mcall" and f.call_name(x) == reset)
            if path is None:
                ctx.ok(rid, inst, f.where(wn))
            else:
                ctx.violation(rid, inst, f.where(wn), "element written without resetting the closure claim: " + flow.render_path(f, path))
    ctx.floor(rid, n, 2, "element-helper writes")


def r4_4(ctx, fx):
    import re
    rid = "R4.4"
    ctx.rule(rid, "collapse witness: in BD_Shape / Octagonal_Shape a call of set_zero_dim_univ() that is not under a zero-dimension test (the object is being reduced to dimension 0) is preceded on every path by the closure of the receiver (shortest_path_closure_assign / strong_closure_assign, which detects emptiness) and lies on the false edge of marked_empty() — removing all dimensions of a not-yet-detected empty shape must give the empty shape, not the universe")
    n = 0
    seen = set()
    for f in fx.functions:
        if f.clsn not in ("BD_Shape", "Octagonal_Shape") or f.flag("pattern") or f.kind in ("ctor", "dtor") or not f.cfg:
            continue
        if (f.relfile, f.line) in seen:
            continue
        closure = "shortest_path_closure_assign" if f.clsn == "BD_Shape" else "strong_closure_assign"
        for c in f.calls():
            if c["k"] != "mcall" or f.call_name(c) != "set_zero_dim_univ" or f.root(f.call_obj(c)) != ("this",):
                continue
            zero_guard = False
            child = c
            for a in f.ancestors(c):
                if a["k"] == "if" and f.within(child, f.deref(a["c"][3])):
                    ct = f.text(f.deref(a["c"][2])).replace(" ", "")
                    if re.search(r"(^|&&|\|\|)(x\.)?(space_dim|dim|space_dimension\(\)|old_space_dim)==0", ct):
                        zero_guard = True
                child = a
            seen.add((f.relfile, f.line))
            if zero_guard:
                continue
            n += 1
            inst = "%s::%s collapses to the universe" % (f.clsn, f.name)
            p1 = flow.must_precede(f, c, lambda y: y["k"] == "mcall" and f.call_name(y) in (closure, "is_empty") and f.root(f.call_obj(y)) == ("this",))

            def me_false(tc, taken):
                t = f.text(tc).replace(" ", "")
                return (t == "marked_empty()" and not taken) or (t == "!marked_empty()" and taken)
            tgt = set(x["i"] for x in f.walk(c))
            p2 = flow.Explorer(f).find_path("ENTRY", lambda y: False, lambda y: y["i"] in tgt, edge_blocked=me_false)
            if p1 is not None:
                ctx.violation(rid, inst, f.where(c), "set_zero_dim_univ() is reached on a path without %s(): an empty shape whose emptiness was never computed becomes the universe (%s)" % (closure, flow.render_path(f, p1)))
            elif p2 is not None:
                ctx.violation(rid, inst, f.where(c), "set_zero_dim_univ() is reached without the marked_empty() test")
            else:
                ctx.ok(rid, inst, f.where(c))
    ctx.floor(rid, n, 4, "collapsing set_zero_dim_univ sites")


BOX_SKIP = ("operator=", "m_swap", "swap", "ascii_dump", "ascii_load", "external_memory_in_bytes", "total_memory_in_bytes",
            "check_empty", "OK", "operator[]", "get_interval", "set_interval", "print")
BOX_GUARDS = ("none", "marked", "is_empty")


def box_guard_classes(fx):
    """{(function, nparams, operand): (guard class, Func, first read)} for Box members that read interval contents."""
    out = {}
    seen = set()
    for f in fx.functions:
        if f.clsn != "Box" or f.flag("pattern") or not f.cfg or f.kind in ("ctor", "dtor") or f.name in BOX_SKIP:
            continue
        if (f.relfile, f.line, f.cls) in seen:
            continue
        seen.add((f.relfile, f.line, f.cls))
        operands = [("this",)] + [("param", p["n"]) for p in f.params if re.search(r"\bBox<", p["t"]) or p["t"].strip().startswith("const T &")]
        for obj in operands:
            reads = []
            for n in f.walk():
                if n["k"] == "member" and n.get("n") == "seq" and f.root(n) == obj + ("seq",):
                    par = f.parent.get(n["i"])
                    if par is not None and par["k"] == "mcall" and f.call_name(par) in ("size", "resize", "reserve", "clear", "swap", "erase", "insert", "push_back", "begin", "end"):
                        continue
                    if f.cfg_pos(n) is not None or (par is not None and f.cfg_pos(par) is not None):
                        reads.append(n)
            if not reads:
                continue

            def on_obj(y, names):
                if y["k"] != "mcall" or f.call_name(y) not in names:
                    return False
                o = f.call_obj(y)
                return (o is None and obj == ("this",)) or (o is not None and f.root(o) == obj)
            strong = all(flow.must_precede(f, r, lambda y: on_obj(y, ("is_empty", "check_empty"))) is None for r in reads)
            weak = strong or all(flow.must_precede(f, r, lambda y: on_obj(y, ("is_empty", "check_empty", "marked_empty", "set_empty", "set_nonempty", "set_empty_up_to_date"))) is None for r in reads)
            cls_ = "is_empty" if strong else "marked" if weak else "none"
            key = (f.name, len(f.params), "/".join(obj))
            if key in out and BOX_GUARDS.index(out[key][0]) <= BOX_GUARDS.index(cls_):
                continue
            out[key] = (cls_, f, reads[0])
    return out


def r4_6(ctx):
    import json
    import os
    rid = "R4.6"
    ctx.rule(rid, "Box emptiness guard (Box<Rational_Interval>): a box may be empty without being marked so (one interval empty). For every (member, operand) of the frozen table whose interval contents are read, the reads are still dominated on every path by an emptiness test of that operand at least as strong as when the table was confirmed (is_empty() > marked_empty() > none): replacing is_empty() by marked_empty() makes the answer depend on whether emptiness has already been detected")
    fx = ctx.extract([F.driver_unit("domains.cc", file_re=r"Box_(templates|inlines)\.hh")])
    cur = box_guard_classes(fx)
    path = os.path.join(F.VERIF, "tables", "R4.6.json")
    table = json.load(open(path))["entries"]
    n = 0
    for ent in table:
        key = (ent["function"], ent["nparams"], ent["operand"])
        inst = "Box::%s/%d reads %s under %s" % (key + (ent["guard"],))
        n += 1
        if key not in cur:
            if not any(f.clsn == "Box" and f.name == ent["function"] and len(f.params) == ent["nparams"] for f in fx.functions):
                raise F.AnalysisBroken("R4.6: anchor function Box::%s/%d vanished" % key[:2])
            ctx.ok(rid, inst + " (no longer reads the intervals)", "src/Box_templates.hh")
            continue
        g, f, rd = cur[key]
        if BOX_GUARDS.index(g) < BOX_GUARDS.index(ent["guard"]):
            ctx.violation(rid, inst, f.where(rd), "the intervals of `%s` are now read under guard `%s` only (was `%s`): for a box that is empty but not yet marked so the answer depends on its history" % (ent["operand"], g, ent["guard"]))
        else:
            ctx.ok(rid, inst, f.where(rd))
    for key in sorted(cur):
        if not any((e["function"], e["nparams"], e["operand"]) == key for e in table):
            ctx.note(rid, "reader not in the frozen table (not judged): Box::%s/%d %s [%s]" % (key + (cur[key][0],)))
    ctx.floor(rid, n, 40, "frozen (member, operand) emptiness guards")


REL_FLAGS = ("nothing", "is_disjoint", "strictly_intersects", "is_included", "saturates", "subsumes")
# (function, flag compared with) -> why equality is exact there although the producer can return the flag together with others
R47_EXC = {
    ("limited_congruence_extrapolation_assign", "is_included"): "Grid::relation_with(cg) combines is_included() with other flags only for an empty or zero-dimensional grid; both cases return before this loop (`x.marked_empty()` / `space_dim == 0` tests at the top)",
    ("limited_generator_extrapolation_assign", "is_included"): "as for limited_congruence_extrapolation_assign",
    ("limited_extrapolation_assign", "is_included"): "as for limited_congruence_extrapolation_assign",
    ("get_limiting_box", "is_included"): "interval_relation adds saturates() only for a singleton interval; the argument y of the widening is a non-empty subset of x, so that interval is the same in y and is not widened: the constraint left out of the limiting box still holds in the result",
}


def _flagset(txt):
    import re
    t = txt.replace(" ", "").replace("Parma_Polyhedra_Library::", "").replace("PPL::", "")
    t = re.sub(r"Poly_(Con|Gen)_Relation::", "", t)
    parts = t.split("&&")
    out = set()
    for p_ in parts:
        m = re.fullmatch(r"(\w+)\(\)", p_)
        if not m or m.group(1) not in REL_FLAGS:
            return None
        out.add(m.group(1))
    return frozenset(out)


def r4_7(ctx):
    from rules.c14 import units_alloc
    rid = "R4.7"
    ctx.rule(rid, "relation values are flag sets: where the result of relation_with() / interval_relation() is compared with `==` / `!=` against one flag (is_included(), is_disjoint(), saturates(), ...), no return statement of the producer for that class combines the flag with another one (`saturates() && is_included()` for an operand lying on the boundary); otherwise the test must be `.implies(flag)` — as in the difference, upper-bound-if-exact and simplification code of the sibling domains — or the site is tabled with the reason the combined cases cannot reach it. Equality with nothing() is exact")
    fx = ctx.extract(units_alloc())
    producers, built, delegates = {}, {}, {}
    for f in fx.functions:
        if f.name not in ("relation_with", "interval_relation"):
            continue
        rets = [r for r in f.walk() if r["k"] == "return" and r.get("c")]
        sets = [_flagset(f.text(f.deref(r["c"][0]))) for r in rets]
        kind = "".join(p["t"] for p in f.params[:2])
        kind = "Congruence" if "Congruence" in kind else "Generator" if "Generator" in kind else "Constraint"
        producers.setdefault((f.clsn or "", f.name, kind), []).extend(sets)
        # flags this producer uses anywhere else than as the whole operand of a return (built up in a variable)
        direct = set(f.deref(r["c"][0])["i"] for r in rets if f.deref(r["c"][0]) is not None)
        for c_ in f.calls():
            if c_["k"] == "call" and f.call_name(c_) in REL_FLAGS and c_["i"] not in direct:
                par = f.parent.get(c_["i"])
                while par is not None and par["k"] in ("cast", "paren", "temp", "bind", "construct"):
                    par = f.parent.get(par["i"])
                if par is not None and par["k"] == "mcall" and f.call_name(par) == "implies":
                    continue      # a test of a value, not a way to build one
                if par is not None and par["k"] in ("ocall", "binop") and par.get("op") in ("==", "!="):
                    continue
                built.setdefault((f.clsn or "", f.name, kind), set()).add(f.call_name(c_))
        # results handed on from another producer (`return gen_sys.relation_with(c)`)
        for r in rets:
            e = f.deref(r["c"][0])
            if e is not None and e["k"] == "mcall" and f.call_name(e) in ("relation_with",):
                ot_ = (f.call_obj(e) or {}).get("t", "")
                delegates.setdefault((f.clsn or "", f.name, kind), []).append(ot_)
    ctx.require(rid, len(producers) >= 10, "producers of relation values found: %d" % len(producers))
    n = 0
    seen = set()
    for f in fx.functions:
        for x in f.walk():
            if x["k"] not in ("ocall", "binop") or x.get("op") not in ("==", "!="):
                continue
            cs = [f.deref(c) for c in x["c"]][-2:]
            if len(cs) != 2 or any(c is None for c in cs):
                continue
            calls = [c for c in cs if c["k"] in ("mcall", "call") and f.call_name(c) in ("relation_with", "interval_relation")]
            if len(calls) != 1:
                continue
            if (f.relfile, x.get("l")) in seen:
                continue
            seen.add((f.relfile, x.get("l")))
            prod = calls[0]
            other = cs[1] if cs[0] is prod else cs[0]
            flag = None
            if other["k"] == "call" and f.call_name(other) in REL_FLAGS:
                flag = f.call_name(other)
            elif other["k"] == "ref" and other.get("dk") == "local":
                v = [y for y in f.walk() if y["k"] == "var" and y.get("n") == other["n"] and y.get("c")]
                if len(v) == 1:
                    fs_ = _flagset(f.text(f.deref(v[0]["c"][0])))
                    if fs_ is not None and len(fs_) == 1:
                        flag = next(iter(fs_))
            ctx.require(rid, flag is not None, "%s:%s: unknown form of the comparison `%s`" % (f.relfile, x.get("l"), f.text(x)))
            n += 1
            inst = "%s::%s `%s`" % (f.clsn or "", f.name, f.text(x))
            if flag == "nothing":
                ctx.ok(rid, inst, f.where(x))
                continue
            # producer of this call: same name, class from the object type (or the enclosing class), argument kind
            args = f.call_args(prod)
            at = "".join((f.deref(a) or {}).get("t", "") for a in args[:2] if a is not None) + f.text(prod)
            kind = "Congruence" if ("Congruence" in at or "cg" in f.text(prod).split("(", 1)[-1][:6]) else "Generator" if ("Generator" in at or "_g" in f.text(prod)) else "Constraint"
            ot = (f.call_obj(prod) or {}).get("t", "") if prod["k"] == "mcall" else ""
            cands = [k for k in producers if k[1] == f.call_name(prod) and (k[1] == "interval_relation" or (k[0] and (k[0] in ot or (not any(c_[0] in ot for c_ in producers if c_[0]) and k[0] == (f.clsn or "")))))]
            cands_k = [k for k in cands if k[2] == kind] or cands
            ctx.require(rid, bool(cands_k), "%s: no producer found for `%s`" % (inst, f.text(prod)))
            combos = set()
            unknown = False
            todo, done = list(cands_k), set()
            while todo:
                k = todo.pop()
                if k in done:
                    continue
                done.add(k)
                for ot_ in delegates.get(k, ()):
                    todo += [k2 for k2 in producers if k2[0] and k2[0] in ot_ and k2[1] == "relation_with" and k2[2] == k[2]]
                for s_ in producers[k]:
                    if s_ is None:
                        # a result built up in a variable, or handed on: the flag can be combined only if the
                        # producer (or the one it delegates to, followed above) uses it outside a plain return
                        if flag in built.get(k, ()):
                            unknown = True
                    elif flag in s_ and len(s_) > 1:
                        combos.add(" && ".join(sorted(s_)))
            if not combos and not unknown:
                ctx.ok(rid, inst, f.where(x))
            elif (f.name, flag) in R47_EXC:
                ctx.excepted(rid, inst, f.where(x), R47_EXC[(f.name, flag)])
            elif combos:
                ctx.violation(rid, inst, f.where(x), "%s() can come combined with other flags (%s returns %s): the equality is then false although the relation holds — for an operand lying on the boundary of the constraint the branch is not taken; use .implies(%s())" % (flag, "/".join(sorted(set(k[0] + "::" + k[1] for k in cands_k))), "; ".join(sorted(combos)), flag))
            else:
                ctx.violation(rid, inst, f.where(x), "the producer builds its result incrementally (a return statement is not a plain conjunction of flags), so %s() may come combined with other flags: use .implies(%s()) or table the site with the reason" % (flag, flag))
    ctx.floor(rid, n, 8, "equality tests on relation values")


R48_MIRROR = [("lower", "upper"), ("LOWER", "UPPER"), ("minus", "plus"), ("MINUS", "PLUS"), ("ROUND_DOWN", "ROUND_UP"),
              ("GREATER", "LESS"), (r"_inf\b", "_sup")]


def r4_8(ctx):
    from pplv.shape import canon, first_diff
    import re
    rid = "R4.8"
    ctx.rule(rid, "side dispatch arms are mirror images: an if/else on a boolean named after one side (`is_lower_bound`, ...) treats the two sides of an interval symmetrically, so its else-arm is the mirror image of its then-arm under lower <-> upper, the sign of the compared difference (case 1 <-> case -1, < <-> >) and minus <-> plus infinity; an arm that answers early where its twin goes on to compare the other bound decides one side without looking (Box::relation_with says `strictly intersects` for [1,+inf) and A <= 0)")
    fx = ctx.extract([F.driver_unit("domains.cc", file_re=r"_(templates|inlines)\.hh")])
    subst = []
    for a, b in R48_MIRROR:
        if a.endswith("\\b"):
            subst += [(a, "@1@"), (b + "\\b", a[:-2]), ("@1@", b)]
        else:
            subst += [(a, "@1@"), (b, a), ("@1@", b)]
    ops = {"<": ">", ">": "<", "<=": ">=", ">=": "<="}

    def norm(t):
        """-k written as unary minus on a literal becomes the literal -k"""
        if isinstance(t, tuple):
            t = tuple(norm(x) for x in t)
            if len(t) == 3 and t[0] == "unop" and t[1] == "-" and isinstance(t[2], tuple) and len(t[2]) == 1 \
                    and isinstance(t[2][0], tuple) and t[2][0][:1] == ("int",) and str(t[2][0][1]).isdigit():
                return ("int", "-" + str(t[2][0][1])) + tuple(t[2][0][2:])
        return t

    def mir(t):
        if isinstance(t, tuple):
            if len(t) >= 2 and t[0] == "int" and str(t[1]).lstrip("-").isdigit() and str(t[1]) not in ("0",):
                v = -int(t[1])
                return ("int", str(v)) + tuple(mir(x) for x in t[2:])
            return tuple(mir(x) for x in t)
        return ops.get(t, t) if isinstance(t, str) else t
    n = 0
    seen = set()
    for f in fx.functions:
        if not f.flag("pattern") or (f.relfile, f.line) in seen:
            continue
        seen.add((f.relfile, f.line))
        for i_ in f.walk():
            if i_["k"] != "if" or len(i_["c"]) < 5 or f.deref(i_["c"][4]) is None:
                continue
            ct = f.text(f.deref(i_["c"][2])).replace(" ", "")
            if not re.fullmatch(r"!?is_(lower|upper)\w*", ct):
                continue
            then, els = f.deref(i_["c"][3]), f.deref(i_["c"][4])
            if els["k"] == "if":
                continue
            n += 1
            inst = "%s if (%s) (line %s)" % (f.name, ct, i_.get("l"))
            a, b = mir(norm(canon(f, then, subst))), norm(canon(f, els))
            if a == b:
                ctx.ok(rid, inst, f.where(i_))
            else:
                ctx.violation(rid, inst, f.where(i_), "the else-arm is not the mirror image of the then-arm: %s" % str(first_diff(a, b))[:200])
    ctx.floor(rid, n, 1, "side-dispatching if/else statements")


def r4_9(ctx, fx):
    rid = "R4.9"
    ctx.rule(rid, "the out-parameters of the constraint classifiers are read only after the trivial case is excluded: extract_bounded_difference() / extract_octagonal_difference() answer true also for a constraint without variables (num_vars == 0), and then leave the indexes and the coefficient they return untouched — the coefficient is a recycled temporary. At every call site the first read of the returned coefficient (or indexes) on any path lies behind a test of num_vars; otherwise a variable-free constraint such as 0 >= 1 in the system that limits an extrapolation is applied with a stale coefficient to a matrix cell chosen by stale indexes")
    n = 0
    seen = set()
    for f in fx.functions:
        if f.flag("pattern") or not f.cfg or f.clsn not in ("BD_Shape", "Octagonal_Shape") or (f.relfile, f.line) in seen:
            continue
        seen.add((f.relfile, f.line))
        for c in f.calls():
            nm = f.call_name(c)
            if nm not in ("extract_bounded_difference", "extract_octagonal_difference"):
                continue
            args = [f.deref(a) for a in f.call_args(c)]
            names = [a.get("n") for a in args if a is not None and a["k"] == "ref" and a.get("dk") == "local"]
            nv = next((x for x in names if "num_vars" in x), None)
            outs = [x for x in names if x != nv and x not in ("c",) and not x.endswith("space_dim")]
            if nv is None or not outs:
                raise F.AnalysisBroken("R4.9: unknown argument form at %s" % f.where(c))
            n += 1
            inst = "%s::%s after %s (line %s)" % (f.clsn, f.name, nm, c.get("l"))
            pos = f.cfg_pos(c)

            def reads(x):
                if f.within(x, c) or x["i"] == c["i"]:
                    return False
                return x["k"] == "ref" and x.get("n") in outs

            def eb(tc, taken, nv=nv):
                # a branch on num_vars (not the classifier call itself, which merely receives it)
                return any(y["k"] == "ref" and y.get("n") == nv and not f.within(y, c) for y in f.walk(tc))
            p = flow.Explorer(f, track_env=False).find_path(pos, lambda x: x["k"] == "switch" and any(y["k"] == "ref" and y.get("n") == nv for y in f.walk(f.deref(x["c"][0]) if x.get("c") else x)),
                                                             target=lambda x: any(reads(z) for z in f.walk(x)) and not f.within(c, x), edge_blocked=eb)
            if p is None:
                ctx.ok(rid, inst, f.where(c))
            else:
                ctx.violation(rid, inst, f.where(c), "`%s` are read on a path that never tested `%s` (%s): for a constraint without variables they hold whatever was there before" % ("`, `".join(outs), nv, flow.render_path(f, p)))
    ctx.floor(rid, n, 10, "call sites of the constraint classifiers")


R410_DOMAINS = ("Box", "BD_Shape", "Octagonal_Shape", "Polyhedron", "Grid")
R410_HELPERS = ("extract_interval_constraint", "extract_bounded_difference", "extract_octagonal_difference")


def _trivial_truth(kind, sign):
    """The relation of a non-empty element with the variable-free constraint `k <kind> 0`, sign = sgn(k)."""
    if kind == "EQUALITY":
        return frozenset(("saturates", "is_included")) if sign == 0 else frozenset(("is_disjoint",))
    if sign < 0:
        return frozenset(("is_disjoint",))
    if sign == 0:
        return frozenset(("saturates", "is_included")) if kind == "NONSTRICT_INEQUALITY" else frozenset(("saturates", "is_disjoint"))
    return frozenset(("is_included",))


def r4_10(ctx):
    from pplv import absint
    import re
    rid = "R4.10"
    ctx.rule(rid, "a variable-free constraint gets the same answer from every domain: relation_with(const Constraint&) of Box, BD_Shape, Octagonal_Shape, Polyhedron and Grid is interpreted on the finite state kind of constraint {=, >=, >} x sign of the inhomogeneous term, for a non-empty element, along its trivial-constraint paths — the zero-dimensional case, and the case where the domain's extract_* helper reports zero variables — and must answer `k = 0`: saturates and is included for k = 0, disjoint otherwise; `k >= 0`: disjoint / saturates and included / included for k negative / zero / positive; `k > 0`: disjoint / saturates and disjoint / included. (Grid hands equalities to the congruence version: not judged here.)")
    fx = ctx.extract([F.driver_unit("domains.cc", file_re=r"(Box|BD_Shape|Octagonal_Shape)_templates\.hh"), F.lib_unit("Polyhedron_public.cc"), F.lib_unit("Grid_public.cc")])
    fns = {}
    for f in fx.functions:
        if f.name == "relation_with" and f.clsn in R410_DOMAINS and len(f.params) == 1 and re.search(r"\bConstraint\b", f.params[0]["t"]) and f.cfg:
            if f.clsn in ("Polyhedron", "Grid") or f.flag("pattern"):
                fns.setdefault(f.clsn, f)
    missing = sorted(set(R410_DOMAINS) - set(fns))
    ctx.require(rid, not missing, "relation_with(const Constraint&) not found for: %s" % ", ".join(missing))
    n = 0
    for dom in R410_DOMAINS:
        f = fns[dom]
        cn_ = f.params[0]["n"]
        has_helper = any(f.call_name(c) in R410_HELPERS for c in f.calls())
        scenarios = ["zero-dimensional"] + (["helper reports no variable"] if has_helper else [])
        bad = []
        for scen in scenarios:
            for kind in ("EQUALITY", "NONSTRICT_INEQUALITY", "STRICT_INEQUALITY"):
                for sign in (-1, 0, 1):
                    sd = 0 if scen == "zero-dimensional" else 1

                    def atom(e, env, it, kind=kind, sign=sign, sd=sd):
                        t = f.text(e).replace(" ", "")
                        k = e["k"]
                        if t in ("space_dim", "this->space_dim") and k not in ("call", "mcall", "decl", "var"):
                            return {sd}
                        if k == "ref":
                            if t == "c_space_dim":
                                return {0}
                            if t.startswith("Constraint::") and t.split("::")[-1] in ("EQUALITY", "NONSTRICT_INEQUALITY", "STRICT_INEQUALITY"):
                                return {t.split("::")[-1]}
                            return None
                        if k in ("binop", "ocall") and e.get("op") == "&&" and "Poly_Con_Relation" in (e.get("t") or ""):
                            a, b = e["c"][-2:]
                            return {x | y for x in it.ev(a, env) for y in it.ev(b, env)}
                        if k not in ("call", "mcall"):
                            return None
                        cn = f.call_name(e).lstrip("~")
                        if "Poly_Con_Relation" in (e.get("ccls") or "") and cn in ("saturates", "is_included", "is_disjoint", "strictly_intersects", "nothing"):
                            return {frozenset() if cn == "nothing" else frozenset((cn,))}
                        if t in ("space_dimension()",):
                            return {sd}
                        if t == cn_ + ".space_dimension()":
                            return {0}
                        if cn in ("marked_empty", "is_empty") and not f.call_args(e) and "." not in t:
                            return {False}
                        if t.startswith(cn_ + "."):
                            if cn == "is_equality":
                                return {kind == "EQUALITY"}
                            if cn == "is_inequality":
                                return {kind != "EQUALITY"}
                            if cn == "is_strict_inequality":
                                return {kind == "STRICT_INEQUALITY"}
                            if cn == "is_nonstrict_inequality":
                                return {kind == "NONSTRICT_INEQUALITY"}
                            if cn == "type":
                                return {kind}
                            if cn == "inhomogeneous_term":
                                return {sign}
                            if cn == "is_inconsistent":
                                return {(kind == "EQUALITY" and sign != 0) or (kind == "NONSTRICT_INEQUALITY" and sign < 0) or (kind == "STRICT_INEQUALITY" and sign <= 0)}
                            if cn == "is_tautological":
                                return {(kind == "EQUALITY" and sign == 0) or (kind == "NONSTRICT_INEQUALITY" and sign >= 0) or (kind == "STRICT_INEQUALITY" and sign > 0)}
                        if cn == "sgn" and len(f.call_args(e)) == 1:
                            return it.ev(f.call_args(e)[0], env)
                        if cn in R410_HELPERS:
                            for a in f.call_args(e):
                                an = f.text(f.deref(a)).strip()
                                if an.endswith("num_vars") and an in env:
                                    env[an] = frozenset((0,))
                            return {True}
                        if cn == "relation_with" and dom == "Grid":
                            return {frozenset(("DELEGATED",))}
                        return None
                    it = absint.CfgInterp(f, atom)
                    try:
                        got = set()
                        for ret, env, ev_ in it.run({}):
                            got |= it.ev(ret["c"][0], env)
                    except absint.Unknown as ex:
                        raise F.AnalysisBroken("R4.10: %s::relation_with (%s, %s, sign %d): %s — the interpretation does not know this form" % (dom, scen, kind, sign, ex))
                    n += 1
                    if got == {frozenset(("DELEGATED",))}:
                        continue
                    want = _trivial_truth(kind, sign)
                    if got != {want}:
                        bad.append((scen, kind, sign, got, want))
        sym = {"EQUALITY": "=", "NONSTRICT_INEQUALITY": ">=", "STRICT_INEQUALITY": ">"}
        kk = {-1: "-1", 0: "0", 1: "1"}
        show = lambda r: " && ".join(sorted(r)) if r else "nothing"
        if bad:
            for scen, kind, sign, got, want in bad:
                ctx.violation(rid, "%s::relation_with(`%s %s 0`, %s)" % (dom, kk[sign], sym[kind], scen), f.where(),
                              "the answer is %s; for a non-empty element and the constraint %s %s 0 it must be %s" % (" or ".join(sorted(show(g) for g in got)), kk[sign], sym[kind], show(want)))
        else:
            ctx.ok(rid, "%s::relation_with on %d trivial-constraint states" % (dom, 9 * len(scenarios)), f.where())
    ctx.count(rid, "trivial-constraint states interpreted", n)
    ctx.floor(rid, n, 72, "trivial-constraint states interpreted")


R411_EXC = {
    ("BD_Shape", "BD_Shape<T>"): "copy / converting constructor: the matrix is copied together with the status word",
    ("Octagonal_Shape", "Octagonal_Shape<T>"): "copy / converting constructor: the matrix is copied together with the status word",
    ("BD_Shape", "operator="): "whole-object assignment: matrix and status travel together",
    ("Octagonal_Shape", "operator="): "whole-object assignment: matrix and status travel together",
    ("BD_Shape", "m_swap"): "whole-object swap: matrix and status travel together",
    ("Octagonal_Shape", "m_swap"): "whole-object swap: matrix and status travel together",
    ("BD_Shape", "get_limiting_shape"): "the operand is the output parameter being filled",
    ("Octagonal_Shape", "get_limiting_octagon"): "the operand is the output parameter being filled",
    ("BD_Shape", "BHMZ05_widening_assign"): "reached only when the affine dimensions of x and y agree, computed after both were closed and with the empty cases filtered by the early returns above",
    ("Octagonal_Shape", "BHMZ05_widening_assign"): "as for BD_Shape::BHMZ05_widening_assign",
    ("BD_Shape", "simplify_using_context_assign"): "y was closed and `x.contains(y)` was false on this path: an empty y is contained in everything",
}


def r4_11(ctx, fx):
    import re
    from pplv import flow
    rid = "R4.11"
    ctx.rule(rid, "the matrix of an operand is meaningless while the operand is marked empty: a BD_Shape / Octagonal_Shape that is marked empty keeps whatever its matrix last held (BD_Shape(n, EMPTY) holds the matrix of the universe). A member that takes another shape `y` reads `y.dbm` / `y.matrix` only on paths that passed the false edge of `y.marked_empty()` or `y.is_empty()`; whole-object copies, output parameters and two semantic guards are tabled with their reasons")
    n = 0
    seen = set()
    for f in fx.functions:
        if f.clsn not in ("BD_Shape", "Octagonal_Shape") or not f.cfg or not f.flag("pattern"):
            continue
        if (f.relfile, f.line) in seen:
            continue
        seen.add((f.relfile, f.line))
        for q in f.params:
            y = q["n"]
            if not y or not re.search(r"\b(BD_Shape|Octagonal_Shape)\b", q["t"]):
                continue
            reads = [x for x in f.walk() if x["k"] == "member" and x.get("n") in ("dbm", "matrix") and f.text(x).replace(" ", "").startswith(y + ".")]
            if not reads:
                continue
            n += 1
            inst = "%s::%s reads the matrix of `%s`" % (f.clsn, f.name, y)

            def edge(cond, taken, y=y):
                return taken is False and f.text(cond).replace(" ", "") in (y + ".marked_empty()", y + ".is_empty()")
            bad = None
            for r in reads:
                bad = flow.must_precede(f, r, lambda nod: False, edge_satisfied=edge)
                if bad is not None:
                    badr = r
                    break
            if bad is None:
                ctx.ok(rid, inst, f.where())
            elif (f.clsn, f.name) in R411_EXC:
                ctx.excepted(rid, inst, f.where(badr), R411_EXC[(f.clsn, f.name)])
            else:
                ctx.violation(rid, inst, f.where(badr), "`%s` (line %s) is reached without a test of `%s.marked_empty()` having failed (%s): for an operand marked empty the matrix is read as if it described a non-empty shape" % (f.text(badr)[:30], badr.get("l"), y, flow.render_path(f, bad)))
    ctx.floor(rid, n, 25, "members reading the matrix of an operand")


def run(ctx):
    ctx.explanation = ("C04 canonical-form protocol on BD_Shape<mpq_class> / Octagonal_Shape<mpq_class>: flag typestate over CFG paths; "
                       "decides the protocol clause (answers cannot depend on whether an operand happens to be closed/reduced), not the closure arithmetic")
    fx = ctx.extract(units(ctx.tier))
    ctx.rule("R4.2", "no path through a member function leaves the closed / reduced / strongly-closed claim standing after the matrix was written (writes alias-tracked; private writers pass the obligation to callers)")
    n = r4_2(ctx, fx, BDS, BDS_LEMMAS) + r4_2(ctx, fx, OCT, OCT_LEMMAS)
    ctx.floor("R4.2", n, 250, "write events x flags")
    r4_3(ctx, fx)
    r4_1(ctx, fx)
    r4_4(ctx, fx)
    r4_6(ctx)
    r4_7(ctx)
    r4_8(ctx)
    r4_9(ctx, fx)
    r4_10(ctx)
    r4_11(ctx, fx)
