"""C08 — widenings: protocol clauses (token protocol, certificate guard, limited-extrapolation shape).

R8.1 TOKENS        in every operator taking a token pointer `tp`: while tokens are available the
                   receiver is not changed (only a copy is widened, or the call is delegated with
                   `tp`), and a token is consumed only on the edge where the receiver does not
                   contain the widened copy
R8.2 CERTIFICATE   a heuristic result replaces the receiver only on the true edge of the
                   stabilisation test made on that very result (BHRZ03 helpers on polyhedra,
                   BHZ03 lifting on powersets)
R8.3 LIMITED       limited / bounded extrapolations: the constraints to keep are selected before
                   the receiver is widened and are met into the receiver after it on every path
That each widening is an upper bound, representation independent and convergent is numeric /
order-theoretic: not decided.
"""
import re

from pplv import facts as F
from pplv import flow

WIDEN_RE = re.compile(r"(widening_assign|extrapolation_assign)$")
MEETS = ("add_recycled_constraints", "add_constraints", "intersection_assign", "add_recycled_congruences",
         "add_congruences", "refine_with_constraints", "refine_with_congruences", "add_constraint")
# non-const members that keep the denoted set (lazy representation changes)
VALUE_PRESERVING = ("minimize", "update_generators", "update_constraints", "process_pending_constraints",
                    "process_pending_generators", "process_pending", "shortest_path_closure_assign",
                    "strong_closure_assign", "obtain_sorted_constraints", "obtain_sorted_generators", "OK",
                    "shortest_path_reduction_assign", "strong_reduction_assign", "update_congruences",
                    "simplify", "normalize_divisors", "congruence_widening_assign_dummy")


def units(tier):
    return [F.lib_unit("Polyhedron_widenings.cc"), F.lib_unit("Grid_widenings.cc"),
            F.driver_unit("shapes_mpq.cc", file_re=r"(BD_Shape|Octagonal_Shape)_(templates|inlines)\.hh", name_re=r"(widening|extrapolation)"),
            F.driver_unit("domains.cc", file_re=r"(Box|Pointset_Powerset|BD_Shape|Octagonal_Shape)_(templates|inlines)\.hh", name_re=r"(widening|extrapolation|BGP99|BHZ03|heuristics)")]


def is_recv(f, n):
    """Is the expression the receiver (*this, implicit this, or the conventional alias `x`)?"""
    if n is None:
        return False
    r = f.root(n)
    return r in (("this",),) or (r and r[0] == "this" and len(r) == 1)


def recv_call(f, c):
    """Member call whose object is the receiver itself (not one of its fields)."""
    if c["k"] != "mcall":
        return False
    o = f.call_obj(c)
    return o is not None and f.root(o) == ("this",)


def token_regions(ctx, rid, f):
    """[(if-node, region subtree)] for the `tokens available` tests of f."""
    out = []
    for i in f.walk():
        if i["k"] != "if":
            continue
        ct = f.text(f.deref(i["c"][2])).replace(" ", "").replace("(", "").replace(")", "")
        if "tp" not in re.findall(r"[A-Za-z_]\w*", ct):
            continue
        ct = ct.replace("nullptr", "0")
        if ct in ("tp!=0&&*tp>0", "tp&&*tp>0", "tp!=0&&*tp!=0"):
            out.append((i, f.deref(i["c"][3])))
        elif ct in ("tp==0||*tp==0", "!tp||*tp==0"):
            out.append((i, f.deref(i["c"][4])))
        else:
            ctx.require(rid, False, "%s: token test `%s` has a form the rule does not know" % (f.short.split("(")[0], f.text(f.deref(i["c"][2]))))
    return out


BHRZ03_UNCOND = {
    ("Polyhedron", "BHRZ03_widening_assign"): "reached only on the false edge of `y_cert.is_stabilizing(x) || y.contains(x)`: any widening result differs from x, so the token is consumed without computing it",
}


def r8_1(ctx, fx):
    rid = "R8.1"
    ctx.rule(rid, "token protocol: in every function with a parameter `unsigned* tp`, inside the region where tokens are available (`tp != 0 && *tp > 0`) the receiver is not modified — only const members, value-preserving lazy updates, or calls that pass `tp` on (delegation) are applied to it — and every `--(*tp)` is directly guarded by `!receiver.contains(<widened copy>)`; a function without a token test must pass `tp` on")
    n = 0
    seen = set()
    for f in fx.functions:
        if f.flag("pattern") or not any(p["n"] == "tp" and "unsigned" in p["t"] and "*" in p["t"] for p in f.params):
            continue
        key = (f.clsn, f.name, f.relfile, f.line)
        if key in seen:
            continue
        seen.add(key)
        who = "%s::%s" % (f.clsn, f.name)
        regions = token_regions(ctx, rid, f)
        def _is_deref_tp(y):
            y = f.deref(y)
            while y is not None and y["k"] in ("cast", "paren") and y.get("c"):
                y = f.deref(y["c"][0])
            return y is not None and y["k"] == "unop" and y.get("op") == "*" and f.text(f.deref(y["c"][0])) == "tp"
        decs = [x for x in f.walk() if (x["k"] == "unop" and x.get("op") in ("--", "++") and "tp" in f.text(x))
                or (x["k"] == "assign" and x.get("c") and _is_deref_tp(x["c"][0]))]
        passes_on = [c for c in f.calls() if any(f.text(a) == "tp" for a in f.call_args(c))]
        if not regions:
            n += 1
            inst = "%s passes tp on" % who
            if decs:
                ctx.violation(rid, inst, f.where(decs[0]), "a token is consumed outside any `tokens available` test")
            elif passes_on:
                ctx.ok(rid, inst, f.where())
            else:
                ctx.violation(rid, inst, f.where(), "takes a token pointer but neither tests nor forwards it: tokens are ignored")
            continue
        for d in decs:
            n += 1
            inst = "%s --(*tp) guarded by !contains" % who
            inside = [r for _, r in regions if r is not None and f.within(d, r)]
            if not inside:
                ctx.violation(rid, inst, f.where(d), "a token is consumed outside the `tokens available` region")
                continue
            g = None
            child = d
            for a in f.ancestors(d):
                if a is inside[0]:
                    break
                if a["k"] == "if" and f.within(child, f.deref(a["c"][3])):
                    g = a
                    break
                child = a
            ok = False
            if g is not None:
                c = f.deref(g["c"][2])
                if c["k"] == "unop" and c.get("op") == "!":
                    cc = f.deref(c["c"][0])
                    while cc is not None and cc["k"] == "cast":
                        cc = f.deref(cc["c"][0])
                    if cc is not None and cc["k"] == "mcall" and f.call_name(cc) == "contains" and recv_call(f, cc):
                        a0 = f.call_args(cc)[0]
                        ok = f.root(a0)[0] == "local"
            if ok:
                ctx.ok(rid, inst, f.where(d))
            elif (f.clsn, f.name) in BHRZ03_UNCOND:
                ctx.excepted(rid, inst, f.where(d), BHRZ03_UNCOND[(f.clsn, f.name)])
            else:
                ctx.violation(rid, inst, f.where(d), "the token is consumed without testing that the receiver fails to contain the widened copy (a token must be spent exactly when plain widening would lose precision)")
        for ifn, reg in regions:
            n += 1
            inst = "%s receiver unchanged while tokens are available (line %s)" % (who, "L")
            inst = "%s receiver unchanged while tokens are available [%d]" % (who, regions.index((ifn, reg)))
            bad = None
            for c in f.walk(reg):
                if c["k"] == "mcall" and recv_call(f, c) and not c.get("cconst"):
                    nm = f.call_name(c)
                    if nm in VALUE_PRESERVING or any(f.text(a) == "tp" for a in f.call_args(c)):
                        continue
                    bad = (c, "calls %s on the receiver" % nm)
                    break
                if c["k"] in ("call",) and f.call_name(c) == "swap" and any(f.root(a) == ("this",) for a in f.call_args(c)):
                    bad = (c, "swaps the receiver")
                    break
                if c["k"] == "assign" and f.root(f.deref(c["c"][0])) == ("this",):
                    bad = (c, "assigns the receiver")
                    break
                if c["k"] == "ocall" and c.get("op") == "=" and f.call_obj(c) is not None and f.root(f.call_obj(c)) == ("this",):
                    bad = (c, "assigns the receiver")
                    break
            if bad is None and reg is not None:
                # nothing after the region may change the receiver either (other than tabled lazies / delegations)
                last = None
                for c in f.walk(reg):
                    if f.cfg_pos(c) is not None:
                        last = c

                def is_write(y):
                    if y["k"] == "mcall" and recv_call(f, y) and not y.get("cconst") and not f.within(y, reg):
                        nm = f.call_name(y)
                        if nm in VALUE_PRESERVING or nm in MEETS or any(f.text(a) == "tp" for a in f.call_args(y)):
                            return False
                        return True
                    return False
                if last is not None and f.cfg_pos(last) is not None:
                    p = flow.Explorer(f).find_path(f.cfg_pos(last), lambda y: False, is_write)
                    if p is not None:
                        bad = (last, "falls through to code that changes the receiver: " + flow.render_path(f, p))
            if bad is None:
                ctx.ok(rid, inst, f.where(ifn))
            else:
                ctx.violation(rid, inst, f.where(bad[0]), "with tokens available the object must be left as it is, but the code %s" % bad[1])
    ctx.floor(rid, n, 36, "token obligations")


def r8_2(ctx, fx):
    rid = "R8.2"
    ctx.rule(rid, "certificate guard: in Polyhedron::BHRZ03_combining_constraints / _evolving_points / _evolving_rays every x.m_swap(R) is reached only through the true edge of y_cert.is_stabilizing(R); in Pointset_Powerset::BHZ03_widening_assign every swap(x, R) with a heuristic result R is reached only through the true edge of `hull_stabilization == 1` or R.is_cert_multiset_stabilizing(...)")
    n = 0
    seen = set()
    for f in fx.functions:
        if (f.relfile, f.line, f.cls) in seen:
            continue
        if f.flag("pattern") and not (f.clsn == "Pointset_Powerset" and f.name == "BHZ03_widening_assign"):
            continue
        if f.clsn == "Polyhedron" and f.name in ("BHRZ03_combining_constraints", "BHRZ03_evolving_points", "BHRZ03_evolving_rays"):
            seen.add((f.relfile, f.line, f.cls))
            sw = [c for c in f.calls() if c["k"] == "mcall" and f.call_name(c) == "m_swap" and recv_call(f, c)]
            ctx.require(rid, len(sw) >= 1, "%s: no x.m_swap(result) found" % f.name)
            for c in sw:
                n += 1
                r = f.text(f.call_args(c)[0])
                inst = "Polyhedron::%s commits %s only if stabilizing" % (f.name, r)

                def edge(tc, taken, r=r):
                    t = f.text(tc).replace(" ", "")
                    return taken and ("is_stabilizing(%s)" % r) in t and not t.startswith("!")
                p = flow.Explorer(f).find_path("ENTRY", lambda y: False, lambda y: y["i"] == c["i"], edge_blocked=edge)
                if p is None:
                    ctx.ok(rid, inst, f.where(c))
                else:
                    ctx.violation(rid, inst, f.where(c), "a path commits the heuristic result without the certificate test on it: " + flow.render_path(f, p))
            for r in f.walk():
                if r["k"] == "return" and r.get("c") and f.text(r["c"][0]) == "true":
                    n += 1
                    inst = "Polyhedron::%s returns true only after committing" % f.name
                    p = flow.must_precede(f, r, lambda y: y["k"] == "mcall" and f.call_name(y) == "m_swap" and recv_call(f, y))
                    if p is None:
                        ctx.ok(rid, inst, f.where(r))
                    else:
                        ctx.violation(rid, inst, f.where(r), "reports success without having replaced the receiver")
        elif f.clsn == "Pointset_Powerset" and f.name == "BHZ03_widening_assign":
            seen.add((f.relfile, f.line, f.cls))
            for c in f.calls():
                if c["k"] != "call" or f.call_name(c) != "swap":
                    continue
                args = f.call_args(c)
                if len(args) != 2 or f.root(args[0]) != ("this",):
                    continue
                r = f.text(args[1])
                if "heuristics" not in r:
                    continue   # the documented last resorts (hull singleton) need no certificate
                n += 1
                inst = "Pointset_Powerset::BHZ03_widening_assign commits %s only if stabilizing [%s]" % (r, F.strip_ns(f.cls or "")[:40])

                def edge(tc, taken, r=r):
                    t = f.text(tc).replace(" ", "")
                    if not taken:
                        return False
                    return t == "hull_stabilization==1" or ("%s.is_cert_multiset_stabilizing(" % r) in t
                p = flow.Explorer(f).find_path("ENTRY", lambda y: False, lambda y: y["i"] == c["i"], edge_blocked=edge)
                if p is None:
                    ctx.ok(rid, inst, f.where(c))
                else:
                    ctx.violation(rid, inst, f.where(c), "a path commits the heuristic result without a stabilisation test on it: " + flow.render_path(f, p))
    ctx.floor(rid, n, 9, "certificate-guarded commits")


EMPTY_CS = re.compile(r"(num_rows\(\)==0|num_rows==0|\.empty\(\)|has_no_rows\(\))")


def r8_3(ctx, fx):
    rid = "R8.3"
    ctx.rule(rid, "limited / bounded extrapolation shape: the plain widening applied to the receiver is followed on every path by a meet of the receiver (intersection_assign / add_*constraints / add_*congruences) with a local that was completely built before the widening (the kept constraints are those satisfied by the larger argument, not by the widened one); a widening call directly followed by return under an empty-constraint-system test is the documented fallback")
    n = 0
    seen = set()
    for f in fx.functions:
        if f.flag("pattern") or not re.match(r"(limited|bounded)_.*extrapolation_assign$", f.name):
            continue
        key = (f.clsn, f.name, f.relfile, f.line)
        if key in seen or not f.cfg:
            continue
        seen.add(key)
        who = "%s::%s" % (f.clsn, f.name)
        ws = [c for c in f.calls() if c["k"] == "mcall" and recv_call(f, c) and WIDEN_RE.search(f.call_name(c))]
        # token branch widens a copy: only calls on the receiver itself count
        if not ws:
            n += 1
            dele = [c for c in f.calls() if c["k"] == "mcall" and f.call_name(c) == f.name and not recv_call(f, c)
                    and [f.text(a) for a in f.call_args(c)][1:] == [p["n"] for p in f.params][1:]]
            if dele:
                ctx.ok(rid, who + " delegates to the same operator of another domain", f.where(dele[0]))
            else:
                ctx.violation(rid, who + " widens the receiver", f.where(), "no widening of the receiver found")
            continue
        regions = [r for _, r in token_regions(ctx, rid, f) if r is not None]
        for w in ws:
            n += 1
            inst = "%s: %s then meet" % (who, f.call_name(w))
            # fallback: if (cs empty) { widen; return; }
            fb = False
            for a in f.ancestors(w):
                if a["k"] == "if" and EMPTY_CS.search(f.text(f.deref(a["c"][2])).replace(" ", "")) and f.within(w, f.deref(a["c"][3])):
                    fb = True
            if fb:
                ctx.ok(rid, inst + " (empty-cs fallback)", f.where(w))
                continue
            if any(f.within(w, r) for r in regions) and any(f.text(a) == "tp" for a in f.call_args(w)):
                ctx.ok(rid, inst + " (tokens available: receiver unchanged, see R8.1)", f.where(w))
                continue
            if re.match(r"(limited|bounded)_", f.call_name(w)):
                # bounded_* delegates to limited_*: the meet rule applies inside the callee; here a further meet must follow
                pass

            def meet(y):
                return y["k"] == "mcall" and recv_call(f, y) and f.call_name(y) in MEETS and f.call_args(y) \
                    and f.root(f.call_args(y)[0])[0] == "local"
            p = flow.must_follow(f, w, meet)
            if p is not None:
                ctx.violation(rid, inst, f.where(w), "after the widening a path returns without meeting the receiver with the kept constraints: " + flow.render_path(f, p))
                continue
            # the locals met afterwards are complete before the widening
            bad = None
            for m in f.calls():
                if not meet(m) or f.cfg_pos(m) is None:
                    continue
                L = f.root(f.call_args(m)[0])[1]
                for y in f.walk():
                    if y["k"] in ("mcall", "call") and f.cfg_pos(y) is not None:
                        o = f.call_obj(y) if y["k"] == "mcall" else None
                        written = (o is not None and not y.get("cconst") and f.root(o)[:2] == ("local", L)) or \
                            any(f.root(a)[:2] == ("local", L) for a, pm in zip(f.call_args(y), y.get("pm", "")) if pm in "rp")
                        if written and y is not m:
                            # must not be reachable from the widening
                            q = flow.Explorer(f).find_path(f.cfg_pos(w), lambda z: False, lambda z: z["i"] == y["i"])
                            if q is not None:
                                v = f.var_decl(L)
                                # a local declared after the widening (e.g. the box constraints of bounded_*) is built from another source
                                if v is not None and v.get("l", 0) > w.get("l", 0):
                                    continue
                                bad = (y, L)
            if bad is not None:
                ctx.violation(rid, inst, f.where(bad[0]), "`%s` is still being filled after the receiver has been widened: constraints are then selected against the widened object" % bad[1])
            else:
                ctx.ok(rid, inst, f.where(w))
    ctx.floor(rid, n, 18, "limited / bounded extrapolations")


def r8_4(ctx, fx):
    import re
    rid = "R8.4"
    ctx.rule(rid, "a token is spent only where a loss of precision has been established: the widening-with-tokens technique delays the widening while the plain widening would lose precision; every `--(*tp)` is reached only through a branch on a containment test (`!contains(x_tmp)` of the plain result, or, in the BHRZ03 widening, the failed `y.contains(x)` of the early exit, which with y <= x means the two arguments differ). A token spent without such a test is spent also when the two arguments are equal and the plain widening returns x exactly")
    n = 0
    seen = set()
    for f in fx.functions:
        if not f.cfg or (f.relfile, f.line, f.flag("pattern")) in seen:
            continue
        seen.add((f.relfile, f.line, f.flag("pattern")))
        decs = [x for x in f.walk() if x["k"] == "unop" and x.get("op") == "--" and re.match(r"^--\(?\*tp\)?$", f.text(x).replace(" ", ""))]
        for d in decs:
            n += 1
            inst = "%s%s: --(*tp) (line %s)" % ((f.clsn + "::") if f.clsn else "", f.name, d.get("l"))

            def edge(cond, taken):
                return any(y["k"] in ("call", "mcall") and f.call_name(y).lstrip("~") in ("contains", "strictly_contains") for y in f.walk(cond))
            bad = flow.must_precede(f, d, lambda nod: False, edge_satisfied=edge)
            if bad is None:
                ctx.ok(rid, inst, f.where(d))
            else:
                ctx.violation(rid, inst, f.where(d), "a path reaches the decrement without having branched on a containment test (%s)" % flow.render_path(f, bad))
    ctx.floor(rid, n, 10, "token decrements")


def run(ctx):
    ctx.explanation = ("C08 protocol clauses of the widenings: token protocol (receiver untouched while tokens last, token spent only when the widened copy is not contained), "
                       "certificate guard of the BHRZ03 / BHZ03 heuristics, shape of the limited and bounded extrapolations; decides these clauses, not upper-bound-ness, "
                       "representation independence or convergence")
    ctx.assumptions = ["that each plain widening is an upper bound, depends on the point sets only and converges is numeric / order-theoretic: not decided",
                       "judged on BD_Shape<mpq_class>, Octagonal_Shape<mpq_class>, Box<Rational_Interval>, Pointset_Powerset<C_Polyhedron|NNC_Polyhedron|Grid> and the Polyhedron / Grid sources"]
    fx = ctx.extract(units(ctx.tier))
    r8_1(ctx, fx)
    r8_2(ctx, fx)
    r8_3(ctx, fx)
    r8_4(ctx, fx)
