"""Shared rule: DOWNGRADE — every change of a solver input invalidates the cached verdict.

After a write to an input field of the problem object, on every normal path to
the function exit the set of possible values of `status` (tracked through the
`status ==/!= E` tests and `status = E` assignments on the path) must be inside
the set allowed for that kind of input.  The rule is evaluated on the public
non-const members; private writers hand the obligation to their callers through
may-write summaries.
"""
from pplv import effects as E
from pplv import flow


def _size_unchanged_guard(f, field):
    """edge predicate: the false edge of `field.size() != <local initialised from
    field.size()>` (or true edge of ==) means nothing was inserted: no change."""
    def pred(cond, taken):
        cond = f.deref(cond)
        if cond is None or cond["k"] != "binop" or cond.get("op") not in ("!=", "=="):
            return False
        if taken != (cond["op"] == "=="):
            return False
        sides = [f.deref(c) for c in cond["c"]]

        def is_size_of_field(n):
            return n is not None and n["k"] == "mcall" and f.call_name(n) == "size" and \
                E.field_of(f.root(f.call_obj(n))) == field

        def is_saved_size(n):
            if n is None or n["k"] != "ref" or n.get("dk") != "local":
                return False
            v = f.var_decl(n["n"], n.get("l"))
            if v is None or not v.get("t", "").startswith("const "):
                return False
            init = v.get("c", ())
            return bool(init) and is_size_of_field(f.deref(init[0]))
        a, b = sides
        return (is_size_of_field(a) and is_saved_size(b)) or (is_size_of_field(b) and is_saved_size(a))
    return pred


def _checked_mutator(g, replacements):
    """g is itself checked by this rule (public, non-const, not a whole-state replacement)."""
    return g.j.get("access") == "public" and not g.flag("const") and g.kind == "method" \
        and g.name not in replacements


def downgrade(ctx, rid, fx, clsn, kinds, all_status, replacements, exempt_private=True, floor=0):
    """kinds: {field: (kind name, allowed status set)}.
    replacements: {function name: reason} whole-state replacements (checked to write status)."""
    summ = E.Summaries(fx, clsn)
    ninst = 0
    writers = 0
    for f in fx.functions:
        if f.clsn != clsn or f.kind in ("ctor", "dtor") or f.flag("const") or f.flag("static"):
            continue
        if f.flag("pattern"):
            continue
        # direct and summarised write events
        events = []
        via_checked = {}   # call node id -> status set guaranteed by a callee that is itself an instance of this rule
        for n, r, how in E.writes(f):
            fld = E.field_of(r)
            if fld in kinds:
                events.append((n, fld, how))
        for n, cands in summ.callees_on_this(f):
            for g in cands:
                if g.flag("const"):
                    continue
                for fld in summ.may_write(g):
                    if fld in kinds:
                        events.append((n, fld, "via " + g.name))
                        if _checked_mutator(g, replacements):
                            via_checked[n["i"]] = via_checked.get(n["i"], frozenset()) | frozenset(kinds[fld][1])
        if not events:
            continue
        writers += 1
        if f.name in replacements:
            ninst += 1
            inst = "%s replaces the whole state" % f.sig()
            mw = summ.may_write(f)
            if "status" in mw or "*this" in mw:
                ctx.excepted(rid, inst, f.where(), replacements[f.name])
            else:
                ctx.violation(rid, inst, f.where(), "whole-state replacement does not write `status`")
            continue
        if exempt_private and f.j.get("access") != "public":
            callers = [g for g in summ.by_name.values() for g in g
                       if any(f in cands for _, cands in summ.callees_on_this(g))]
            ctx.count(rid, "private_writers_summarised")
            if not callers:
                ctx.note(rid, "private writer %s has no same-class caller in the parsed units" % f.sig())
            continue
        for n, fld, how in events:
            kind, allowed = kinds[fld]
            ninst += 1
            inst = "%s writes %s (%s) [%s]" % (f.sig(), fld, how, f.text(n)[:60])
            where = f.where(n)

            def call_effect(cn, env, f=f, via_checked=via_checked):
                # a same-object callee that may assign status makes it unknown, unless the callee
                # is itself a checked public mutator (then its own instance guarantees its exit set)
                if cn["k"] == "mcall":
                    obj = f.call_obj(cn)
                    if obj is not None and f.root(obj) == ("this",):
                        if cn["i"] in via_checked:
                            env = dict(env)
                            env[("enum", "status")] = via_checked[cn["i"]]
                            return env
                        for g in summ.by_name.get(f.call_name(cn), []):
                            if "status" in summ.may_write(g):
                                env = dict(env)
                                env[("enum", "status")] = frozenset(all_status)
                                break
                return env

            ex = flow.Explorer(f, enum_field=("status", all_status), call_effect=call_effect)
            pos = f.cfg_pos(n)
            if pos is None:
                ctx.violation(rid, inst, where, "write has no CFG position")
                continue
            allowed_f = frozenset(allowed)
            start_env = {}
            if n["i"] in via_checked:
                start_env[("enum", "status")] = via_checked[n["i"]]
            path = ex.find_path(pos, lambda x: False, "EXIT", start_env=start_env,
                                edge_blocked=_size_unchanged_guard(f, fld),
                                exit_ok=lambda env: env.get(("enum", "status"), frozenset(all_status)) <= allowed_f)
            if path is None:
                ctx.ok(rid, inst, where)
            else:
                ctx.violation(rid, inst, where,
                              "after this change of a %s input a path reaches the exit with status possibly outside {%s}: %s" % (
                                  kind, ", ".join(sorted(allowed)), flow.render_path(f, path)),
                              {"path": path})
    ctx.count(rid, "writer_functions", writers)
    ctx.floor(rid, ninst, floor, "input-write obligations in " + clsn)


def status_switches(ctx, rid, fx, clsn, all_status, floor):
    """Every `switch (status)` names every enumerator (no silently ignored state)."""
    n = 0
    for f in fx.functions:
        if f.clsn != clsn:
            continue
        for sw in f.walk():
            if sw["k"] != "switch":
                continue
            cond = f.deref(sw["c"][0])
            if cond is None or cond["k"] != "member" or cond.get("n") != "status":
                continue
            n += 1
            labels = set()
            has_default = False
            for x in f.walk(sw["c"][1]):
                if x["k"] == "case":
                    lab = f.deref(x["c"][0])
                    if lab is not None and lab["k"] == "ref":
                        labels.add(lab["n"])
                elif x["k"] == "default":
                    has_default = True
            inst = "%s switch(status) #%d" % (f.sig(), sum(1 for i, _ in ctx.rules[rid].ok if i.startswith(f.sig())) + 1)
            missing = set(all_status) - labels
            if missing:
                ctx.violation(rid, inst, f.where(sw), "switch over status does not handle %s%s" % (
                    ", ".join(sorted(missing)), " (falls to default)" if has_default else ""))
            else:
                ctx.ok(rid, inst, f.where(sw))
    ctx.floor(rid, n, floor, "switch(status) statements in " + clsn)
