"""C12 — interval arithmetic encloses every concrete result: side discipline.

R12.1 TRIPLE-CONSISTENCY  in every call from the Interval code into the boundary layer the
      arguments come in (side, value, info) triples: a LOWER triple takes its value from a lower
      bound, an UPPER triple from an upper bound, and value and info come from the same object
R12.2 BOUNDARY-DIR        in the boundary layer every rounded operation writing boundary `to`
      rounds with round_dir_check(<the side paired with `to`>)
R12.3 ENCODING            LOWER==ROUND_DOWN, UPPER==ROUND_UP (static_assert witnesses)
R12.4 RESULT-COMBINED     the Result of each boundary update of an Interval member reaches the
      combined I_Result it returns
The sign case analysis of mul/div, relative-error terms and linearisation are not decided.
"""
import re

from pplv import facts as F
from rules import c03


def units(tier):
    return [F.driver_unit("all_headers.cc", file_re=r"(Interval_(inlines|templates)|Boundary_defs)\.hh")]


LOW = re.compile(r"\blower\(\)|f_lower\(|\bto_lower\b|lower_")
UPP = re.compile(r"\bupper\(\)|f_upper\(|\bto_upper\b|upper_")


def _obj(text):
    """The object a value/info expression belongs to: '' for *this, 'x' for f_lower(x)/f_info(x)."""
    m = re.search(r"f_(?:lower|upper|info)\((\w+)\)", text)
    if m:
        return m.group(1)
    if re.search(r"\b(lower|upper|info)\(\)", text):
        return ""
    return None


def r12_1(ctx, fx):
    rid = "R12.1"
    ctx.rule(rid, "side triples: in Interval_inlines.hh / Interval_templates.hh every (LOWER|UPPER, value, info) argument triple passed to the boundary layer takes a LOWER value from a lower bound and an UPPER value from an upper bound, and value and info designate the same interval")
    n = 0
    seen = set()
    for f in fx.functions:
        if "Interval_" not in f.file or (f.relfile, f.line) in seen:
            continue
        seen.add((f.relfile, f.line))
        for c in f.calls():
            args = [f.deref(a) for a in f.call_args(c)]
            texts = [f.text(a) for a in args]
            for i, a in enumerate(args):
                if a is None or a["k"] != "ref" or a.get("n") not in ("LOWER", "UPPER") or i + 2 >= len(args) + 0:
                    continue
                if i + 1 >= len(args):
                    continue
                side = a["n"]
                val = texts[i + 1]
                info = texts[i + 2] if i + 2 < len(texts) else ""
                if info in ("LOWER", "UPPER"):
                    continue   # (side, value) pair without info: not a triple
                n += 1
                inst = "%s %s(%s, %s, %s)" % (F.strip_ns(f.sig()).split("(")[0][-60:], f.call_name(c), side, val[:30], info[:20])
                bad = None
                if side == "LOWER" and UPP.search(val) and not LOW.search(val):
                    bad = "a LOWER triple takes its value from an upper bound (`%s`)" % val
                elif side == "UPPER" and LOW.search(val) and not UPP.search(val):
                    bad = "an UPPER triple takes its value from a lower bound (`%s`)" % val
                else:
                    ov, oi = _obj(val), _obj(info)
                    if ov is not None and oi is not None and ov != oi:
                        bad = "value `%s` and info `%s` belong to different intervals" % (val, info)
                if bad:
                    ctx.violation(rid, inst, f.where(c), bad + ": the open flag / rounding side of the wrong bound governs the result")
                else:
                    ctx.ok(rid, inst, f.where(c))
    ctx.floor(rid, n, 200, "side triples")


ROUNDED = ("assign_r", "neg_assign_r", "add_assign_r", "sub_assign_r", "mul_assign_r", "div_assign_r",
           "umod_2exp_assign_r", "smod_2exp_assign_r", "mul_2exp_assign_r", "div_2exp_assign_r",
           "add_mul_assign_r", "sub_mul_assign_r", "sqrt_assign_r", "floor_assign_r", "ceil_assign_r")


def r12_2(ctx, fx):
    rid = "R12.2"
    ctx.rule(rid, "boundary direction: in Boundary_defs.hh each rounded operation whose destination is a boundary parameter passes round_dir_check(T[, check]) where T is the Boundary_Type parameter declared immediately before that destination (the side of the bound being written decides the direction)")
    n = 0
    seen = set()
    for f in fx.functions:
        if not f.file.endswith("Boundary_defs.hh") or (f.relfile, f.line) in seen:
            continue
        seen.add((f.relfile, f.line))
        pnames = [p["n"] for p in f.params]
        ptypes = [p["t"] for p in f.params]
        for c in f.calls():
            if f.call_name(c) not in ROUNDED:
                continue
            args = [f.deref(a) for a in f.call_args(c)]
            if not args or args[0] is None or args[0]["k"] != "ref" or args[0].get("dk") != "param":
                continue
            dest = args[0]["n"]
            n += 1
            inst = "Boundary_NS::%s %s(%s, ...)" % (f.name, f.call_name(c), dest)
            k = pnames.index(dest) if dest in pnames else -1
            side = pnames[k - 1] if k > 0 and "Boundary_Type" in ptypes[k - 1] else None
            dtext = f.text(args[-1]).replace(" ", "")
            if f.name == "set_unbounded" and dtext in ("ROUND_UP", "ROUND_DOWN"):
                # -infinity / +infinity in a type without infinities: the only representable choice is the
                # extreme value, reached by rounding TOWARDS the representable range
                lit = f.text(args[1]) if len(args) > 1 else ""
                ok = (lit == "MINUS_INFINITY" and dtext == "ROUND_UP") or (lit == "PLUS_INFINITY" and dtext == "ROUND_DOWN")
                if ok:
                    ctx.excepted(rid, inst + " " + lit, f.where(c), "an infinite bound stored in a type without infinities is clamped to the extreme representable value, i.e. rounded towards the representable range; the interval still contains every representable number")
                else:
                    ctx.violation(rid, inst, f.where(c), "`%s` rounded `%s`" % (lit, dtext))
            elif side is None:
                ctx.violation(rid, inst, f.where(c), "destination `%s` is not preceded by its Boundary_Type parameter" % dest)
            elif dtext.startswith("round_dir_check(%s)" % side) or dtext.startswith("round_dir_check(%s," % side):
                ctx.ok(rid, inst, f.where(c))
            else:
                ctx.violation(rid, inst, f.where(c), "rounds with `%s` instead of round_dir_check(%s, ...): the side of the bound being written no longer decides the direction" % (f.text(args[-1]), side))
    ctx.floor(rid, n, 14, "rounded boundary operations")
    # round_dir_check itself keeps the side bit
    for f in fx.functions:
        if f.name == "round_dir_check":
            t = " ".join(f.text(r) for r in f.walk() if r["k"] == "return")
            inst = "round_dir_check returns the side as direction"
            if re.search(r"\bt\b", t) and "ROUND_STRICT_RELATION" in t:
                ctx.ok(rid, inst, f.where())
            else:
                ctx.violation(rid, inst, f.where(), "round_dir_check does not derive the direction from its Boundary_Type argument: `%s`" % t)
            break
    else:
        raise F.AnalysisBroken("R12.2: round_dir_check vanished")


def r12_4(ctx, fx):
    rid = "R12.4"
    ctx.rule(rid, "result combined: in Interval members every local that receives the Result of a boundary update (rl / ru) is passed to combine(rl, ru) (or returned) — a dropped Result hides an inexact or infinite bound")
    n = 0
    seen = set()
    for f in fx.functions:
        if "Interval_" not in f.file or (f.relfile, f.line) in seen:
            continue
        seen.add((f.relfile, f.line))
        locs = {}
        for v in f.walk():
            if v["k"] == "var" and "Result" in v.get("t", "") and v["n"] in ("rl", "ru"):
                locs[v["n"]] = v
        if not locs:
            continue
        for name, v in locs.items():
            n += 1
            inst = "%s %s" % (F.strip_ns(f.sig()).split("(")[0][-60:], name)
            used = False
            for c in f.calls():
                if f.call_name(c) in ("combine", "check_empty_result", "I_Result", "static_cast") or c["k"] == "call":
                    if any(x["k"] == "ref" and x.get("n") == name for a in f.call_args(c) for x in f.walk(a)):
                        used = True
            for r in f.walk():
                if r["k"] == "return" and any(x["k"] == "ref" and x.get("n") == name for x in f.walk(r)):
                    used = True
            if not used:
                # a dropped Result is harmless when the enclosing block answers I_ANY ("no information")
                blk = None
                for a in f.ancestors(v):
                    if a["k"] == "block":
                        blk = a
                        break
                rets = [r for r in f.walk(blk)] if blk is not None else []
                rets = [r for r in rets if r["k"] == "return" and r.get("l", 0) > v.get("l", 0)]
                if rets and all(f.text(r).replace("return ", "") == "I_ANY" for r in rets):
                    ctx.excepted(rid, inst, f.where(v), "the branch returns I_ANY, which claims nothing about the stored bounds")
                    continue
            if used:
                ctx.ok(rid, inst, f.where(v))
            else:
                ctx.violation(rid, inst, f.where(v), "the Result stored in `%s` never reaches combine()/the returned I_Result" % name)
    ctx.floor(rid, n, 20, "boundary results in Interval members")


def run(ctx):
    ctx.explanation = ("C12 side discipline of the interval layer on the template patterns of Interval_* and Boundary_defs.hh: consistent (side, value, info) triples, "
                       "direction derived from the side of the bound written, results combined; decides the discipline, not the sign case analysis of mul/div or linearisation")
    ctx.assumptions = ["rules work on template patterns (dependent calls resolved by name)",
                       "the checked-number primitives honour the direction they are given (C11)"]
    fx = ctx.extract(units(ctx.tier))
    r12_1(ctx, fx)
    r12_2(ctx, fx)
    ctx.rule("R3.3", "see C03: LOWER==ROUND_DOWN, UPPER==ROUND_UP and the other encoding witnesses")
    c03.r3_3(ctx)
    r12_4(ctx, fx)
    from rules import idioms
    ctx.rule("R12.5", "copies agree: the per-format arms of the switches of the floating-point layer (compute_absolute_error caches one result per analysed format and reads the traits of that format) are copies of one another; in each arm the identifiers repeat exactly as in its siblings — the slot tested is the slot returned and the slot filled, and the three traits come from one struct")
    fxf = ctx.extract([F.driver_unit("all_headers.cc", file_re=r"(Float_(templates|inlines)|linearize|Linear_Form_templates|Interval_templates)\.hh")])
    k = idioms.copy_paste_arms(ctx, "R12.5", fxf.functions)
    ctx.floor("R12.5", k, 6, "switch arms that are copies of one another")
