"""C12 — interval arithmetic encloses every concrete result: side discipline.

R12.1 TRIPLE-CONSISTENCY  in every call from the Interval code into the boundary layer the
      arguments come in (side, value, info) triples: a LOWER triple takes its value from a lower
      bound, an UPPER triple from an upper bound, and value and info come from the same object
R12.2 BOUNDARY-DIR        in the boundary layer every rounded operation writing boundary `to`
      rounds with round_dir_check(<the side paired with `to`>)
R12.3 ENCODING            LOWER==ROUND_DOWN, UPPER==ROUND_UP (static_assert witnesses)
R12.4 RESULT-COMBINED     the Result of each boundary update of an Interval member reaches the
      combined I_Result it returns
The sign case analysis of mul/div, relative-error terms and linearisation are not decided.
"""
import os
import re

from pplv import facts as F
from rules import c03


def units(tier):
    return [F.driver_unit("all_headers.cc", file_re=r"(Interval_(inlines|templates)|Boundary_defs)\.hh")]


LOW = re.compile(r"\blower\(\)|f_lower\(|\bto_lower\b|lower_")
UPP = re.compile(r"\bupper\(\)|f_upper\(|\bto_upper\b|upper_")


def _obj(text):
    """The object a value/info expression belongs to: '' for *this, 'x' for f_lower(x)/f_info(x)."""
    m = re.search(r"f_(?:lower|upper|info)\((\w+)\)", text)
    if m:
        return m.group(1)
    if re.search(r"\b(lower|upper|info)\(\)", text):
        return ""
    return None


def _scalar_info_justified(f, c, side, val):
    """A bound of a possibly-interval operand may be passed with SCALAR_INFO only where its two properties are
    handled by hand: SPECIAL — every path to the call passed the false edge of is_boundary_infinity(side, val,
    f_info(operand)); OPEN — the call passes an explicit open flag computed with f_info(operand), or stands in a
    non-strict (`.._OR_EQUAL`) case, where the openness of the operand's bound does not matter."""
    from pplv import flow
    m = re.search(r"f_(?:lower|upper)\((\w+)\)", val)
    if not m:
        return False
    op = m.group(1)
    want = ("is_boundary_infinity(%s,%s,f_info(%s))" % (side, val, op)).replace(" ", "")

    def edge(tc, taken):
        pol = True
        x = tc
        while x is not None and (x["k"] in ("cast", "paren") or (x["k"] == "unop" and x.get("op") == "!")):
            if x["k"] == "unop":
                pol = not pol
            x = f.deref(x["c"][0])
        return x is not None and f.text(x).replace(" ", "").endswith(want) and taken != pol
    if flow.must_precede(f, c, lambda x: False, edge_satisfied=edge, track_env=False) is not None:
        return False
    txt = f.text(c).replace(" ", "")
    if "is_open(" in txt and ("f_info(%s)" % op) in txt.split("SCALAR_INFO", 1)[-1]:
        return True
    for a in f.ancestors(c):
        if a["k"] == "case":
            return "OR_EQUAL" in f.text(a)[:80] or any("OR_EQUAL" in f.text(f.deref(x)) for x in a.get("c", ())[:1] if f.deref(x) is not None)
    return False


def r12_1(ctx, fx):
    rid = "R12.1"
    ctx.rule(rid, "side triples: in Interval_inlines.hh / Interval_templates.hh every (LOWER|UPPER, value, info) argument triple passed to the boundary layer takes a LOWER value from a lower bound and an UPPER value from an upper bound, and value and info designate the same interval")
    n = 0
    seen = set()
    for f in fx.functions:
        if "Interval_" not in f.file or (f.relfile, f.line) in seen:
            continue
        seen.add((f.relfile, f.line))
        for c in f.calls():
            args = [f.deref(a) for a in f.call_args(c)]
            texts = [f.text(a) for a in args]
            for i, a in enumerate(args):
                if a is None or a["k"] != "ref" or a.get("n") not in ("LOWER", "UPPER") or i + 2 >= len(args) + 0:
                    continue
                if i + 1 >= len(args):
                    continue
                side = a["n"]
                val = texts[i + 1]
                info = texts[i + 2] if i + 2 < len(texts) else ""
                if info in ("LOWER", "UPPER"):
                    continue   # (side, value) pair without info: not a triple
                n += 1
                inst = "%s %s(%s, %s, %s)" % (F.strip_ns(f.sig()).split("(")[0][-60:], f.call_name(c), side, val[:30], info[:20])
                bad = None
                if side == "LOWER" and UPP.search(val) and not LOW.search(val):
                    bad = "a LOWER triple takes its value from an upper bound (`%s`)" % val
                elif side == "UPPER" and LOW.search(val) and not UPP.search(val):
                    bad = "an UPPER triple takes its value from a lower bound (`%s`)" % val
                else:
                    ov, oi = _obj(val), _obj(info)
                    if ov is not None and oi is not None and ov != oi:
                        bad = "value `%s` and info `%s` belong to different intervals" % (val, info)
                    elif re.search(r"f_(?:lower|upper)\(", val) and "SCALAR_INFO" in info and not _scalar_info_justified(f, c, side, val):
                        bad = "the bound `%s` of an operand that may be an interval is passed with the info of a scalar (`%s`): its SPECIAL (unbounded) and OPEN properties are ignored and the stale raw value of an infinite bound is used" % (val, info)
                if bad:
                    ctx.violation(rid, inst, f.where(c), bad + ": the open flag / rounding side of the wrong bound governs the result")
                else:
                    ctx.ok(rid, inst, f.where(c))
    ctx.floor(rid, n, 200, "side triples")


ROUNDED = ("assign_r", "neg_assign_r", "add_assign_r", "sub_assign_r", "mul_assign_r", "div_assign_r",
           "umod_2exp_assign_r", "smod_2exp_assign_r", "mul_2exp_assign_r", "div_2exp_assign_r",
           "add_mul_assign_r", "sub_mul_assign_r", "sqrt_assign_r", "floor_assign_r", "ceil_assign_r")


def r12_2(ctx, fx):
    rid = "R12.2"
    ctx.rule(rid, "boundary direction: in Boundary_defs.hh each rounded operation whose destination is a boundary parameter passes round_dir_check(T[, check]) where T is the Boundary_Type parameter declared immediately before that destination (the side of the bound being written decides the direction)")
    n = 0
    seen = set()
    for f in fx.functions:
        if not f.file.endswith("Boundary_defs.hh") or (f.relfile, f.line) in seen:
            continue
        seen.add((f.relfile, f.line))
        pnames = [p["n"] for p in f.params]
        ptypes = [p["t"] for p in f.params]
        for c in f.calls():
            if f.call_name(c) not in ROUNDED:
                continue
            args = [f.deref(a) for a in f.call_args(c)]
            if not args or args[0] is None or args[0]["k"] != "ref" or args[0].get("dk") != "param":
                continue
            dest = args[0]["n"]
            n += 1
            inst = "Boundary_NS::%s %s(%s, ...)" % (f.name, f.call_name(c), dest)
            k = pnames.index(dest) if dest in pnames else -1
            side = pnames[k - 1] if k > 0 and "Boundary_Type" in ptypes[k - 1] else None
            dtext = f.text(args[-1]).replace(" ", "")
            if f.name == "set_unbounded" and dtext in ("ROUND_UP", "ROUND_DOWN"):
                # -infinity / +infinity in a type without infinities: the only representable choice is the
                # extreme value, reached by rounding TOWARDS the representable range
                lit = f.text(args[1]) if len(args) > 1 else ""
                ok = (lit == "MINUS_INFINITY" and dtext == "ROUND_UP") or (lit == "PLUS_INFINITY" and dtext == "ROUND_DOWN")
                if ok:
                    ctx.excepted(rid, inst + " " + lit, f.where(c), "an infinite bound stored in a type without infinities is clamped to the extreme representable value, i.e. rounded towards the representable range; the interval still contains every representable number")
                else:
                    ctx.violation(rid, inst, f.where(c), "`%s` rounded `%s`" % (lit, dtext))
            elif side is None:
                ctx.violation(rid, inst, f.where(c), "destination `%s` is not preceded by its Boundary_Type parameter" % dest)
            elif dtext.startswith("round_dir_check(%s)" % side) or dtext.startswith("round_dir_check(%s," % side):
                ctx.ok(rid, inst, f.where(c))
            else:
                ctx.violation(rid, inst, f.where(c), "rounds with `%s` instead of round_dir_check(%s, ...): the side of the bound being written no longer decides the direction" % (f.text(args[-1]), side))
    ctx.floor(rid, n, 14, "rounded boundary operations")
    # round_dir_check itself keeps the side bit
    for f in fx.functions:
        if f.name == "round_dir_check":
            t = " ".join(f.text(r) for r in f.walk() if r["k"] == "return")
            inst = "round_dir_check returns the side as direction"
            if re.search(r"\bt\b", t) and "ROUND_STRICT_RELATION" in t:
                ctx.ok(rid, inst, f.where())
            else:
                ctx.violation(rid, inst, f.where(), "round_dir_check does not derive the direction from its Boundary_Type argument: `%s`" % t)
            break
    else:
        raise F.AnalysisBroken("R12.2: round_dir_check vanished")


def r12_4(ctx, fx):
    rid = "R12.4"
    ctx.rule(rid, "result combined: in Interval members every local that receives the Result of a boundary update (rl / ru) is passed to combine(rl, ru) (or returned) — a dropped Result hides an inexact or infinite bound")
    n = 0
    seen = set()
    for f in fx.functions:
        if "Interval_" not in f.file or (f.relfile, f.line) in seen:
            continue
        seen.add((f.relfile, f.line))
        locs = {}
        for v in f.walk():
            if v["k"] == "var" and "Result" in v.get("t", "") and v["n"] in ("rl", "ru"):
                locs[v["n"]] = v
        if not locs:
            continue
        for name, v in locs.items():
            n += 1
            inst = "%s %s" % (F.strip_ns(f.sig()).split("(")[0][-60:], name)
            used = False
            for c in f.calls():
                if f.call_name(c) in ("combine", "check_empty_result", "I_Result", "static_cast") or c["k"] == "call":
                    if any(x["k"] == "ref" and x.get("n") == name for a in f.call_args(c) for x in f.walk(a)):
                        used = True
            for r in f.walk():
                if r["k"] == "return" and any(x["k"] == "ref" and x.get("n") == name for x in f.walk(r)):
                    used = True
            if not used:
                # a dropped Result is harmless when the enclosing block answers I_ANY ("no information")
                blk = None
                for a in f.ancestors(v):
                    if a["k"] == "block":
                        blk = a
                        break
                rets = [r for r in f.walk(blk)] if blk is not None else []
                rets = [r for r in rets if r["k"] == "return" and r.get("l", 0) > v.get("l", 0)]
                if rets and all(f.text(r).replace("return ", "") == "I_ANY" for r in rets):
                    ctx.excepted(rid, inst, f.where(v), "the branch returns I_ANY, which claims nothing about the stored bounds")
                    continue
            if used:
                ctx.ok(rid, inst, f.where(v))
            else:
                ctx.violation(rid, inst, f.where(v), "the Result stored in `%s` never reaches combine()/the returned I_Result" % name)
    ctx.floor(rid, n, 20, "boundary results in Interval members")


MIRROR = [("lower", "upper"), ("LOWER", "UPPER"), ("min_assign", "max_assign"), ("V_GT", "V_LT"), ("V_GE", "V_LE"),
          ("GREATER", "LESS"), ("MINUS", "PLUS"), ("minus", "plus"), ("ROUND_DOWN", "ROUND_UP"), (r"_inf\b", "_sup"), ]


def r12_6(ctx):
    from pplv.shape import canon, first_diff
    rid = "R12.6"
    ctx.rule(rid, "mirror siblings: each member of Interval named after the lower side has a twin named after the upper side (lower_extend / upper_extend, lower_is_open / upper_is_open, ...); the twin is the mirror image of its sibling under lower <-> upper, LOWER <-> UPPER, min <-> max, > <-> <, minus <-> plus infinity, ROUND_DOWN <-> ROUND_UP — same statements, same callees, same cases. A twin that calls its sibling's helper (upper_extend() falling back on lower_extend()) extends the wrong side")
    fx = ctx.extract([F.driver_unit("all_headers.cc", file_re=r"Interval_(defs|inlines|templates)\.hh")])
    subst = []
    for a, b in MIRROR:
        if a.endswith("\\b"):
            subst += [(a, "@1@"), (b + "\\b", a[:-2]), ("@1@", b)]
        else:
            subst += [(a, "@1@"), (b, a), ("@1@", b)]
    by = {}
    for f in fx.functions:
        if f.flag("pattern") and f.clsn == "Interval" and ("lower" in f.name or "upper" in f.name):
            by.setdefault((f.name, len(f.params)), f)
    n = 0
    for (name, k), f in sorted(by.items()):
        if "lower" not in name:
            continue
        tw = name.replace("lower", "upper").replace("_inf", "_sup")
        g = by.get((tw, k))
        if g is None:
            continue
        n += 1
        inst = "Interval::%s / %s (%d parameters)" % (name, tw, k)
        a, b = canon(f, f.ast, subst), canon(g, g.ast)
        if a == b:
            ctx.ok(rid, inst, g.where())
        else:
            ctx.violation(rid, inst, g.where(), "%s is not the mirror image of %s: %s" % (tw, name, first_diff(a, b)))
    ctx.floor(rid, n, 6, "lower/upper twins")


def _writes_first(f, c):
    """boundary-layer calls whose first triple is a destination"""
    nm = f.call_name(c) or ""
    return "assign" in nm or nm in ("complement",) or nm.startswith("set_")


def _triples(f, c):
    """[(side, value node, info node, index)] of a boundary-layer call."""
    args = [f.deref(a) for a in f.call_args(c)]
    out = []
    for i, a in enumerate(args):
        if a is not None and a["k"] == "ref" and a.get("n") in ("LOWER", "UPPER") and i + 2 < len(args) and args[i + 1] is not None and args[i + 2] is not None:
            if not (args[i + 2]["k"] == "ref" and args[i + 2].get("n") in ("LOWER", "UPPER")):
                out.append((a["n"], args[i + 1], args[i + 2], i))
    return out


def _plain_moves(f):
    """[(assignment node, lhs text, rhs text, shared info?)] for plain assignments between two boundary values that are
    each the destination of a boundary operation with its own info object."""
    pair = {}
    for c in f.calls():
        ts = _triples(f, c)
        if ts and _writes_first(f, c):
            side, v, i_, idx = ts[0]
            if idx == 0:
                pair.setdefault(f.text(v).replace(" ", ""), set()).add(f.text(i_).replace(" ", ""))
    out = []
    for a in f.walk():
        if a["k"] not in ("assign", "ocall") or (a["k"] == "ocall" and a.get("op") != "="):
            continue
        cs = [f.deref(x) for x in a["c"]][-2:]
        if len(cs) != 2 or cs[0] is None or cs[1] is None:
            continue
        l, r = f.text(cs[0]).replace(" ", ""), f.text(cs[1]).replace(" ", "")
        if l in pair and r in pair and l != r:
            out.append((a, l, r, bool(pair[l] & pair[r]), pair))
    return out


def r12_7(ctx, fx):
    import os
    rid = "R12.7"
    ctx.rule(rid, "a bound moves with its properties: in the members of Interval a boundary value is produced together with an info object that holds its OPEN / SPECIAL properties (the destination pair of a boundary operation). A plain assignment `w = v` from such a value v into a bound w whose properties live in another info object copies the number and drops v's properties (the product of (-1,2] and [-3,1] then has an open bound at the attained value -6): the move must go through the boundary layer (assign(side, w, w_info, side, v, v_info)) or carry the properties explicitly. Expected number of instances on the library: zero; the rule proves itself on every run on a positive example (drivers/positive_r12_7.cc)")
    u = F.driver_unit("positive_r12_7.cc", file_re=r"positive_r12_7\.cc")
    u.root2 = os.path.join(F.VERIF, "drivers")
    pos = ctx.extract([u])
    hits = [m for g in pos.functions for m in _plain_moves(g) if not m[3]]
    ctx.require(rid, len(hits) >= 1, "the positive example drivers/positive_r12_7.cc is no longer reported: the rule is blind")
    n = 0
    seen = set()
    for f in fx.functions:
        if "Interval_" not in f.file or (f.relfile, f.line) in seen or not f.flag("pattern"):
            continue
        seen.add((f.relfile, f.line))
        ctx.count(rid, "Interval members scanned", 1)
        for a, l, r, shared, pair in _plain_moves(f):
            n += 1
            inst = "%s `%s = %s` (line %s)" % (f.name, l, r, a.get("l"))
            if shared:
                ctx.ok(rid, inst, f.where(a))
            else:
                ctx.violation(rid, inst, f.where(a), "`%s` was computed with the properties in `%s`, `%s` keeps its properties in `%s`: the assignment copies the value only, so the OPEN / SPECIAL flag of the bound that lost the comparison stays attached to the one that won" % (r, ", ".join(sorted(pair[r])), l, ", ".join(sorted(pair[l]))))
    ctx.ok(rid, "positive example reported (%d plain moves without properties)" % len(hits), "drivers/positive_r12_7.cc")
    # (b) the users of Interval: a bound of one interval is never copied into a bound of another by `a.lower() = b.lower()`
    ux = ctx.extract([F.driver_unit("all_headers.cc", file_re=r"(Box_(inlines|templates)|Polyhedron_templates|Linear_Form_templates|Float_templates)\.hh")])
    acc = re.compile(r"^\w+\.(lower|upper)\(\)$")
    seen = set()
    users = 0
    raw = 0
    for g in pos.functions:
        for a in g.walk():
            if a["k"] in ("assign", "ocall") and (a["k"] != "ocall" or a.get("op") == "="):
                cs = [g.deref(x) for x in a["c"]][-2:]
                if len(cs) == 2 and None not in cs and acc.match(g.text(cs[0]).replace(" ", "")) and acc.match(g.text(cs[1]).replace(" ", "")):
                    raw += 1
    ctx.require(rid, raw >= 1, "the positive example of a bound copied between two intervals (drivers/positive_r12_7.cc) is no longer reported: the rule is blind")
    for f in ux.functions:
        if (f.relfile, f.line) in seen or not f.flag("pattern"):
            continue
        seen.add((f.relfile, f.line))
        touched = False
        for a in f.walk():
            if a["k"] == "mcall" or a["k"] == "call":
                if f.call_name(a) in ("lower", "upper"):
                    touched = True
            if a["k"] not in ("assign", "ocall") or (a["k"] == "ocall" and a.get("op") != "="):
                continue
            cs = [f.deref(x) for x in a["c"]][-2:]
            if len(cs) != 2 or cs[0] is None or cs[1] is None:
                continue
            l, r = f.text(cs[0]).replace(" ", ""), f.text(cs[1]).replace(" ", "")
            if acc.match(l) and acc.match(r):
                n += 1
                ctx.violation(rid, "%s `%s = %s` (line %s)" % (f.name, l, r, a.get("l")), f.where(a), "the value of the bound `%s` is copied into `%s` by a plain assignment: its OPEN / SPECIAL properties stay behind, so an open bound of the source becomes a closed one (or the reverse) in the destination" % (r, l))
        users += touched
    ctx.count(rid, "functions outside Interval that read or write interval bounds", users)
    ctx.floor(rid, users, 15, "functions outside Interval that read or write interval bounds")
    return n


def r12_8(ctx, fx):
    from pplv import flow
    rid = "R12.8"
    ctx.rule(rid, "staged info: a member of Interval that builds the new properties in a cleared temporary (`to_info`) and installs it at the end with assign_or_swap(info(), to_info) replaces ALL properties of the interval at that point. Therefore (a) every boundary operation of such a member that writes a bound of the result (destination lower() / upper() / to_lower / to_upper) writes its properties into `to_info`, not into info() — which the final swap overwrites — and (b) every path that reaches the final swap has written both bounds: a path that installs cleared properties over bounds it never assigned leaves the old numbers with new flags")
    n = 0
    seen = set()
    for f in fx.functions:
        if "Interval_" not in f.file or (f.relfile, f.line) in seen or not f.flag("pattern") or not f.cfg:
            continue
        seen.add((f.relfile, f.line))
        swaps = [c for c in f.calls() if f.call_name(c) == "assign_or_swap" and len(f.call_args(c)) == 2 and f.text(f.call_args(c)[0]).replace(" ", "") == "info()" and f.text(f.call_args(c)[1]).replace(" ", "") == "to_info"]
        if not swaps:
            continue
        dests = []
        for c in f.calls():
            ts = _triples(f, c)
            if ts and ts[0][3] == 0 and _writes_first(f, c):
                side, v, i_, _ = ts[0]
                vt = f.text(v).replace(" ", "")
                if vt in ("lower()", "upper()", "to_lower", "to_upper"):
                    dests.append((c, side, vt, f.text(i_).replace(" ", "")))
        for c, side, vt, it in dests:
            n += 1
            inst = "%s %s(%s, %s, %s, ..) (line %s)" % (f.name, f.call_name(c), side, vt, it, c.get("l"))
            if it == "to_info":
                ctx.ok(rid, inst, f.where(c))
            else:
                ctx.violation(rid, inst, f.where(c), "the properties of the new bound go into `%s`, which assign_or_swap(info(), to_info) at the end of the member replaces with the cleared temporary: the OPEN flag computed here is lost" % it)
        for sw in swaps:
            for side, names in (("LOWER", ("lower()", "to_lower")), ("UPPER", ("upper()", "to_upper"))):
                n += 1
                inst = "%s installs to_info (line %s): %s bound written on every path" % (f.name, sw.get("l"), side.lower())

                def writes(x, side=side, names=names):
                    if x["k"] in ("call", "mcall"):
                        ts = _triples(f, x)
                        if ts and ts[0][3] == 0 and _writes_first(f, x) and ts[0][0] == side and f.text(ts[0][1]).replace(" ", "") in names:
                            return True
                        if f.call_name(x) == "assign_or_swap" and f.text(f.call_args(x)[0]).replace(" ", "") in names:
                            return False      # installs what a destination triple produced: that triple is the write
                    if x["k"] in ("assign", "ocall") and (x["k"] == "assign" or x.get("op") == "="):
                        l = f.deref(x["c"][0])
                        return l is not None and f.text(l).replace(" ", "") in names
                    return False
                p = flow.must_precede(f, sw, writes, track_env=False)
                if p is None:
                    ctx.ok(rid, inst, f.where(sw))
                else:
                    ctx.violation(rid, inst, f.where(sw), "a path reaches the installation of the new properties without having assigned the %s bound (%s): the old number stays under cleared flags" % (side.lower(), flow.render_path(f, p)))
    ctx.floor(rid, n, 30, "staged-info obligations")


def r12_9(ctx, fx):
    from pplv import flow
    rid = "R12.9"
    ctx.rule(rid, "operands are read before the receiver's bound is overwritten: the interval operations accept the receiver itself as an operand (z.sub_assign(x, z)). In a member with interval operands, once a boundary operation has written the receiver's own lower() — not the temporary to_lower — no later boundary operation on any path reads f_lower(p) of an operand p, and likewise for upper(): with p aliasing the receiver that read sees the new bound instead of the operand's")
    n = 0
    seen = set()
    for f in fx.functions:
        if "Interval_" not in f.file or (f.relfile, f.line) in seen or not f.flag("pattern") or not f.cfg or f.clsn != "Interval":
            continue
        seen.add((f.relfile, f.line))
        ps = [p_["n"] for p_ in f.params if p_["n"]]
        if not ps:
            continue
        for c in f.calls():
            ts = _triples(f, c)
            if not ts or ts[0][3] != 0 or not _writes_first(f, c):
                continue
            side, v, i_, _ = ts[0]
            vt = f.text(v).replace(" ", "")
            if vt not in ("lower()", "upper()"):
                continue
            want = "f_lower(" if vt == "lower()" else "f_upper("
            pos = f.cfg_pos(c)
            if pos is None:
                continue
            n += 1
            inst = "%s writes %s (line %s)" % (f.name, vt, c.get("l"))

            def later_read(x, c=c, want=want):
                if x["i"] == c["i"] or f.within(x, c):
                    return False
                if x["k"] in ("call", "mcall") and _triples(f, x):
                    return any(want + p_ + ")" in f.text(x).replace(" ", "") for p_ in ps)
                return False
            pth = flow.Explorer(f, track_env=False).find_path(pos, lambda x: False, target=later_read)
            if pth is None:
                ctx.ok(rid, inst, f.where(c))
            else:
                ctx.violation(rid, inst, f.where(c), "after the receiver's %s is overwritten a later boundary operation still reads `%s..)` of an operand (path %s): if that operand is the receiver itself, it reads the new bound" % (vt, want, flow.render_path(f, pth)))
    ctx.floor(rid, n, 20, "writes of the receiver's own bounds in members with operands")


_BOUND = re.compile(r"^(?:\w+\.)?(?:lower|upper)\(\)$|^f_(?:lower|upper)\(\w+\)$")


def _raw_bound_comparisons(f):
    out = []
    for x in f.walk():
        if x["k"] in ("binop", "ocall") and x.get("op") in ("<", ">", "<=", ">=", "==", "!="):
            cs = [f.deref(c) for c in x.get("c", ())][-2:]
            if len(cs) == 2 and all(c is not None for c in cs):
                a, b = f.text(cs[0]).replace(" ", ""), f.text(cs[1]).replace(" ", "")
                if _BOUND.match(a) and _BOUND.match(b):
                    out.append((x, a, b))
    return out


def r12_10(ctx, fx):
    rid = "R12.10"
    ctx.rule(rid, "bounds are compared with their properties: inside the members of Interval two bounds are never compared as plain numbers (`y.upper() <= upper()`): whether a bound implies, excludes or meets another depends on their OPEN flags, which only the comparisons of the boundary layer (lt / le / gt / ge / eq with the two info objects) take into account — a plain `<=` calls [0,3) implied by the context [1,3] and drops the strict bound. Expected instances on the library: zero; the rule proves itself on drivers/positive_r12_7.cc on every run")
    u = F.driver_unit("positive_r12_7.cc", file_re=r"positive_r12_7\.cc")
    u.root2 = os.path.join(F.VERIF, "drivers")
    pos = ctx.extract([u])
    hits = [m for g in pos.functions for m in _raw_bound_comparisons(g)]
    ctx.require(rid, len(hits) >= 1, "the positive example in drivers/positive_r12_7.cc is no longer reported: the rule is blind")
    seen = set()
    k = 0
    for f in fx.functions:
        if "Interval_" not in f.file or f.clsn != "Interval" or (f.relfile, f.line) in seen or not f.flag("pattern"):
            continue
        seen.add((f.relfile, f.line))
        k += 1
        for x, a, b in _raw_bound_comparisons(f):
            ctx.violation(rid, "%s `%s` (line %s)" % (f.name, f.text(x)[:50], x.get("l")), f.where(x), "the bounds `%s` and `%s` are compared as plain numbers: when the values coincide the answer depends on which of them is open" % (a, b))
    ctx.count(rid, "Interval members scanned", k)
    ctx.ok(rid, "positive example reported (%d raw comparisons of bounds)" % len(hits), "drivers/positive_r12_7.cc")
    ctx.floor(rid, k, 25, "Interval members scanned")


# ---- R12.11 / R12.12: finite abstractions of the multiplication / division case analysis -----------------------------
def _ret_call(f, ret):
    e = f.deref(ret["c"][0]) if ret.get("c") else None
    while e is not None and e["k"] in ("paren", "cast", "icast") and e.get("c"):
        e = f.deref(e["c"][-1])
    return e


def r12_11(ctx, fx):
    from pplv import absint
    rid = "R12.11"
    ctx.rule(rid, "a zero bound of a product or quotient is open exactly when zero is not attained: mul_assign_z / div_assign_z (Boundary_defs.hh) take over when the sign of a factor is zero. They are interpreted on the finite abstraction (sign of x1, sign of x2, OPEN flag of each bound, x2 a closed infinity or not): with both signs non-zero the general operation is called on the same operands; a product with a zero factor is the bound 0, open iff EVERY zero factor is an open bound (0 closed times anything attains 0; 0 open times a non-zero bound only approaches it); a non-zero dividend over a zero divisor is an open infinity; a zero dividend gives 0, open iff the dividend's bound is open and the divisor is not a closed infinity")
    fns = {}
    for f in fx.functions:
        if f.flag("pattern") and "Boundary_defs" in f.file and f.name in ("mul_assign_z", "div_assign_z") and f.cfg:
            fns.setdefault(f.name, f)
    ctx.require(rid, set(fns) == {"mul_assign_z", "div_assign_z"}, "mul_assign_z / div_assign_z not found in Boundary_defs.hh")
    n = 0
    for name in sorted(fns):
        f = fns[name]
        pn = [p["n"] for p in f.params]
        ctx.require(rid, pn == ["to_type", "to", "to_info", "type1", "x1", "info1", "x1s", "type2", "x2", "info2", "x2s"], "%s has other parameters: %s" % (name, pn))
        bad = []
        for x1s in (-1, 0, 1):
            for x2s in (-1, 0, 1):
                for o1 in (False, True):
                    for o2 in (False, True):
                        for ic2 in ((False, True) if x2s != 0 else (False,)):
                            if name == "div_assign_z" and x1s == 0 and x2s == 0:
                                continue      # 0 / 0: Interval::div_assign answers EMPTY before; not judged
                            st = {"x1s": x1s, "x2s": x2s}

                            def atom(e, env, it, st=st, o1=o1, o2=o2, ic2=ic2):
                                t = f.text(e).replace(" ", "")
                                if e["k"] == "ref" and t in st:
                                    return {st[t]}
                                if e["k"] in ("call", "mcall"):
                                    if t == "info1.get_boundary_property(type1,OPEN)":
                                        return {o1}
                                    if t == "info2.get_boundary_property(type2,OPEN)":
                                        return {o2}
                                    if t == "is_boundary_infinity_closed(type2,x2,info2)":
                                        return {ic2}
                                return None
                            it = absint.CfgInterp(f, atom)
                            try:
                                paths = it.run({})
                                got = set()
                                for ret, env, ev_ in paths:
                                    c = _ret_call(f, ret)
                                    cn = f.call_name(c) if c is not None and c["k"] in ("call", "mcall") else None
                                    args = [f.text(a).replace(" ", "") for a in f.call_args(c)] if cn else []
                                    if cn in ("mul_assign", "div_assign") and args == ["to_type", "to", "to_info", "type1", "x1", "info1", "type2", "x2", "info2"]:
                                        got.add(("GENERAL", cn))
                                    elif cn == "set_zero" and args[:3] == ["to_type", "to", "to_info"]:
                                        for v in it.ev(f.call_args(c)[3], env):
                                            got.add(("ZERO", bool(v)))
                                    elif cn == "set_boundary_infinity" and args[:3] == ["to_type", "to", "to_info"]:
                                        for v in it.ev(f.call_args(c)[3], env):
                                            got.add(("INF", bool(v)))
                                    else:
                                        raise absint.Unknown("terminal `%s` at line %s" % (f.text(ret)[:50], ret.get("l")))
                            except absint.Unknown as ex:
                                raise F.AnalysisBroken("R12.11: %s: %s — the interpretation does not know this form" % (name, ex))
                            n += 1
                            if x1s != 0 and x2s != 0:
                                want = ("GENERAL", name[:-2])
                            elif name == "mul_assign_z":
                                want = ("ZERO", (x1s != 0 or o1) and (x2s != 0 or o2))
                            elif x1s != 0:
                                want = ("INF", True)
                            else:
                                want = ("ZERO", o1 and not ic2)
                            if got != {want}:
                                bad.append((x1s, x2s, o1, o2, ic2, got, want))

        def show(v):
            if v[0] == "GENERAL":
                return "the general %s" % v[1]
            return "%s, %s" % ({"ZERO": "the bound 0", "INF": "an infinite bound"}[v[0]], "open" if v[1] else "closed")
        sg = {-1: "negative", 0: "zero", 1: "positive"}
        if bad:
            for x1s, x2s, o1, o2, ic2, got, want in bad:
                ctx.violation(rid, "%s(x1 %s %s, x2 %s %s%s)" % (name, sg[x1s], "open" if o1 else "closed", sg[x2s], "open" if o2 else "closed", ", a closed infinity" if ic2 else ""), f.where(),
                              "the function gives %s; a bound that is %s is expected" % (" or ".join(sorted(show(v) for v in got)), show(want)))
        else:
            ctx.ok(rid, "%s on the sign / openness abstraction" % name, f.where())
    ctx.count(rid, "abstract states interpreted", n)
    ctx.floor(rid, n, 90, "abstract states interpreted")


_REPS = {-1: (-3, -1), 0: (0,), 1: (1, 3)}


def r12_12(ctx, fx):
    import itertools
    from pplv import absint
    rid = "R12.12"
    ctx.rule(rid, "the sign case analysis of interval multiplication and division picks the right bounds: Interval::mul_assign(x, y) and div_assign(x, y) are interpreted on the signs of the four bounds (xl, xu, yl, yu; operands that are infinities set aside). Each path through the case analysis computes the lower and the upper bound of the result from named bounds of the operands (f_lower(x) * f_upper(y), ...); for the sign state of that path these must be the bounds that give the minimum / maximum of the four products (quotients) — checked on every assignment of representative values with those signs — the sign handed to mul_assign_z / div_assign_z must be the sign of the bound it accompanies, and the path through the mixed-sign case must compute both candidates of each side. Quotients by an interval that touches zero are judged by R12.11")
    fns = {}
    for f in fx.functions:
        if f.flag("pattern") and "Interval_inlines" in f.file and f.clsn == "Interval" and f.name in ("mul_assign", "div_assign") and [p["n"] for p in f.params] == ["x", "y"] and f.cfg:
            fns.setdefault(f.name, f)
    ctx.require(rid, set(fns) == {"mul_assign", "div_assign"}, "Interval::mul_assign(x, y) / div_assign(x, y) not found")
    SGNVAR = {("x", "l"): "xls", ("x", "u"): "xus", ("y", "l"): "yls", ("y", "u"): "yus"}
    nstates = npaths = 0
    for name in sorted(fns):
        f = fns[name]
        is_div = name == "div_assign"
        bad = {}

        def operand(side, val):
            m = re.match(r"^f_(lower|upper)\((x|y)\)$", val)
            if not m or side not in ("LOWER", "UPPER") or (side == "LOWER") != (m.group(1) == "lower"):
                raise absint.Unknown("operand `%s, %s`" % (side, val))
            return (m.group(2), m.group(1)[0])

        def on_elem(n, env, events):
            if n["k"] not in ("call", "mcall"):
                return
            cn = f.call_name(n).lstrip("~")
            if cn not in ("mul_assign_z", "div_assign_z", "mul_assign", "div_assign"):
                return
            a = [f.text(x).replace(" ", "") for x in f.call_args(n)]
            if len(a) == 11:
                o1, o2 = operand(a[3], a[4]), operand(a[7], a[8])
                signs = (a[6], a[10])
            elif len(a) == 9:
                o1, o2 = operand(a[3], a[4]), operand(a[6], a[7])
                signs = None
            else:
                return
            events.append((a[0], a[1], o1, o2, signs, n))

        for xls, xus, yls, yus in itertools.product((-1, 0, 1), repeat=4):
            if xls > xus or yls > yus:
                continue
            if is_div and (yls == 0 or yus == 0):
                continue
            st = {("x", "l"): xls, ("x", "u"): xus, ("y", "l"): yls, ("y", "u"): yus}

            def atom(e, env, it, st=st):
                if e["k"] not in ("call", "mcall"):
                    return None
                cn = f.call_name(e).lstrip("~")
                a = [f.text(x).replace(" ", "") for x in f.call_args(e)]
                if cn == "sgn_b" and len(a) == 3:
                    return {st[operand(a[0], a[1])]}
                if cn == "infinity_sign" and len(a) == 1:
                    return {0}
                if cn == "check_empty_arg":
                    return {False}
                if cn in ("gt", "lt", "ge", "le") and len(a) == 6:
                    return {True, False}
                return None
            it = absint.CfgInterp(f, atom, on_elem=on_elem)
            try:
                paths = it.run({})
            except absint.Unknown as ex:
                raise F.AnalysisBroken("R12.12: %s: %s — the interpretation does not know this form" % (name, ex))
            nstates += 1
            # representative operands with these signs
            reps = [(xl, xu, yl, yu) for xl in _REPS[xls] for xu in _REPS[xus] for yl in _REPS[yls] for yu in _REPS[yus] if xl <= xu and yl <= yu]
            sg = {-1: "<0", 0: "=0", 1: ">0"}
            stxt = "xl%s xu%s yl%s yu%s" % (sg[xls], sg[xus], sg[yls], sg[yus])
            for ret, env, events in paths:
                c = _ret_call(f, ret)
                cn = f.call_name(c) if c is not None and c["k"] in ("call", "mcall") else None
                if cn != "combine":
                    if events:
                        bad.setdefault((ret.get("l"), "early"), (ret, "in the state %s bounds are computed but the function returns `%s`" % (stxt, f.text(ret)[:40])))
                    continue
                npaths += 1
                for side, pick in (("LOWER", min), ("UPPER", max)):
                    cands = [ev_ for ev_ in events if ev_[0] == side]
                    if not cands:
                        bad.setdefault((ret.get("l"), side), (ret, "in the state %s no %s bound of the result is computed" % (stxt, side.lower())))
                        continue
                    for ev_ in cands:
                        if ev_[4] is not None and (ev_[4][0] != SGNVAR[ev_[2]] or ev_[4][1] != SGNVAR[ev_[3]]):
                            bad.setdefault((ev_[5].get("l"), "sign"), (ev_[5], "the signs `%s, %s` accompany the bounds %s and %s: each must be the sign of its own bound (%s, %s)" % (
                                ev_[4][0], ev_[4][1], "%s%s" % ev_[2], "%s%s" % ev_[3], SGNVAR[ev_[2]], SGNVAR[ev_[3]])))
                    for xl, xu, yl, yu in reps:
                        val = {("x", "l"): xl, ("x", "u"): xu, ("y", "l"): yl, ("y", "u"): yu}
                        from fractions import Fraction
                        op = (lambda a, b: Fraction(a, b)) if is_div else (lambda a, b: a * b)
                        true = pick(op(a, b) for a in (xl, xu) for b in (yl, yu))
                        got = pick(op(val[ev_[2]], val[ev_[3]]) for ev_ in cands)
                        if got != true:
                            first = cands[0][5]
                            bad.setdefault((first.get("l"), side), (first, "in the state %s the %s bound is taken from %s, but for x = [%d, %d], y = [%d, %d] that gives %s while the %s of the four %s is %s" % (
                                stxt, side.lower(), " and ".join("%s%s %s %s%s" % (e_[2][0], e_[2][1], "/" if is_div else "*", e_[3][0], e_[3][1]) for e_ in cands),
                                xl, xu, yl, yu, got, "minimum" if pick is min else "maximum", "quotients" if is_div else "products", true)))
                            break
        if bad:
            for key in sorted(bad, key=str):
                node, msg = bad[key]
                ctx.violation(rid, "Interval::%s line %s (%s)" % (name, key[0], key[1]), f.where(node), msg)
        else:
            ctx.ok(rid, "Interval::%s(x, y) on the signs of the four bounds" % name, f.where())
    ctx.count(rid, "sign states interpreted", nstates)
    ctx.count(rid, "paths reaching combine(rl, ru)", npaths)
    ctx.floor(rid, nstates, 36 + 9, "sign states interpreted")
    ctx.floor(rid, npaths, 40, "paths reaching combine(rl, ru)")


def r12_13(ctx, fx):
    import itertools
    from pplv import absint
    rid = "R12.13"
    ctx.rule(rid, "bounds are ordered as positions on the extended line: an open lower bound at v stands just above v, an open upper bound just below it, a closed bound at v; -inf < every finite value < +inf. Boundary_NS::lt and eq (from which gt, le, ge are derived by swapping and negating; checked too) are interpreted on side x kind {-inf, finite, +inf} x OPEN flag of each bound and the order of the two finite values, and must answer what the positions say on every path, asking the underlying less_than / less_or_equal / equal only about two finite values")
    want_fns = ("lt", "eq", "gt", "le", "ge")
    fns = {}
    for f in fx.functions:
        if f.flag("pattern") and "Boundary_defs" in f.file and f.name in want_fns and [p["n"] for p in f.params] == ["type1", "x1", "info1", "type2", "x2", "info2"] and f.cfg:
            fns.setdefault(f.name, f)
    ctx.require(rid, set(fns) == set(want_fns), "Boundary_NS comparisons not found: %s" % ", ".join(sorted(set(want_fns) - set(fns))))
    VAL = {"MINF": -1, "FIN": 0, "PINF": 1}

    def interpret(name, st, depth=0):
        f = fns[name]
        if depth > 3:
            raise absint.Unknown("recursion among the comparisons")

        def which(args):
            a = [x.replace(" ", "") for x in args]
            if a == ["type1", "x1", "info1"]:
                return 1
            if a == ["type2", "x2", "info2"]:
                return 2
            raise absint.Unknown("bound `%s`" % ", ".join(args))

        def atom(e, env, it):
            t = f.text(e).replace(" ", "")
            if e["k"] == "ref":
                if t in ("LOWER", "UPPER"):
                    return {t}
                if t == "type1":
                    return {st["t1"]}
                if t == "type2":
                    return {st["t2"]}
                return None
            if e["k"] in ("call", "mcall"):
                cn = f.call_name(e).lstrip("~")
                a = [f.text(x) for x in f.call_args(e)]
                if cn == "is_open" and len(a) == 3:
                    return {st["o%d" % which(a)]}
                if cn in ("is_minus_infinity", "is_plus_infinity") and len(a) == 3:
                    return {st["k%d" % which(a)] == ("MINF" if cn == "is_minus_infinity" else "PINF")}
                if cn in ("less_than", "less_or_equal", "equal") and [x.replace(" ", "") for x in a] in (["x1", "x2"], ["x2", "x1"]):
                    if st["k1"] != "FIN" or st["k2"] != "FIN":
                        return {"NATIVE!"}
                    r = st["rel"] if a[0].strip() == "x1" else -st["rel"]
                    return {{"less_than": r < 0, "less_or_equal": r <= 0, "equal": r == 0}[cn]}
                if cn in fns and len(a) == 6:
                    b1, b2 = which(a[:3]), which(a[3:])
                    if b1 == b2:
                        raise absint.Unknown("a bound compared with itself")
                    if (b1, b2) == (1, 2):
                        st2 = st
                    else:
                        st2 = {"t1": st["t2"], "k1": st["k2"], "o1": st["o2"], "t2": st["t1"], "k2": st["k1"], "o2": st["o1"], "rel": -st["rel"]}
                    return interpret(cn, st2, depth + 1)
            return None
        it = absint.CfgInterp(f, atom)
        out = set()
        for ret, env, ev_ in it.run({}):
            out |= it.ev(ret["c"][0], env)
        return out

    n = 0
    for name in want_fns:
        f = fns[name]
        bad = []
        for t1, k1, o1, t2, k2, o2 in itertools.product(("LOWER", "UPPER"), ("MINF", "FIN", "PINF"), (False, True), ("LOWER", "UPPER"), ("MINF", "FIN", "PINF"), (False, True)):
            for rel in ((-1, 0, 1) if k1 == "FIN" and k2 == "FIN" else (0,)):
                st = {"t1": t1, "k1": k1, "o1": o1, "t2": t2, "k2": k2, "o2": o2, "rel": rel}
                try:
                    got = interpret(name, st)
                except absint.Unknown as ex:
                    raise F.AnalysisBroken("R12.13: %s: %s — the interpretation does not know this form" % (name, ex))
                n += 1
                eps = lambda t, o: 0 if not o else (1 if t == "LOWER" else -1)
                p1 = (VAL[k1], rel if k1 == "FIN" and k2 == "FIN" else 0, eps(t1, o1))
                p2 = (VAL[k2], 0, eps(t2, o2))
                want = {"lt": p1 < p2, "eq": p1 == p2, "gt": p1 > p2, "le": p1 <= p2, "ge": p1 >= p2}[name]
                if got != {want}:
                    bad.append((st, got, want))
        if bad:
            def b(t, k, o, v):
                return "%s %s %s" % (t.lower(), "open" if o else "closed", {"MINF": "-inf", "PINF": "+inf", "FIN": v}[k])
            for st, got, want in bad[:12]:
                v1, v2 = {(-1): ("1", "2"), 0: ("1", "1"), 1: ("2", "1")}[st["rel"]]
                ctx.violation(rid, "%s(%s ; %s)" % (name, b(st["t1"], st["k1"], st["o1"], v1), b(st["t2"], st["k2"], st["o2"], v2)), f.where(),
                              "the function answers %s; as positions on the extended line the answer is %s" % (" or ".join(sorted(str(v).lower() if isinstance(v, bool) else "the comparison of the underlying type on an infinite bound" for v in got)), str(want).lower()))
        else:
            ctx.ok(rid, "Boundary_NS::%s on the side / kind / openness abstraction" % name, f.where())
    ctx.count(rid, "abstract states interpreted", n)
    ctx.floor(rid, n, 5 * 152, "abstract states interpreted")


def r12_14(ctx, fx):
    rid = "R12.14"
    ctx.rule(rid, "the two overloads of an interval operation report the same kind of result: x.op_assign(y) computes x op y and x.op_assign(a, b) computes a op b; both end by storing the two bounds, and the I_Result they return is built the same way (combine(rl, ru), or I_ANY where the bounds are stored without looking at the outcome). A constant that claims more in one overload (I_NOT_EMPTY after an intersection, which check_empty() then trusts) is a claim nothing on the path established")
    by = {}
    for f in fx.functions:
        if f.flag("pattern") and "Interval_inlines" in f.file and f.clsn == "Interval" and f.name.endswith("_assign") and len(f.params) in (1, 2):
            by.setdefault((f.name, len(f.params)), f)
    n = 0
    for (name, k), f1 in sorted(by.items()):
        if k != 1 or (name, 2) not in by:
            continue
        f2 = by[(name, 2)]

        def last_return(f):
            rets = [r for r in f.walk() if r["k"] == "return"]
            r = max(rets, key=lambda r: r.get("l", 0))
            e = f.deref(r["c"][0])
            t = f.text(e).replace(" ", "")
            t = re.sub(r"\(.*\)$", "(..)", t) if e["k"] in ("call", "mcall") else t
            return r, t
        r1, t1 = last_return(f1)
        r2, t2 = last_return(f2)
        n += 1
        inst = "Interval::%s (one operand / two operands)" % name
        if t1 == t2:
            ctx.ok(rid, inst, f2.where(r2))
        else:
            ctx.violation(rid, inst, f2.where(r2), "the one-operand overload ends in `return %s`, the two-operand overload in `return %s`" % (t1, t2))
    ctx.floor(rid, n, 3, "operations with a one-operand and a two-operand overload")


def r12_15(ctx):
    from pplv import flow
    rid = "R12.15"
    ctx.rule(rid, "a stored linear form never describes a variable in terms of itself: a form recorded for variable v (`lf_store[v] = lf`) is a relation between the NEW value of v and the other variables, so every form that mentions v — the new one included, when the assignment was `v := f(v)` — must be invalidated AFTER the store: on every path from the store to the exit there is a discard_occurrences(lf_store, ..) call or an erase loop over the store. Invalidating first and storing afterwards keeps `x + 1` as the description of x after `x := x + 1`")
    fx = ctx.extract([F.driver_unit("all_headers.cc", file_re=r"(Float_inlines|Float_templates|[A-Za-z_]*Floating_Point_Expression_inlines|[A-Za-z_]*Floating_Point_Expression_templates)\.hh")])
    seen = set()
    n = 0
    for f in fx.functions:
        if not f.flag("pattern") or (f.relfile, f.line) in seen or not f.cfg:
            continue
        seen.add((f.relfile, f.line))
        for a in f.walk():
            if a["k"] not in ("assign", "ocall") or a.get("op") != "=":
                continue
            lhs = f.deref(a["c"][-2]) if len(a.get("c", ())) >= 2 else None
            if lhs is None or not re.match(r"^lf_store\[.*\]$", f.text(lhs).replace(" ", "")):
                continue
            n += 1
            inst = "%s `%s` (line %s)" % (f.name, f.text(a)[:40], a.get("l"))

            def invalidates(x):
                if x["k"] in ("call", "mcall"):
                    cn = f.call_name(x).lstrip("~")
                    if cn == "discard_occurrences":
                        return True
                    if cn == "erase" and "lf_store" in f.text(x):
                        return True
                return False
            # conservative: an erase inside a loop counts when the loop is on every path after the store
            loops_after = [lp for lp in f.walk() if lp["k"] in ("for", "while") and lp.get("l", 0) > a.get("l", 0) and any(invalidates(x) for x in f.walk(lp))]
            bad = flow.must_follow(f, a, invalidates)
            if bad is None or loops_after:
                ctx.ok(rid, inst, f.where(a))
            else:
                ctx.violation(rid, inst, f.where(a), "no invalidation of the forms that mention the variable follows the store (path %s): when the stored form mentions the variable itself it stays in the store and is read as a relation with the new value" % flow.render_path(f, bad))
    ctx.floor(rid, n, 2, "stores into a linear-form abstract store")


def _fp_format_tables(repo):
    """(ordinal of each Floating_Point_Format enumerator, mantissa bits of each format), read from the declarations
    in globals_types.hh and Float_defs.hh."""
    src = open(os.path.join(repo, "src", "globals_types.hh")).read()
    m = re.search(r"enum\s+Floating_Point_Format\s*\{(.*?)\};", src, re.S)
    if not m:
        raise F.AnalysisBroken("R12.16: enum Floating_Point_Format not found in globals_types.hh")
    body = re.sub(r"//[^\n]*", "", m.group(1))
    names = [x.strip() for x in body.split(",") if x.strip()]
    if any("=" in x for x in names):
        raise F.AnalysisBroken("R12.16: Floating_Point_Format has explicit enumerator values: the rule does not know this form")
    ordinal = {n: i for i, n in enumerate(names)}
    fd = open(os.path.join(repo, "src", "Float_defs.hh")).read()
    bits = {}
    struct_bits = {}
    for sm in re.finditer(r"struct\s+(float_\w+)\s*\{(.*?)\n\};", fd, re.S):
        b = re.search(r"MANTISSA_BITS\s*=\s*(\d+)", sm.group(2))
        fm = re.search(r"floating_point_format\s*=\s*(\w+)", sm.group(2))
        fmt = fm.group(1) if fm else sm.group(1)[len("float_"):].upper()     # float_ibm_double has no member: by name
        if b:
            struct_bits[sm.group(1)] = int(b.group(1))
        if b and fmt in ordinal:
            bits[fmt] = int(b.group(1))
    return ordinal, bits, struct_bits


def r12_16(ctx):
    from pplv import absint
    rid = "R12.16"
    ctx.rule(rid, "is_less_precise_than orders the formats by precision: linearize() adds no rounding error to a cast when the destination is NOT less precise than the source, so the answer must be true exactly when the first format has fewer mantissa bits than the second. The function (and any helper it calls) is interpreted on all pairs of Floating_Point_Format enumerators, with the enumerators' ordinals read from the enum declaration and the mantissa sizes from the MANTISSA_BITS / floating_point_format members of the float_* structs")
    ordinal, bits, struct_bits = _fp_format_tables(ctx.repo)
    ctx.require(rid, len(ordinal) >= 7 and set(bits) <= set(ordinal) and len(bits) >= 7, "format tables incomplete: %d enumerators, %d structs with a format" % (len(ordinal), len(bits)))
    fx = ctx.extract([F.driver_unit("all_headers.cc", file_re=r"Float_inlines\.hh")])
    fns = {}
    for f in fx.functions:
        if f.cfg and f.file.endswith("Float_inlines.hh"):
            fns.setdefault(f.name, f)
    f0 = fns.get("is_less_precise_than")
    ctx.require(rid, f0 is not None, "is_less_precise_than not found in Float_inlines.hh")

    def interpret(f, argvals, depth=0):
        if depth > 3:
            raise absint.Unknown("recursion")
        pv = {p["n"]: v for p, v in zip(f.params, argvals)}

        def atom(e, env, it):
            t = f.text(e).strip()
            if e["k"] == "ref":
                if t in pv:
                    return {pv[t]}
                if t.split("::")[-1] in ordinal:
                    return {ordinal[t.split("::")[-1]]}
                m_ = re.match(r"^(?:\w+::)*(float_\w+)::MANTISSA_BITS$", e.get("qn") or t)
                if m_ and m_.group(1) in struct_bits:
                    return {struct_bits[m_.group(1)]}
                return None
            if e["k"] in ("call", "mcall"):
                cn = f.call_name(e).lstrip("~")
                if cn in fns and cn != f.name:
                    vals = [it.ev(a, env) for a in f.call_args(e)]
                    if all(len(v) == 1 for v in vals):
                        return interpret(fns[cn], [next(iter(v)) for v in vals], depth + 1)
            return None
        it = absint.CfgInterp(f, atom)
        out = set()
        for ret, env, ev_ in it.run({}):
            out |= it.ev(ret["c"][0], env)
        return out
    n = 0
    bad = []
    for a in sorted(bits, key=lambda x: ordinal[x]):
        for b in sorted(bits, key=lambda x: ordinal[x]):
            try:
                got = interpret(f0, [ordinal[a], ordinal[b]])
            except absint.Unknown as ex:
                raise F.AnalysisBroken("R12.16: is_less_precise_than: %s — the interpretation does not know this form" % ex)
            n += 1
            want = bits[a] < bits[b]
            if {bool(g) for g in got} != {want}:
                bad.append((a, b, got, want))
    if bad:
        for a, b, got, want in bad:
            ctx.violation(rid, "is_less_precise_than(%s, %s)" % (a, b), f0.where(), "the answer is %s, but %s has %d mantissa bits and %s has %d" % (" or ".join(sorted(str(bool(g)).lower() for g in got)), a, bits[a], b, bits[b]))
    else:
        ctx.ok(rid, "is_less_precise_than on %d pairs of formats" % n, f0.where())
    ctx.floor(rid, n, 49, "pairs of formats")


def run(ctx):
    ctx.explanation = ("C12 side discipline of the interval layer on the template patterns of Interval_* and Boundary_defs.hh: consistent (side, value, info) triples, "
                       "direction derived from the side of the bound written, results combined; decides the discipline, not the sign case analysis of mul/div or linearisation")
    ctx.assumptions = ["rules work on template patterns (dependent calls resolved by name)",
                       "the checked-number primitives honour the direction they are given (C11)"]
    fx = ctx.extract(units(ctx.tier))
    r12_1(ctx, fx)
    r12_2(ctx, fx)
    ctx.rule("R3.3", "see C03: LOWER==ROUND_DOWN, UPPER==ROUND_UP and the other encoding witnesses")
    c03.r3_3(ctx)
    r12_4(ctx, fx)
    r12_6(ctx)
    r12_7(ctx, fx)
    r12_8(ctx, fx)
    r12_9(ctx, fx)
    r12_10(ctx, fx)
    r12_11(ctx, fx)
    r12_12(ctx, fx)
    r12_13(ctx, fx)
    r12_14(ctx, fx)
    r12_15(ctx)
    r12_16(ctx)
    from rules import idioms
    ctx.rule("R12.5", "copies agree: the per-format arms of the switches of the floating-point layer (compute_absolute_error caches one result per analysed format and reads the traits of that format) are copies of one another; in each arm the identifiers repeat exactly as in its siblings — the slot tested is the slot returned and the slot filled, and the three traits come from one struct")
    fxf = ctx.extract([F.driver_unit("all_headers.cc", file_re=r"(Float_(templates|inlines)|linearize|Linear_Form_templates|Interval_templates)\.hh")])
    k = idioms.copy_paste_arms(ctx, "R12.5", fxf.functions)
    ctx.floor("R12.5", k, 6, "switch arms that are copies of one another")
