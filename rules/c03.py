"""C03 — box / BD-shape / octagon results contain the exact result, for every T: rounding discipline.

R3.1 ROUND-DIR     every Rounding_Dir named at a call site inside the weakly-relational domains
                   rounds towards the sound side (upper bounds up); each downward rounding is a
                   tabled, reasoned site
R3.2 NOT-NEEDED    ROUND_NOT_NEEDED into an inexact/bounded destination only for operations that
                   are exact there (assignment, negation) or at tabled sites
R3.3 WITNESSES     policy constants and enum encodings the discipline relies on (static_assert TU)
The sign case analysis of the affine transformers, the closure algebra and the converting constructors are not decided.
"""
import re

from pplv import facts as F
from pplv import witness

FILE_RE = r"(BD_Shape|Octagonal_Shape|DB_Matrix|OR_Matrix|DB_Row|math_utilities)_(templates|inlines)\.hh"
OK_DIRS = {"ROUND_UP", "ROUND_NOT_NEEDED", "ROUND_CHECK", "ROUND_DIRECT", "ROUND_STRICT_RELATION"}

# (class or '' for free functions, function, callee, direction) -> reason
DOWN_SITES = {
    ("", "operator<<", "neg_assign_r", "ROUND_DOWN"): "printing: a lower bound is shown as the negation of the stored upper bound of the opposite difference, rounded down; output only",
    ("BD_Shape", "drop_some_non_integer_points_helper", "floor_assign_r", "ROUND_DOWN"): "tightening an upper bound to its floor keeps every integer point (the operation's documented meaning)",
    ("Octagonal_Shape", "drop_some_non_integer_points_helper", "floor_assign_r", "ROUND_DOWN"): "tightening an upper bound to its floor keeps every integer point",
    ("BD_Shape", "simplify_using_context_assign", "neg_assign_r", "ROUND_DOWN"): "builds the complement constraint of one that is violated by the context (a lower bound on the opposite difference): rounding it down keeps the simplified shape within the documented enlargement",
    ("Octagonal_Shape", "simplify_using_context_assign", "neg_assign_r", "ROUND_DOWN"): "as for BD_Shape",
    ("Octagonal_Shape", "linear_form_upper_bound", "div_2exp_assign_r", "ROUND_DOWN"): "halves the negated unary bound, i.e. the variable's LOWER bound (used as such in the max/min that follows): lower bounds round down",
    ("BD_Shape", "export_interval_constraints", "neg_assign_r", "ROUND_DOWN"): "exports the variable's LOWER bound as the negation of the stored upper bound of 0 - x: lower bounds round down",
    ("Octagonal_Shape", "export_interval_constraints", "div_2exp_assign_r", "ROUND_DOWN"): "halves the negated stored bound, i.e. the variable's LOWER bound: lower bounds round down",
    ("Octagonal_Shape", "contains_integer_point", "assign_r", "ROUND_DOWN"): "builds an integer octagon with bounds floored: exact for the integer points being searched",
}

EXACT_OPS = {"assign_r", "neg_assign_r", "abs_assign_r", "construct", "Checked_Number"}
NOT_NEEDED_SITES = {
    ("BD_Shape", "BHZ09_upper_bound_assign_if_exact"): "`lhs + 1` is computed only when integer_upper_bound is set, i.e. for integer T where it is exact; the value is a local used for the exactness verdict",
    ("Octagonal_Shape", "integer_upper_bound_assign_if_exact"): "integer-only operation (throws for non-integer T): sums of integer bounds are exact barring overflow, which the policy still checks",
}


def units(tier):
    us = [F.driver_unit("shapes_double.cc", file_re=FILE_RE)]
    if tier == "thorough":
        us.append(F.driver_unit("shapes_mpq.cc", file_re=FILE_RE))
    return us


def dir_refs(f, n):
    return [x["n"] for a in f.call_args(n) for x in f.walk(a)
            if x["k"] == "ref" and x.get("dk") == "enum" and "Rounding_Dir" in x.get("t", "")]


def _inexact(t):
    t = t or ""
    return bool(re.search(r"\bdouble\b|\bfloat\b|int32_t|\bint\b|int8_t|int16_t|int64_t", t)) and "mpq" not in t and "mpz" not in t


def r3_1_2(ctx, fx):
    ctx.rule("R3.1", "rounding direction: inside BD_Shape / Octagonal_Shape / DB_Matrix / OR_Matrix / DB_Row and their helpers (instantiated for double, int32_t and mpz_class) every Rounding_Dir enumerator named at a call site is ROUND_UP, ROUND_NOT_NEEDED or a check flag; a ROUND_DOWN / ROUND_IGNORE appears only at the tabled (function, callee) sites")
    ctx.rule("R3.2", "ROUND_NOT_NEEDED with a destination of inexact or bounded type (double, intN_t) is used only by operations that are exact there (assign_r, neg_assign_r, abs_assign_r) or inside the tabled integer-only functions")
    n1 = n2 = 0
    seen1, seen2 = set(), set()
    counts = {}
    for f in fx.functions:
        if f.flag("pattern"):
            continue
        cls = f.clsn or ""
        if cls not in ("BD_Shape", "Octagonal_Shape", "DB_Matrix", "OR_Matrix", "DB_Row", "DB_Row_Impl_Handler", "Impl", "") :
            continue
        for c in f.calls():
            dirs = dir_refs(f, c)
            if not dirs:
                continue
            callee = f.call_name(c)
            for d in dirs:
                counts[d] = counts.get(d, 0) + 1
                key = (cls, f.name, callee, d, F.strip_ns(f.cls or "")[:60])
                if d in OK_DIRS:
                    continue
                inst = "%s::%s %s(..., %s) [%s]" % (cls, f.name, callee, d, re.sub(r".*<(.*)>$", r"\1", F.strip_ns(f.cls or "free")).split(",")[0][:30])
                if inst in seen1:
                    continue
                seen1.add(inst)
                n1 += 1
                why = DOWN_SITES.get((cls, f.name, callee, d))
                if why:
                    ctx.excepted("R3.1", inst, f.where(c), why)
                else:
                    ctx.violation("R3.1", inst, f.where(c), "an upper bound of the domain is computed rounding %s: for inexact T the result may cut away points of the exact answer" % d)
            if "ROUND_NOT_NEEDED" in dirs and callee not in EXACT_OPS:
                args = [f.deref(a) for a in f.call_args(c)]
                t0 = (args[0] or {}).get("t", "") if args else ""
                tinst = F.strip_ns(f.cls or "")
                dest_inexact = _inexact(t0) or (("::N" in t0 or t0.strip() in ("N &", "N")) and _inexact(tinst))
                if not dest_inexact:
                    continue
                inst = "%s::%s %s(%s, ..., ROUND_NOT_NEEDED) [%s]" % (cls, f.name, callee, F.strip_ns(t0)[:30], re.sub(r".*<(.*)>$", r"\1", tinst)[:20])
                if inst in seen2:
                    continue
                seen2.add(inst)
                n2 += 1
                why = NOT_NEEDED_SITES.get((cls, f.name))
                if why:
                    ctx.excepted("R3.2", inst, f.where(c), why)
                else:
                    ctx.violation("R3.2", inst, f.where(c), "`%s` into an inexact destination with ROUND_NOT_NEEDED: the result is rounded in an unspecified direction" % callee)
    for d, k in sorted(counts.items()):
        ctx.count("R3.1", d, k)
    ctx.ok("R3.1", "all other direction arguments are upward / not-needed", "src")
    ctx.floor("R3.1", counts.get("ROUND_UP", 0), 500, "ROUND_UP call sites seen (instantiated)")
    ctx.floor("R3.1", n1, 8, "downward-rounding sites")
    ctx.ok("R3.2", "all other ROUND_NOT_NEEDED uses have exact operations or exact destinations", "src")
    ctx.floor("R3.2", counts.get("ROUND_NOT_NEEDED", 0), 300, "ROUND_NOT_NEEDED call sites seen (instantiated)")


def r3_3(ctx, views=("release",)):
    rid = "R3.3"
    ctx.rule(rid, "compile-time witnesses: Rounding_Dir / Result / Boundary_Type encodings and the checked-number policies the rounding discipline relies on (overflow checked, infinities representable, LOWER==ROUND_DOWN, UPPER==ROUND_UP, bound type is an extended checked number)")
    for v in views:
        ids, failed = witness.run("policies.cc", v, ctx.repo)
        ctx.require(rid, len(ids) >= 25, "witness TU has only %d assertions in view %s" % (len(ids), v))
        for i in ids:
            inst = "%s@%s" % (i, v)
            if i in failed:
                ctx.violation(rid, inst, "tool/witness/policies.cc", "static_assert failed: " + failed[i])
            else:
                ctx.ok(rid, inst, "tool/witness/policies.cc")


def _contributors(f, name, depth=0, acc=None):
    """Locals that feed local `name` multiplicatively (assignment, *=, assign_r / neg_assign / mul_*)."""
    acc = acc if acc is not None else set()
    if name in acc or depth > 4:
        return acc
    acc.add(name)
    for n in f.walk():
        src = None
        if n["k"] in ("assign", "ocall") and n.get("op") in ("=", "*=") and n.get("c") and f.deref(n["c"][0]) is not None \
                and f.deref(n["c"][0])["k"] == "ref" and f.deref(n["c"][0]).get("n") == name:
            src = [f.deref(n["c"][1])]
        elif n["k"] == "call" and f.call_name(n) in ("assign_r", "neg_assign", "abs_assign", "mul_assign_r", "mul_2exp_assign", "mul_assign"):
            a = f.call_args(n)
            if a and a[0] is not None and a[0]["k"] == "ref" and a[0].get("n") == name:
                src = a[1:]
        elif n["k"] == "var" and n["n"] == name and n.get("c"):
            src = [f.deref(n["c"][0])]
        for s_ in src or ():
            for x in f.walk(s_):
                if x["k"] == "ref" and x.get("dk") in ("local", "param") and x["n"] != name:
                    _contributors(f, x["n"], depth + 1, acc)
    return acc


def _coefficient_sources(f):
    """{local: decl} for locals bound to `e.coefficient(v)` whose index is not known to hold a non-zero."""
    nz_index = set()
    for v in f.walk():
        if v["k"] == "var" and v.get("c") and any(f.call_name(c) in ("last_nonzero", "first_nonzero") for c in f.calls(f.deref(v["c"][0]))):
            nz_index.add(v["n"])
    out = {}
    for v in f.walk():
        if v["k"] == "var" and v.get("c"):
            init = f.deref(v["c"][0])
            for c in f.calls(init):
                if f.call_name(c) == "coefficient":
                    idx = [x["n"] for a in f.call_args(c) for x in f.walk(a) if x["k"] == "ref"]
                    if not any(i in nz_index for i in idx):
                        out[v["n"]] = v
    return out


def r3_5(ctx, fx):
    from pplv import flow
    rid = "R3.5"
    ctx.rule(rid, "no zero denominator: when a value obtained from `e.coefficient(v)` (which is zero whenever v does not occur in e) flows multiplicatively into the denominator of a rational (`assign_r(q.get_den(), d, ...)`), every path to that assignment passes a test that the coefficient is not zero (or the index came from last_nonzero() / first_nonzero()); otherwise canonicalize() divides by zero (GMP raises SIGFPE)")
    n = 0
    seen = set()
    for f in fx.functions:
        if f.flag("pattern") or not f.cfg or (f.relfile, f.line) in seen:
            continue
        seen.add((f.relfile, f.line))
        srcs = None
        for c in f.calls():
            if c["k"] != "call" or f.call_name(c) != "assign_r":
                continue
            a = f.call_args(c)
            if not a or "get_den()" not in f.text(a[0]) or a[1] is None or a[1]["k"] != "ref":
                continue
            n += 1
            den = a[1]["n"]
            if srcs is None:
                srcs = _coefficient_sources(f)
            inst = "%s::%s denominator `%s`" % (f.clsn or "", f.name, den)
            bad = None
            for s_ in sorted(_contributors(f, den) & set(srcs)):
                def edge(tc, taken, s_=s_):
                    t = f.text(tc).replace(" ", "")
                    return (t in (s_ + "!=0", "0!=" + s_) and taken) or (t in (s_ + "==0", "0==" + s_) and not taken) or \
                        (t in (s_ + ">0", s_ + "<0") and taken) or (t in (s_ + ">=0", s_ + "<=0") and not taken)
                tgt = set(x["i"] for x in f.walk(c))
                p = flow.Explorer(f).find_path("ENTRY", lambda y: False, lambda y: y["i"] in tgt, edge_blocked=edge)
                if p is not None:
                    bad = (s_, p)
                    break
            if bad is None:
                ctx.ok(rid, inst, f.where(c))
            else:
                ctx.violation(rid, inst, f.where(c), "`%s` is multiplied by `%s`, a coefficient that is zero when the variable does not occur in the expression, and no test excludes that on the path %s" % (den, bad[0], flow.render_path(f, bad[1])))
    ctx.floor(rid, n, 12, "rational denominators assigned from locals")


ACCUMULATORS = ("add_mul_assign_r", "sub_mul_assign_r", "add_assign_r", "sub_assign_r")


def r3_6(ctx):
    rid = "R3.6"
    ctx.rule(rid, "one bound, one direction: a bound that a loop accumulates term by term (add_mul_assign_r / sub_mul_assign_r / x = x +- .. into one destination inside the innermost loop) is rounded in a single direction — the direction belongs to the bound being computed (a lower approximation rounds down throughout, an upper one up throughout), not to the sign of the term; mixed directions give a value that is neither, and with inexact boundaries the refined box loses points that satisfy the constraint")
    fx = ctx.extract([F.driver_unit("domains.cc", file_re=r"(Box_templates|Box_inlines|BD_Shape_templates|Octagonal_Shape_templates|Interval_templates|Interval_inlines)\.hh")])
    n = 0
    seen = set()
    for f in fx.functions:
        if not f.flag("pattern") or (f.relfile, f.line) in seen:
            continue
        seen.add((f.relfile, f.line))
        for lp in f.walk():
            if lp["k"] not in ("for", "while", "do"):
                continue
            body = f.deref(lp["c"][-1])
            if body is None:
                continue
            acc = {}
            for c in f.calls(body):
                if f.call_name(c) not in ACCUMULATORS:
                    continue
                inner = [a for a in f.ancestors(c) if a["k"] in ("for", "while", "do")]
                if not inner or inner[0]["i"] != lp["i"]:
                    continue
                args = f.call_args(c)
                if len(args) < 3:
                    continue
                dest = f.text(args[0]).replace(" ", "")
                if f.call_name(c) in ("add_assign_r", "sub_assign_r") and dest not in [f.text(a).replace(" ", "") for a in args[1:3]]:
                    continue
                d = f.text(args[-1]).replace(" ", "")
                if not d.startswith("ROUND_"):
                    continue
                acc.setdefault(dest, []).append((d, c))
            for dest, lst in sorted(acc.items()):
                n += 1
                inst = "%s accumulates `%s` in the loop at line %s" % (f.name, dest, lp.get("l"))
                dirs = sorted(set(d for d, _ in lst))
                if len(dirs) == 1:
                    ctx.ok(rid, inst, f.where(lp))
                else:
                    odd = min(dirs, key=lambda d_: sum(1 for x, _ in lst if x == d_))
                    c_odd = next(c for d_, c in lst if d_ == odd)
                    ctx.violation(rid, inst, f.where(c_odd), "`%s` is accumulated with %s (lines %s): the approximation is neither from below nor from above" % (dest, " and ".join(dirs), ", ".join(str(c.get("l")) for _, c in lst)))
    ctx.floor(rid, n, 50, "bounds accumulated in loops")


# sign-normalised pairs: `const X& sc_A = is_sc ? A : minus_A;` — the members of one normalisation travel together
R37_PAIR = {"sc_expr": "sc_denom", "minus_sc_expr": "minus_sc_denom"}
R37_DENOMS = ("denominator", "minus_denom", "sc_denom", "minus_sc_denom")
R37_EXPRS = ("expr", "minus_expr", "sc_expr", "lb_expr", "ub_expr")


def r3_7(ctx):
    import re
    rid = "R3.7"
    ctx.rule(rid, "a sign-normalised expression travels with its sign-normalised denominator: the affine transformers of BD_Shape and Octagonal_Shape replace (expr, denominator) by the pair (sc_expr, sc_denom) = (expr, d) or (-expr, -d), so that the denominator is positive, and hand the pair to helpers (deduce_v_minus_u_bounds, deduce_v_pm_u_bounds, ...) that only ASSERT `sc_denom > 0` and split cases on `coefficient >= sc_denom`. A call that passes `sc_expr` together with the raw `denominator` (or `minus_denom`) is right for positive denominators and applies the wrong case to every coefficient for negative ones; the same holds for the raw expression passed with `sc_denom`")
    fx = ctx.extract([F.driver_unit("domains.cc", file_re=r"(BD_Shape_templates|Octagonal_Shape_templates)\.hh")])
    n = 0
    defs = 0
    seen = set()
    for f in fx.functions:
        if not f.flag("pattern") or (f.relfile, f.line) in seen:
            continue
        seen.add((f.relfile, f.line))
        locs = set()
        for v in f.walk():
            if v["k"] == "var":
                nm = v.get("n") or v.get("name") or ""
                if nm in ("sc_expr", "sc_denom") and v.get("c") and f.deref(v["c"][-1]) is not None and f.deref(v["c"][-1])["k"] == "cond":
                    locs.add(nm)
        if "sc_denom" not in locs:
            continue
        defs += 1
        for c in f.calls():
            args = [f.text(a).replace(" ", "") for a in f.call_args(c)]
            ex = [a for a in args if a in R37_EXPRS]
            dn = [a for a in args if a in R37_DENOMS]
            if not ex or not dn:
                continue
            n += 1
            inst = "%s: %s(%s) (line %s)" % (f.name, f.call_name(c), ", ".join(args), c.get("l"))
            bad = None
            for e_ in ex:
                want = R37_PAIR.get(e_)
                for d_ in dn:
                    if want is not None and d_ != want:
                        bad = (e_, d_, want)
                    if want is None and d_ in ("sc_denom", "minus_sc_denom"):
                        bad = (e_, d_, "denominator")
            if bad:
                ctx.violation(rid, inst, f.where(c), "`%s` is passed together with `%s`; its partner is `%s`: for a negative denominator the two differ in sign and the callee, which assumes a positive denominator, takes the wrong case for every coefficient" % bad)
            else:
                ctx.ok(rid, inst, f.where(c))
    ctx.count(rid, "functions that normalise the sign of the denominator", defs)
    ctx.floor(rid, defs, 8, "functions that normalise the sign of the denominator")
    ctx.floor(rid, n, 18, "calls passing an expression together with a denominator")


R38_FORGET = ("forget_all_dbm_constraints", "forget_all_octagonal_constraints", "forget_binary_dbm_constraints", "forget_binary_octagonal_constraints")


def r3_8(ctx):
    import re
    rid = "R3.8"
    ctx.rule(rid, "every variable of a multi-variable left-hand side loses its constraints: generalized_affine_image(lhs, relsym, rhs) of Box, BD_Shape and Octagonal_Shape relates the NEW values of all variables occurring in lhs to the old state; when lhs has several variables nothing is known about any of them individually, so the function enumerates the variables of lhs (a loop over lhs.begin() .. lhs.end() or over its dimensions) and a forgetting operation (assign(UNIVERSE) on the interval, forget_all_*_constraints) runs inside a loop. Picking the first and the last variable leaves the ones in between constrained and cuts points of the exact image away")
    fx = ctx.extract([F.driver_unit("domains.cc", file_re=r"(Box_templates|BD_Shape_templates|Octagonal_Shape_templates)\.hh")])
    n = 0
    seen = set()
    for f in fx.functions:
        if not f.flag("pattern") or (f.relfile, f.line) in seen:
            continue
        if f.name != "generalized_affine_image" or [p["n"] for p in f.params] != ["lhs", "relsym", "rhs"] or f.clsn not in ("Box", "BD_Shape", "Octagonal_Shape"):
            continue
        seen.add((f.relfile, f.line))
        n += 1
        inst = "%s::generalized_affine_image(lhs, relsym, rhs)" % f.clsn
        enumerates = False
        forgets_in_loop = False
        for lp in f.walk():
            if lp["k"] not in ("for", "while", "do"):
                continue
            head = " ".join(f.text(x) for c in lp["c"][:-1] if f.deref(c) is not None for x in f.walk(f.deref(c)) if x["k"] in ("call", "mcall", "ref", "member"))
            if re.search(r"\blhs\s*\.\s*(begin|end)\b|\blhs_space_dim\b|\blhs\s*\.\s*space_dimension\b", head):
                enumerates = True
            body = f.deref(lp["c"][-1])
            for c in f.calls(body) if body is not None else ():
                cn = f.call_name(c).lstrip("~")
                if cn in R38_FORGET or (cn == "assign" and "UNIVERSE" in f.text(c)):
                    forgets_in_loop = True
        if enumerates and forgets_in_loop:
            ctx.ok(rid, inst, f.where())
        elif not enumerates:
            ctx.violation(rid, inst, f.where(), "no loop ranges over the variables of `lhs`: with three or more variables in the left-hand side some of them keep their old constraints")
        else:
            ctx.violation(rid, inst, f.where(), "the variables of `lhs` are enumerated but no forgetting operation runs inside a loop")
    ctx.floor(rid, n, 3, "generalized_affine_image(lhs, relsym, rhs) implementations")


def r3_9(ctx):
    from pplv import flow
    rid = "R3.9"
    ctx.rule(rid, "a bound and its strictness start together: Box::propagate_constraint_no_check derives, for each variable of a constraint, an upper and (for equalities) a lower bound by accumulating into `t_bound` while the local `open` records whether the bound derived so far is strict (it is latched to T_YES by every open end it meets). Each accumulation starts with `assign_r(t_bound, c_inhomogeneous_term, ..)`; between two such starts `open` is re-initialised (`open = T_NO`, or from the kind of the constraint) on every path — otherwise the strictness of the previous bound is stored with the next one and a closed bound of the exact result becomes open")
    fx = ctx.extract([F.driver_unit("domains.cc", file_re=r"Box_templates\.hh")])
    n = 0
    seen = set()
    for f in fx.functions:
        if not f.flag("pattern") or not f.cfg or (f.relfile, f.line) in seen:
            continue
        seen.add((f.relfile, f.line))
        starts = []
        for c in f.calls():
            if f.call_name(c).lstrip("~") == "assign_r":
                a = [f.text(f.deref(x)).replace(" ", "") for x in f.call_args(c)]
                if len(a) >= 2 and a[0] == "t_bound" and "inhomogeneous_term" in a[1]:
                    starts.append(c)
        if len(starts) < 2:
            continue

        def init_open(nod):
            if nod["k"] != "assign":
                return False
            l, r = f.deref(nod["c"][0]), f.deref(nod["c"][1])
            return l is not None and f.text(l).strip() == "open" and r is not None and f.text(r).strip() != "T_YES"
        ids = set(s_["i"] for s_ in starts)
        for s1 in starts:
            n += 1
            inst = "%s: accumulation started at line %s" % (f.name, s1.get("l"))
            p = flow.reachable_between(f, s1, lambda nod, s1=s1: nod["i"] in ids and nod["i"] != s1["i"], blocked=init_open)
            if p is None:
                ctx.ok(rid, inst, f.where(s1))
            else:
                ctx.violation(rid, inst, f.where(s1), "another accumulation is started on a path that has not re-initialised `open` (%s): the strictness of this bound is carried into the next one" % flow.render_path(f, p))
    ctx.floor(rid, n, 4, "accumulations of a bound with a strictness flag")


def r3_10(ctx):
    import re
    rid = "R3.10"
    ctx.rule(rid, "a saturating counter keeps counting as long as its value matters: the affine transformers of BD_Shape and Octagonal_Shape count the unbounded terms of a sum (`pos_pinf_count`, ...) while accumulating the bounded ones, under a guard `count <= K` that stops the work once the sum is known to be useless; after the loop the code uses the sum for every count up to some K' (`count <= 1`, `count == 1`: one unbounded term can still be moved to the other side). The guard inside the loop must admit every count the code after the loop still uses (K >= K'); with a tighter guard the terms that follow the first unbounded one are never added and the bound derived for `count == 1` is too small")
    fx = ctx.extract([F.driver_unit("domains.cc", file_re=r"(BD_Shape_templates|Octagonal_Shape_templates)\.hh")])
    n = 0
    seen = set()

    def thresholds(f, nodes, c):
        """largest value of c admitted by the comparisons `c <= K`, `c < K`, `c == K` among nodes"""
        out = []
        for x in nodes:
            if x["k"] in ("binop", "ocall") and x.get("op") in ("<=", "<", "==") and len(x.get("c", ())) >= 2:
                l, r = f.deref(x["c"][-2]), f.deref(x["c"][-1])
                if l is not None and r is not None and l["k"] == "ref" and l.get("n") == c and re.match(r"^\d+$", f.text(r).strip()):
                    k = int(f.text(r).strip())
                    out.append((k - 1 if x["op"] == "<" else k, x))
        return out
    for f in fx.functions:
        if not f.flag("pattern") or (f.relfile, f.line) in seen:
            continue
        seen.add((f.relfile, f.line))
        loops = [lp for lp in f.walk() if lp["k"] in ("for", "while", "do")]
        counters = {}
        for lp in loops:
            for x in f.walk(lp):
                if x["k"] == "unop" and x.get("op") == "++":
                    o = f.deref(x["c"][0])
                    if o is not None and o["k"] == "ref" and o.get("dk") == "local" and o.get("n", "").endswith("_count"):
                        counters.setdefault(o["n"], []).append((lp, x))
        for c, incs in sorted(counters.items()):
            guards = []
            in_loop_ids = set()
            for lp, inc in incs:
                for y in f.walk(lp):
                    in_loop_ids.add(y["i"])
                for a in f.ancestors(inc):
                    if a["k"] == "if" and f.within(a, lp):
                        guards += thresholds(f, list(f.walk(f.deref(a["c"][2]))), c)
            if not guards:
                continue
            after = [t for t in thresholds(f, [y for y in f.walk() if y["i"] not in in_loop_ids], c)]
            if not after:
                continue
            n += 1
            kg = min(k for k, _ in guards)
            ka = max(k for k, _ in after)
            inst = "%s: counter `%s`" % (f.name, c)
            if kg >= ka:
                ctx.ok(rid, inst, f.where(incs[0][1]))
            else:
                g = min(guards, key=lambda t: t[0])[1]
                ctx.violation(rid, inst, f.where(g), "inside the loop the terms are accumulated only while `%s` is at most %d (line %s), but after the loop the sum is used for counts up to %d (line %s): the terms after the first unbounded one are missing from it" % (c, kg, g.get("l"), ka, max(after, key=lambda t: t[0])[1].get("l")))
    ctx.floor(rid, n, 10, "saturating counters")


def run(ctx):
    ctx.explanation = ("C03 rounding discipline on the instantiated weakly-relational domains (double, int32_t, mpz_class; mpq_class in the thorough tier): who may round "
                       "down, where ROUND_NOT_NEEDED may be used, and the encodings it rests on; decides the discipline, not the case analysis of the transformers")
    ctx.assumptions = ["the checked-number primitives honour the direction they are given (C11)",
                       "Box takes its directions from the boundary side (see C12 R12.2)"]
    fx = ctx.extract(units(ctx.tier))
    r3_1_2(ctx, fx)
    r3_3(ctx)
    from rules import dirty
    fxb = ctx.extract([F.driver_unit("domains.cc", file_re=r"(Box|Interval|Boundary|BD_Shape|Octagonal_Shape|DB_Matrix|OR_Matrix)_(templates|inlines|defs)\.hh"),
                       F.driver_unit("shapes_mpq.cc", file_re=r"(BD_Shape|Octagonal_Shape)_(templates|inlines)\.hh")])
    r3_5(ctx, fxb)
    r3_6(ctx)
    r3_7(ctx)
    r3_8(ctx)
    r3_9(ctx)
    r3_10(ctx)
    dirty.run(ctx, "R3.4", fxb, lambda f: True, 150,
              "judged on Box<Rational_Interval>, BD_Shape<mpq_class>, Octagonal_Shape<mpq_class> and their matrices (found Box::generalized_affine_preimage multiplying by a never-written temporary)")
