"""C03 — box / BD-shape / octagon results contain the exact result, for every T: rounding discipline.

R3.1 ROUND-DIR     every Rounding_Dir named at a call site inside the weakly-relational domains
                   rounds towards the sound side (upper bounds up); each downward rounding is a
                   tabled, reasoned site
R3.2 NOT-NEEDED    ROUND_NOT_NEEDED into an inexact/bounded destination only for operations that
                   are exact there (assignment, negation) or at tabled sites
R3.3 WITNESSES     policy constants and enum encodings the discipline relies on (static_assert TU)
The sign case analysis of the affine transformers, the closure algebra and the converting constructors are not decided.
"""
import re

from pplv import facts as F
from pplv import witness

FILE_RE = r"(BD_Shape|Octagonal_Shape|DB_Matrix|OR_Matrix|DB_Row|math_utilities)_(templates|inlines)\.hh"
OK_DIRS = {"ROUND_UP", "ROUND_NOT_NEEDED", "ROUND_CHECK", "ROUND_DIRECT", "ROUND_STRICT_RELATION"}

# (class or '' for free functions, function, callee, direction) -> reason
DOWN_SITES = {
    ("", "operator<<", "neg_assign_r", "ROUND_DOWN"): "printing: a lower bound is shown as the negation of the stored upper bound of the opposite difference, rounded down; output only",
    ("BD_Shape", "drop_some_non_integer_points_helper", "floor_assign_r", "ROUND_DOWN"): "tightening an upper bound to its floor keeps every integer point (the operation's documented meaning)",
    ("Octagonal_Shape", "drop_some_non_integer_points_helper", "floor_assign_r", "ROUND_DOWN"): "tightening an upper bound to its floor keeps every integer point",
    ("BD_Shape", "simplify_using_context_assign", "neg_assign_r", "ROUND_DOWN"): "builds the complement constraint of one that is violated by the context (a lower bound on the opposite difference): rounding it down keeps the simplified shape within the documented enlargement",
    ("Octagonal_Shape", "simplify_using_context_assign", "neg_assign_r", "ROUND_DOWN"): "as for BD_Shape",
    ("Octagonal_Shape", "linear_form_upper_bound", "div_2exp_assign_r", "ROUND_DOWN"): "halves the negated unary bound, i.e. the variable's LOWER bound (used as such in the max/min that follows): lower bounds round down",
    ("BD_Shape", "export_interval_constraints", "neg_assign_r", "ROUND_DOWN"): "exports the variable's LOWER bound as the negation of the stored upper bound of 0 - x: lower bounds round down",
    ("Octagonal_Shape", "export_interval_constraints", "div_2exp_assign_r", "ROUND_DOWN"): "halves the negated stored bound, i.e. the variable's LOWER bound: lower bounds round down",
    ("Octagonal_Shape", "contains_integer_point", "assign_r", "ROUND_DOWN"): "builds an integer octagon with bounds floored: exact for the integer points being searched",
}

EXACT_OPS = {"assign_r", "neg_assign_r", "abs_assign_r", "construct", "Checked_Number"}
NOT_NEEDED_SITES = {
    ("BD_Shape", "BHZ09_upper_bound_assign_if_exact"): "`lhs + 1` is computed only when integer_upper_bound is set, i.e. for integer T where it is exact; the value is a local used for the exactness verdict",
    ("Octagonal_Shape", "integer_upper_bound_assign_if_exact"): "integer-only operation (throws for non-integer T): sums of integer bounds are exact barring overflow, which the policy still checks",
}


def units(tier):
    us = [F.driver_unit("shapes_double.cc", file_re=FILE_RE)]
    if tier == "thorough":
        us.append(F.driver_unit("shapes_mpq.cc", file_re=FILE_RE))
    return us


def dir_refs(f, n):
    return [x["n"] for a in f.call_args(n) for x in f.walk(a)
            if x["k"] == "ref" and x.get("dk") == "enum" and "Rounding_Dir" in x.get("t", "")]


def _inexact(t):
    t = t or ""
    return bool(re.search(r"\bdouble\b|\bfloat\b|int32_t|\bint\b|int8_t|int16_t|int64_t", t)) and "mpq" not in t and "mpz" not in t


def r3_1_2(ctx, fx):
    ctx.rule("R3.1", "rounding direction: inside BD_Shape / Octagonal_Shape / DB_Matrix / OR_Matrix / DB_Row and their helpers (instantiated for double, int32_t and mpz_class) every Rounding_Dir enumerator named at a call site is ROUND_UP, ROUND_NOT_NEEDED or a check flag; a ROUND_DOWN / ROUND_IGNORE appears only at the tabled (function, callee) sites")
    ctx.rule("R3.2", "ROUND_NOT_NEEDED with a destination of inexact or bounded type (double, intN_t) is used only by operations that are exact there (assign_r, neg_assign_r, abs_assign_r) or inside the tabled integer-only functions")
    n1 = n2 = 0
    seen1, seen2 = set(), set()
    counts = {}
    for f in fx.functions:
        if f.flag("pattern"):
            continue
        cls = f.clsn or ""
        if cls not in ("BD_Shape", "Octagonal_Shape", "DB_Matrix", "OR_Matrix", "DB_Row", "DB_Row_Impl_Handler", "Impl", "") :
            continue
        for c in f.calls():
            dirs = dir_refs(f, c)
            if not dirs:
                continue
            callee = f.call_name(c)
            for d in dirs:
                counts[d] = counts.get(d, 0) + 1
                key = (cls, f.name, callee, d, F.strip_ns(f.cls or "")[:60])
                if d in OK_DIRS:
                    continue
                inst = "%s::%s %s(..., %s) [%s]" % (cls, f.name, callee, d, re.sub(r".*<(.*)>$", r"\1", F.strip_ns(f.cls or "free")).split(",")[0][:30])
                if inst in seen1:
                    continue
                seen1.add(inst)
                n1 += 1
                why = DOWN_SITES.get((cls, f.name, callee, d))
                if why:
                    ctx.excepted("R3.1", inst, f.where(c), why)
                else:
                    ctx.violation("R3.1", inst, f.where(c), "an upper bound of the domain is computed rounding %s: for inexact T the result may cut away points of the exact answer" % d)
            if "ROUND_NOT_NEEDED" in dirs and callee not in EXACT_OPS:
                args = [f.deref(a) for a in f.call_args(c)]
                t0 = (args[0] or {}).get("t", "") if args else ""
                tinst = F.strip_ns(f.cls or "")
                dest_inexact = _inexact(t0) or (("::N" in t0 or t0.strip() in ("N &", "N")) and _inexact(tinst))
                if not dest_inexact:
                    continue
                inst = "%s::%s %s(%s, ..., ROUND_NOT_NEEDED) [%s]" % (cls, f.name, callee, F.strip_ns(t0)[:30], re.sub(r".*<(.*)>$", r"\1", tinst)[:20])
                if inst in seen2:
                    continue
                seen2.add(inst)
                n2 += 1
                why = NOT_NEEDED_SITES.get((cls, f.name))
                if why:
                    ctx.excepted("R3.2", inst, f.where(c), why)
                else:
                    ctx.violation("R3.2", inst, f.where(c), "`%s` into an inexact destination with ROUND_NOT_NEEDED: the result is rounded in an unspecified direction" % callee)
    for d, k in sorted(counts.items()):
        ctx.count("R3.1", d, k)
    ctx.ok("R3.1", "all other direction arguments are upward / not-needed", "src")
    ctx.floor("R3.1", counts.get("ROUND_UP", 0), 500, "ROUND_UP call sites seen (instantiated)")
    ctx.floor("R3.1", n1, 8, "downward-rounding sites")
    ctx.ok("R3.2", "all other ROUND_NOT_NEEDED uses have exact operations or exact destinations", "src")
    ctx.floor("R3.2", counts.get("ROUND_NOT_NEEDED", 0), 300, "ROUND_NOT_NEEDED call sites seen (instantiated)")


def r3_3(ctx, views=("release",)):
    rid = "R3.3"
    ctx.rule(rid, "compile-time witnesses: Rounding_Dir / Result / Boundary_Type encodings and the checked-number policies the rounding discipline relies on (overflow checked, infinities representable, LOWER==ROUND_DOWN, UPPER==ROUND_UP, bound type is an extended checked number)")
    for v in views:
        ids, failed = witness.run("policies.cc", v, ctx.repo)
        ctx.require(rid, len(ids) >= 25, "witness TU has only %d assertions in view %s" % (len(ids), v))
        for i in ids:
            inst = "%s@%s" % (i, v)
            if i in failed:
                ctx.violation(rid, inst, "tool/witness/policies.cc", "static_assert failed: " + failed[i])
            else:
                ctx.ok(rid, inst, "tool/witness/policies.cc")


def run(ctx):
    ctx.explanation = ("C03 rounding discipline on the instantiated weakly-relational domains (double, int32_t, mpz_class; mpq_class in the thorough tier): who may round "
                       "down, where ROUND_NOT_NEEDED may be used, and the encodings it rests on; decides the discipline, not the case analysis of the transformers")
    ctx.assumptions = ["the checked-number primitives honour the direction they are given (C11)",
                       "Box takes its directions from the boundary side (see C12 R12.2)"]
    fx = ctx.extract(units(ctx.tier))
    r3_1_2(ctx, fx)
    r3_3(ctx)
