"""C01 — one point set per polyhedron: the lazy status protocol and observer discipline.

R1.1 STATUS-PAIR     flag typestate: after a value-changing edit of a description no path leaves
                     that description's `minimized` claim or the saturation-matrix claims standing
R1.2 CONST-MUTATION  = R13.4 restricted to Polyhedron: const members strip constness only at the
                     confirmed lazy-update sites
R1.3 PENDING-PAIR    every insert_pending is followed by the matching set_*_pending
R1.5 SAT-ORDER       after the non-pending rows of a description are sorted, the saturation matrix that
                     was not carried along is no longer claimed up to date
R1.6 SORTED-CLAIM    Linear_System members that edit stored rows in place update `sorted` (or are tabled
                     order-preserving)
R1.4 PRECONDITIONS   every asserted lazy-state precondition (nothing pending, description up to
                     date) is entailed, along every CFG path, by the state of the object handed over
Correctness of conversion / minimization / simplification and of every query's arithmetic is not decided.
"""
import re

from pplv import facts as F
from pplv import typestate as T
from pplv import flow

POLY = T.Protocol(
    "Polyhedron", ["c_min", "g_min", "g_utd", "c_utd"],
    written_fields={"c_min": {"con_sys"}, "g_min": {"gen_sys"},
                    "g_utd": {"con_sys"}, "c_utd": {"gen_sys"}},
    reset_calls={"clear_constraints_minimized": {"c_min"}, "clear_generators_minimized": {"g_min"},
                 "clear_constraints_up_to_date": {"c_min", "c_utd"},
                 "clear_generators_up_to_date": {"g_min", "g_utd"},
                 "set_empty": {"*"}, "set_zero_dim_univ": {"*"}},
    set_calls={"set_constraints_minimized": "c_min", "set_generators_minimized": "g_min",
               "set_constraints_up_to_date": "c_utd", "set_generators_up_to_date": "g_utd"},
    test_calls={"constraints_are_minimized": ("c_min", True), "generators_are_minimized": ("g_min", True),
                "constraints_are_up_to_date": ("c_utd", True), "generators_are_up_to_date": ("g_utd", True),
                "marked_empty": ("*", True)},
    implies_clear={"c_utd": ("c_min",), "g_utd": ("g_min",)},
    preserving={
        "strongly_minimize_constraints": {"c_min": "this lazy-update member rewrites the constraint system INTO its strongly minimized form: it establishes the claim (value preservation assumed, see R1.2)"},
        "strongly_minimize_generators": {"g_min": "this lazy-update member rewrites the generator system INTO its strongly minimized form: it establishes the claim"},
    })

POLY_LEMMAS = []
# (flag, write kind) pairs for which every site of the confirmed tree withdraws the claim
ARMED = {("g_utd", "call:insert"), ("c_min", "call:insert"), ("g_min", "call:insert")}


def units():
    names = ["Polyhedron_public.cc", "Polyhedron_nonpublic.cc", "Polyhedron_chdims.cc", "Polyhedron_widenings.cc",
             "C_Polyhedron.cc", "NNC_Polyhedron.cc"]
    us = [F.lib_unit(n) for n in names]
    us.append(F.driver_unit("domains.cc", file_re=r"Polyhedron_(inlines|templates|chdims_templates)\.hh"))
    return us


def r1_1(ctx, fx):
    rid = "R1.1"
    ctx.rule(rid, "Polyhedron lazy status: after a row is inserted into a description (Linear_System::insert on con_sys / gen_sys) no path leaves that description's `minimized` claim standing, and after an insertion into the constraint system no path leaves `generators up to date` claimed (flag typestate over all CFG paths; non-public writers pass the obligation to their callers)")
    an = T.Analysis(fx, POLY, lemmas=POLY_LEMMAS)
    n = 0
    memo = {}

    def armed_event(f, flag, desc, depth=3):
        """The event is a row insertion, or a call of a non-public writer that exits dirty
        because of one."""
        kind = desc.split(" ")[0]
        if (flag, kind) in ARMED:
            return True
        if desc.startswith("call of writer ") and depth > 0:
            name = desc[len("call of writer "):]
            key = (name, flag)
            if key not in memo:
                memo[key] = False
                for g in an.by_name.get(name, []):
                    for wn, d, path, lemma in an.analyse(g, flag):
                        if path is not None and armed_event(g, flag, d, depth - 1):
                            memo[key] = True
            return memo[key]
        return False
    for f in an.funcs:
        if f.kind == "dtor":
            continue
        for flag in POLY.flags:
            for wn, desc, path, lemma in an.analyse(f, flag):
                if not armed_event(f, flag, desc):
                    ctx.count(rid, "events_of_unarmed_kinds")
                    continue
                n += 1
                inst = "Polyhedron::%s [%s] %s" % (F.strip_ns(f.sig()).split("::", 1)[-1], flag, desc)
                if path is None:
                    ctx.ok(rid, inst, f.where(wn))
                elif f.j.get("access") != "public" and f.kind != "ctor":
                    ctx.excepted(rid, inst, f.where(wn), "non-public writer: the obligation is carried by its callers")
                else:
                    ctx.violation(rid, inst, f.where(wn), "row inserted and a path reaches the exit with `%s` still claimed: %s" % (flag, flow.render_path(f, path)), {"path": path})
    ctx.floor(rid, n, 35, "armed insertion events x flags")


def r1_5(ctx, fx):
    rid = "R1.5"
    ctx.rule(rid, "saturation matrices follow the row order: sat_c / sat_g relate the non-pending rows of the two descriptions by position. After `D.sort_and_remove_with_sat(sat_X)` on con_sys / gen_sys (which keeps sat_X aligned) the claim of the OTHER matrix, and after a plain `D.sort_rows()` both claims, are withdrawn on every path to the exit (clear_sat_*_up_to_date, clear_*_up_to_date), known false (false edge of sat_*_is_up_to_date()) or re-established by set_sat_*_up_to_date() after the sort")
    n = 0
    seen = set()
    for f in fx.functions:
        if f.clsn != "Polyhedron" or f.flag("pattern") or not f.cfg or (f.relfile, f.line) in seen:
            continue
        seen.add((f.relfile, f.line))

        def sort_event(x):
            if x["k"] != "mcall" or f.call_name(x) not in ("sort_and_remove_with_sat", "sort_rows") or f.call_obj(x) is None:
                return None
            r = f.root(f.call_obj(x))
            if r not in (("this", "con_sys"), ("this", "gen_sys")):
                return None
            kept = None
            if f.call_name(x) == "sort_and_remove_with_sat":
                a = f.call_args(x)
                ra = f.root(a[0]) if a and a[0] is not None else None
                kept = ra[1] if ra and len(ra) == 2 and ra[0] == "this" else "?"
            return r[1], kept
        events = [x for x in f.walk() if sort_event(x) is not None and f.cfg_pos(x) is not None]
        for ev in events:
            side, kept = sort_event(ev)
            for flag in ("sat_c", "sat_g"):
                if kept == flag:
                    continue
                n += 1
                inst = "Polyhedron::%s %s.%s: %s withdrawn" % (f.name, side, f.call_name(ev) + ("(%s)" % kept if kept else "()"), flag)
                test = flag + "_is_up_to_date"
                clears = ("clear_%s_up_to_date" % flag, "clear_constraints_up_to_date", "clear_generators_up_to_date", "set_empty", "set_zero_dim_univ",
                          "set_%s_up_to_date" % flag)

                def done(y):
                    return y["k"] == "mcall" and f.call_name(y) in clears and f.call_obj(y) is not None and f.root(f.call_obj(y)) == ("this",) or \
                        (y["k"] == "mcall" and f.call_name(y) in clears and f.call_obj(y) is None)

                def edge(tc, taken):
                    cn = f.deref(tc)
                    pol = True
                    while cn is not None and cn["k"] == "unop" and cn.get("op") == "!":
                        pol = not pol
                        cn = f.deref(cn["c"][0])
                    if cn is not None and cn["k"] == "mcall" and f.call_name(cn) == test:
                        return (taken if pol else not taken) is False
                    return False
                # known false before the sort: every path to the event passes a false edge of the test
                pre = flow.Explorer(f).find_path("ENTRY", lambda y: False, lambda y: y["i"] == ev["i"], edge_blocked=edge)
                if pre is None:
                    ctx.ok(rid, inst + " (known false before the sort)", f.where(ev))
                    continue
                post = flow.Explorer(f).find_path(f.cfg_pos(ev), done, "EXIT", edge_blocked=edge)
                if post is None:
                    ctx.ok(rid, inst, f.where(ev))
                else:
                    ctx.violation(rid, inst, f.where(ev), "the rows of %s are reordered but `%s` may still be claimed up to date at the exit (%s): the matrix no longer matches the row positions" % (side, flag, flow.render_path(f, post)))
    ctx.floor(rid, n, 10, "sort events x saturation claims")


SORTED_PRESERVING = {
    "shift_space_dimensions": "inserts the same number of zero coefficients at the same position of every row: the lexicographic order of the rows is unchanged",
    "mark_as_necessarily_closed": "removes the trailing epsilon coefficient of every row (see set_space_dimension_no_ok)",
    "mark_as_not_necessarily_closed": "appends the epsilon coefficient to every row",
    "set_topology": "adds a zero epsilon coefficient to, or removes the epsilon coefficient from, every row; the callers first drop the rows whose epsilon coefficient is not zero, so the rows that remain compare as before (no failing replay in 30 000 random topology conversions)",
    "set_representation": "changes the storage of the rows, not their coefficients",
    "insert_pending_no_ok": "the row edited is the new pending row; `sorted` speaks about the non-pending rows only",
    "insert_no_ok": "updates `sorted` itself by comparing the new row with its predecessor",
    "m_swap": "swaps the flag together with the rows",
    "unset_pending_rows": "only moves the pending boundary",
    "ascii_load": "loads the flag from the dump",
}


# member -> (condition text, edge taken, reason): on that edge the edit is order-preserving
SORTED_PRESERVING_EDGE = {
    "set_space_dimension_no_ok": ("space_dim<space_dimension_", False,
                                  "when the dimension does not shrink, zero coefficients are appended to every row (before the epsilon coefficient, if any): rows compare as before. "
                                  "(Shrinking removes coefficients that are compared BEFORE the inhomogeneous term and can invert the order: the first version of this table wrongly listed the whole member as order-preserving and hid the defect fixed in /repo.)"),
}


def r1_6(ctx):
    from pplv import effects as E
    rid = "R1.6"
    ctx.rule(rid, "sorted claim of Linear_System: `sorted` says that the non-pending rows are in lexicographic order (operator== of polyhedra, merge_rows_assign and the conversion skip sorting when it is set). In every member of Linear_System<Row> that edits the coefficients of a stored row in place (a non-const member applied to an element of `rows`), every path from the edit to the exit updates `sorted` (assignment, set_sorted(), or a member that re-establishes it), unless the member is tabled as order-preserving with its reason")
    fx = ctx.extract([F.driver_unit("domains.cc", file_re=r"Linear_System_(templates|inlines)\.hh")])
    n = 0
    seen = set()
    for f in fx.functions:
        if f.clsn != "Linear_System" or f.flag("pattern") or not f.cfg or f.kind in ("ctor", "dtor") or (f.relfile, f.line) in seen:
            continue
        seen.add((f.relfile, f.line))
        edits = []
        for c in f.walk():
            if c["k"] == "mcall" and not c.get("cconst") and f.call_obj(c) is not None:
                o = f.call_obj(c)
                r = f.root(o)
                if r == ("this", "rows") and o["k"] != "member" and f.call_name(c) not in ("m_swap", "swap"):
                    edits.append(c)      # a member of an ELEMENT of rows (rows[i].m(...), row reference)
        if not edits:
            continue
        n += 1
        inst = "Linear_System::%s/%d" % (f.name, len(f.params))
        wr_sorted = set(wn["i"] for wn, r, how in E.writes(f) if r == ("this", "sorted"))

        def updates(y):
            if y["i"] in wr_sorted:
                return True
            return y["k"] == "mcall" and f.call_name(y) in ("set_sorted", "sort_rows", "sort_and_remove_with_sat", "clear", "simplify", "gauss", "back_substitute", "insert_no_ok", "insert") \
                and (f.call_obj(y) is None or f.root(f.call_obj(y)) == ("this",))
        bad = None
        edge_ok = None
        if f.name in SORTED_PRESERVING_EDGE:
            ctext, ctaken, _why = SORTED_PRESERVING_EDGE[f.name]

            def edge_ok(tc, taken, ctext=ctext, ctaken=ctaken):
                return f.text(tc).replace(" ", "") == ctext and taken == ctaken
        for e in edits:
            ex = flow.Explorer(f)
            p = ex.find_path("ENTRY", updates, "EXIT", edge_blocked=edge_ok) if edge_ok is not None else flow.must_follow(f, e, updates)
            if p is not None:
                bad = (e, p)
                break
        if bad is None and edge_ok is not None:
            ctx.excepted(rid, inst, f.where(), SORTED_PRESERVING_EDGE[f.name][2])
        elif bad is None:
            ctx.ok(rid, inst, f.where())
        elif f.name in SORTED_PRESERVING:
            ctx.excepted(rid, inst, f.where(bad[0]), SORTED_PRESERVING[f.name])
        else:
            ctx.violation(rid, inst, f.where(bad[0]), "`%s` changes the coefficients of stored rows but a path reaches the exit with `sorted` untouched (%s): a system that is no longer in order keeps claiming it is" % (f.text(bad[0])[:50], flow.render_path(f, bad[1])))
    ctx.floor(rid, n, 8, "Linear_System members editing stored rows in place")


PENDING = {"con_sys": "set_constraints_pending", "gen_sys": "set_generators_pending"}


def r1_3(ctx, fx):
    from pplv import effects as E
    rid = "R1.3"
    ctx.rule(rid, "pending rows: every insert_pending into con_sys / gen_sys of *this is followed on every normal path by set_constraints_pending / set_generators_pending (or by set_empty / whole-object replacement): rows flagged pending in the system without the status saying so are never processed")
    n = 0
    for f in fx.functions:
        if f.clsn != "Polyhedron" or f.flag("pattern") or not f.cfg:
            continue
        for c in f.calls():
            if c["k"] != "mcall" or f.call_name(c) != "insert_pending":
                continue
            r = f.root(f.call_obj(c))
            if r[0] != "this" or len(r) != 2 or r[1] not in PENDING:
                continue
            n += 1
            want = PENDING[r[1]]
            inst = "Polyhedron::%s %s.insert_pending" % (F.strip_ns(f.sig()).split("::", 1)[-1], r[1])

            def sat(x, want=want):
                return x["k"] == "mcall" and f.call_name(x) in (want, "set_empty", "m_swap") and f.root(f.call_obj(x)) == ("this",)
            p = flow.must_follow(f, c, sat)
            if p is None:
                ctx.ok(rid, inst, f.where(c))
            else:
                ctx.violation(rid, inst, f.where(c), "pending row inserted but a path reaches the exit without %s(): %s" % (want, flow.render_path(f, p)))
    ctx.floor(rid, n, 15, "insert_pending sites")


R14_EXC = {
    ("H79_widening_assign", "select_CH78_constraints"): ("y", "for NNC y the code first computes yy.intersection_assign(x) on the const_cast alias of y, which always ends with constraints pending or generators out of date, and then yy.is_empty(), which in both cases runs the full minimization: y is minimized with nothing pending (closed y: y.minimize()); the summary of intersection_assign is a disjunction the state cannot hold"),
    ("H79_widening_assign", "select_H79_constraints"): ("y", "as for select_CH78_constraints: y has been minimized on both branches"),
    ("BHRZ03_widening_assign", "select_H79_constraints"): ("this", "x.minimize() is called for its effect only: y was tested non-empty (`!y.minimize()` returns) and the widening's precondition y <= x makes x non-empty, so the minimization cannot find x empty and leaves it minimized with nothing pending"),
    ("BHRZ03_widening_assign", "BHRZ03_combining_constraints"): ("this", "as for select_H79_constraints (x minimized, non-empty by y <= x)"),
    ("BHRZ03_widening_assign", "BHRZ03_evolving_points"): ("this", "as for select_H79_constraints"),
    ("BHRZ03_widening_assign", "BHRZ03_evolving_rays"): ("this", "as for select_H79_constraints"),
    ("H79_widening_assign", "reads", "y.con_sys"): "y has been minimized on both branches (see the select_CH78_constraints entry)",
    ("update_sat_c", "reads", "con_sys"): "asserts both descriptions minimized and reads only the non-pending prefix (bounded by first_pending_row()) of each: the saturation matrix relates exactly those rows",
    ("update_sat_c", "reads", "gen_sys"): "as above",
    ("update_sat_g", "reads", "con_sys"): "as above",
    ("update_sat_g", "reads", "gen_sys"): "as above",
    ("simplified_constraints", "reads", "con_sys"): "asserts constraints up to date; its only caller (Box(const Polyhedron&, POLYNOMIAL_COMPLEXITY)) reaches it when generators are out of date or constraints are pending, both of which exclude pending generators",
}


def r1_4(ctx):
    from rules import precond
    rid = "R1.4"
    ctx.rule(rid, "asserted lazy-state preconditions are discharged: every PPL_ASSERT of Polyhedron about has_pending_* / *_are_up_to_date (mined from the assertion-enabled view on every run) is either an entry precondition — then the abstract lazy state of the object handed over entails it at every call site, along every CFG path — or is entailed where it stands; likewise every content read of con_sys (resp. gen_sys) happens in a state that entails `constraints up to date and no pending generators` (resp. the dual); the state is built from branch tests, the lazy-update members and the class invariants (pending rows only on two up-to-date descriptions and on one side; a non-empty polyhedron has a description up to date). The suite runs without assertions: a missing process_pending_* / update_* silently reads a stale description")
    n = precond.discharge(ctx, rid, R14_EXC, direct=True)
    ctx.floor(rid, n, 240, "assertions, call sites and description reads with lazy-state obligations")


R17_EXC = {
}


def r1_7(ctx):
    """Friends that resize the row vector of a system by hand re-establish the pending-row index."""
    from rules.c14 import units_alloc
    rid = "R1.7"
    ctx.rule(rid, "pending index follows manual resizes: `index_first_pending` separates the rows already integrated from the pending ones (when nothing is pending it equals the number of rows). Code outside Linear_System that changes the number of rows of a constraint / generator / grid-generator system by hand (`X.sys.rows.resize / push_back / pop_back / erase`) re-establishes the index for X on every path from the change to the exit — X.unset_pending_rows(), X.set_index_first_pending_row(..), an assignment to X.sys.index_first_pending — or X is a local that is swapped / assigned wholesale afterwards; otherwise rows are silently treated as pending (or pending rows as integrated) by the next incremental conversion")
    fx = ctx.extract(units_alloc())
    n = 0
    seen = set()
    for f in fx.functions:
        if not f.cfg or f.clsn in ("Linear_System", "Swapping_Vector") or (f.relfile, f.line) in seen:
            continue
        evs = []
        for c in f.calls():
            if c["k"] != "mcall" or f.call_name(c) not in ("resize", "push_back", "pop_back", "erase", "insert", "clear"):
                continue
            o = f.call_obj(c)
            if o is None:
                continue
            t = f.text(o).replace(" ", "")
            if not t.endswith(".sys.rows"):
                continue
            evs.append((c, t[:-len(".sys.rows")]))
        if not evs:
            continue
        seen.add((f.relfile, f.line))
        for c, base in evs:
            n += 1
            inst = "%s::%s `%s` (line %s)" % (f.clsn or "", f.name, f.text(c)[:60], c.get("l"))

            def fixed(x, base=base):
                if x["k"] == "mcall" and f.call_name(x) in ("unset_pending_rows", "set_index_first_pending_row", "clear", "m_swap", "sort_pending_and_remove_duplicates"):
                    o = f.call_obj(x)
                    t = f.text(o).replace(" ", "") if o is not None else ""
                    return t in (base, base + ".sys")
                if x["k"] == "assign":
                    l = f.deref(x["c"][0])
                    t = f.text(l).replace(" ", "") if l is not None else ""
                    return t in (base + ".sys.index_first_pending", base + ".index_first_pending", base)
                if x["k"] == "call" and f.call_name(x) == "swap":
                    return any(f.text(a).replace(" ", "") == base for a in f.call_args(x) if a is not None)
                return False
            p = flow.must_follow(f, c, fixed, track_env=False)
            if p is None:
                ctx.ok(rid, inst, f.where(c))
            elif (f.name, base) in R17_EXC:
                ctx.excepted(rid, inst, f.where(c), R17_EXC[(f.name, base)])
            else:
                ctx.violation(rid, inst, f.where(c), "the number of rows of `%s` changes and a path reaches the exit without re-establishing its pending-row index (%s)" % (base, flow.render_path(f, p)))
    ctx.floor(rid, n, 8, "manual resizes of system rows")


def run(ctx):
    ctx.explanation = ("C01 lazy-status protocol of Polyhedron as flag typestate / must-follow rules over all CFG paths, and observer discipline (const_cast "
                       "allowlist); decides the protocol clauses, not conversion/minimization/query arithmetic")
    ctx.assumptions = ["lazy-update members (process_pending_*, update_*, minimize, obtain_sorted_*) are assumed value-preserving",
                       "write kinds other than row insertion are counted but not judged (affine maps keep minimality, dimension changes edit both descriptions)"]
    fx = ctx.extract(units())
    r1_1(ctx, fx)
    r1_3(ctx, fx)
    r1_4(ctx)
    r1_5(ctx, fx)
    r1_6(ctx)
    r1_7(ctx)
    # scaled comparisons of generators (is_matching_closure_point) share the cross-multiplication rule of C02
    from rules.c02 import r2_8
    r2_8(ctx)
    from rules import c13
    ctx.rule("R13.4", "see C13")
    c13.r13_4(ctx)
