"""C13 — objects are values.

R13.1 RULE-OF-THREE   a class whose destructor releases a member resource declares its copy
                      constructor and copy assignment (or makes them inaccessible)
R13.2 SELF-ASSIGN     every user-provided copy assignment is copy-and-swap, guarded by
                      this != &y, reference-count safe, or purely memberwise
R13.3 SWAP-COVERAGE   m_swap exchanges every non-static data member
R13.5 COPY-ON-WRITE   = R9.1 (Determinate)
Aliased arguments x.op(x) in general need value reasoning: not decided.
"""
import re
from pplv import flow

from pplv import facts as F
from rules import c09


def ckey(q):
    c = F.strip_ns(q or "")
    return re.sub(r"<[^<>]*(<[^<>]*(<[^<>]*>[^<>]*)*>[^<>]*)*>", "", c).strip()


def units(tier):
    us = [F.lib_unit(n, name_re=r"operator=|::~|m_swap") for n in F.library_sources()]
    us.append(F.driver_unit("domains.cc", name_re=r"operator=|::~|m_swap", class_re="Parma_Polyhedra_Library"))
    us.append(F.driver_unit("all_headers.cc", name_re=r"operator=|::~|m_swap", class_re="Parma_Polyhedra_Library"))
    return us


def class_records(fx):
    recs = {}
    for (q, t), c in fx.classes.items():
        k = ckey(q)
        if k not in recs or (recs[k].get("pattern") and not c.get("pattern")) or \
                (bool(recs[k].get("pattern")) == bool(c.get("pattern")) and len(c["fields"]) > len(recs[k]["fields"])):
            recs[k] = c
    return recs


def distinct(funcs):
    seen, out = set(), []
    # prefer resolved definitions
    for f in sorted(funcs, key=lambda f: bool(f.flag("pattern"))):
        k = (ckey(f.cls), f.name, len(f.params), f.file, f.line)
        k2 = (ckey(f.cls), f.name, len(f.params), f.relfile, f.line)
        if k2 in seen:
            continue
        seen.add(k2)
        out.append(f)
    return out


RELEASE_CALLS = ("deallocate", "free", "destroy", "__gmpz_clear", "del_reference")

RULE3_EXC = {
    "PIP_Decision_Node": "copy construction is protected; copy assignment is implicit but nodes are only reachable through pointers-to-const handed out by PIP_Problem (solution(), as_decision()), so no public path can assign one",
    "Dense_Row::Impl": "private implementation record of Dense_Row, never copied: Dense_Row's own copy operations build a fresh Impl",
}


def r13_1(ctx, fx, recs):
    rid = "R13.1"
    ctx.rule(rid, "rule of three: a class whose destructor releases a member (delete / deallocate / clear of a raw member) has a user-declared copy constructor and copy assignment (possibly private)")
    n = 0
    for f in distinct([f for f in fx.functions if f.kind == "dtor"]):
        k = ckey(f.cls)
        rel = []
        for x in f.walk():
            if x["k"] == "delete" and x.get("c"):
                r = f.root(x["c"][0])
                if r[0] == "this":
                    rel.append(x)
            elif x["k"] in ("call", "mcall") and f.call_name(x) in RELEASE_CALLS:
                rel.append(x)
        if not rel:
            continue
        rec = recs.get(k)
        if rec is None:
            ctx.note(rid, "no class record for %s (helper class local to a translation unit): not judged" % k)
            continue
        n += 1
        ms = rec.get("methods", [])
        has_cc = any(m.get("copyctor") for m in ms)
        has_ca = any(m.get("copyassign") for m in ms)
        inst = k
        if has_cc and has_ca:
            ctx.ok(rid, inst, f.where())
        elif k in RULE3_EXC:
            ctx.excepted(rid, inst, f.where(), RULE3_EXC[k])
        else:
            ctx.violation(rid, inst, f.where(), "destructor releases `%s` but the class does not declare %s: the implicit memberwise copy shares the resource (double release)" % (
                f.text(rel[0])[:40], " and ".join(x for x, h in (("a copy constructor", has_cc), ("a copy assignment", has_ca)) if not h)))
    ctx.floor(rid, n, 14, "resource-releasing destructors")


COPY_HELPERS = ("__gmpz_set", "copy", "assign_r")


def _memberwise_stmt(f, st, yname):
    """`member = y.member` / base operator=(y) / whitelisted copy helper / void cast / return *this."""
    st = f.deref(st)
    if st is None:
        return True
    k = st["k"]
    if k == "return":
        return True
    if k == "cast" and "void" in st.get("t", ""):
        return True
    if k == "null_stmt":
        return True
    if k in ("assign", "ocall") and (st.get("op") == "="):
        lhs = f.root(st["c"][0])
        if lhs[0] == "this" and len(lhs) >= 2:
            return True
        return False
    if k == "mcall" and f.call_name(st) == "operator=":
        return True
    if k == "mcall" and f.call_name(st) in ("set_empty", "set_zero_dim_univ") and f.root(f.call_obj(st)) == ("this",):
        return True     # idempotent status resets that do not read y
    if k == "mcall" and f.call_name(st).startswith("assign"):
        # member.assign_xxx(y.member): the member's own (copy-and-swap) assignment variant
        o = f.root(f.call_obj(st))
        a = f.call_args(st)
        if o[0] == "this" and len(o) == 2 and a:
            ra = f.root(a[0])
            return ra[0] == "param" and ra[-1] == o[1]
        return False
    if k in ("call", "mcall") and f.call_name(st) in COPY_HELPERS:
        a = f.call_args(st)
        return bool(a) and f.root(a[0])[0] == "this"
    if k == "if":
        for c in (st["c"][3], st["c"][4]):
            c = f.deref(c)
            if c is None:
                continue
            kids = c.get("c", []) if c["k"] == "block" else [c]
            if not all(_memberwise_stmt(f, x, yname) for x in kids):
                return False
        return True
    if k == "block":
        return all(_memberwise_stmt(f, x, yname) for x in st.get("c", []))
    return False


def classify_assign(f):
    yname = f.params[0]["n"] if f.params else "y"
    body = [f.deref(c) for c in f.ast.get("c", [])]
    texts = [f.text(c) for c in body if c is not None]
    # guarded
    for st in body:
        if st is not None and st["k"] == "if":
            ct = f.text(f.deref(st["c"][2]))
            if "this" in ct and "&" in ct and ("!=" in ct or "==" in ct):
                return "guarded by `%s`" % ct
    # copy-and-swap
    decls = [v for st in body if st is not None and st["k"] == "decl" for v in st.get("c", []) if v["k"] == "var"]
    swaps = [c for c in f.calls() if f.call_name(c) in ("swap", "m_swap")]
    if decls and swaps:
        tmp = decls[0]["n"]
        copied = any(x["k"] == "ref" and x.get("n") == yname for v in decls for x in f.walk(v))
        used = any(any(x["k"] == "ref" and x.get("n") == tmp for x in f.walk(c)) for c in swaps)
        if copied and used:
            return "copy-and-swap"
    # reference counting: acquire the new reference before releasing the old one
    calls = [f.call_name(c) for c in f.calls()]
    if "new_reference" in calls and "del_reference" in calls:
        if calls.index("new_reference") < calls.index("del_reference"):
            return "reference-counted: acquires y's reference before releasing its own"
        return None
    if all(_memberwise_stmt(f, st, yname) for st in body):
        return "memberwise"
    # forwarding to another assignment on the same object (x.operator=(y) through an alias)
    if any(c["k"] == "mcall" and f.call_name(c) == "operator=" for c in f.calls()) and \
            all(st is None or st["k"] in ("decl", "mcall", "assign", "return", "ocall") for st in body):
        return "forwards to the base-class assignment, then memberwise"
    return None


def r13_2(ctx, fx):
    rid = "R13.2"
    ctx.rule(rid, "self-assignment safety: each user-provided copy assignment is copy-and-swap, guarded by this != &y, reference-count safe (acquire before release) or purely memberwise over members")
    n = 0
    for f in distinct([f for f in fx.functions if f.flag("copyassign")]):
        n += 1
        inst = "%s::operator=" % ckey(f.cls)
        how = classify_assign(f)
        if how:
            ctx.ok(rid, inst + " [" + how.split(":")[0].split(" by")[0] + "]", f.where())
        else:
            ctx.violation(rid, inst, f.where(), "copy assignment is neither copy-and-swap, self-guarded, reference-count safe nor memberwise: x = x may release what it then copies from")
    ctx.floor(rid, n, 38, "user-provided copy assignments")


SWAP_EXC = {
    ("Interval", "lower_"): "swapped through the accessor lower()",
    ("Interval", "upper_"): "swapped through the accessor upper()",
    ("CO_Tree", "cached_end"): "cache of end(): re-derived by refresh_cached_iterators() after the swap",
    ("CO_Tree", "cached_const_end"): "cache of end(): re-derived by refresh_cached_iterators() after the swap",
}


def r13_3(ctx, fx, recs):
    rid = "R13.3"
    ctx.rule(rid, "m_swap(y) exchanges every non-static data member of the class (a member left out keeps the other object's value: the two objects are no longer independent values)")
    n = 0
    for f in distinct([f for f in fx.functions if f.name == "m_swap" and f.cls]):
        k = ckey(f.cls)
        rec = recs.get(k)
        if rec is None:
            continue
        ment = set()
        for x in f.walk():
            if x["k"] == "member":
                r = f.root(x)
                if r[0] == "this" and len(r) > 1:
                    ment.add(r[1])
        for fld in rec["fields"]:
            n += 1
            inst = "%s::m_swap %s" % (k, fld["n"])
            if fld["n"] in ment:
                ctx.ok(rid, inst, f.where())
            elif (k, fld["n"]) in SWAP_EXC:
                ok = True
                if k == "CO_Tree":
                    ok = any(f.call_name(c) == "refresh_cached_iterators" for c in f.calls())
                if k == "Interval":
                    ok = any(f.call_name(c) in ("lower", "upper") for c in f.calls())
                if ok:
                    ctx.excepted(rid, inst, f.where(), SWAP_EXC[(k, fld["n"])])
                else:
                    ctx.violation(rid, inst, f.where(), "member not swapped and the documented substitute is gone")
            else:
                ctx.violation(rid, inst, f.where(), "data member `%s` is not exchanged by m_swap" % fld["n"])
    ctx.floor(rid, n, 110, "member x m_swap obligations")


COPY_EXC = {
}


def r13_6(ctx):
    """User-provided copy constructors give every data member a value."""
    from rules.c14 import units_alloc
    from pplv import effects as E
    rid = "R13.6"
    ctx.rule(rid, "copy constructors cover every member: a user-provided copy constructor names each non-static data member of its class in the initialiser list, writes it in the body, or calls a same-class helper whose may-write summary contains it (a delegating constructor is followed); a member left out is default-initialised — or not initialised at all — in the copy, which is then not the same value as the original")
    fx = ctx.extract(units_alloc())
    recs = class_records(fx)
    sums = {}
    n = 0
    seen = set()
    for f in sorted(fx.functions, key=lambda f: bool(f.flag("pattern"))):
        if not f.flag("copyctor") or not f.cls:
            continue
        k = ckey(f.cls)
        if k in seen or k not in recs:
            continue
        seen.add(k)
        rec = recs[k]
        inits = f.j.get("inits") or []
        if any(i.get("delegating") for i in inits):
            n += 1
            ctx.ok(rid, "%s(const %s&) delegates" % (k, k), f.where())
            continue
        named = set(i.get("member") for i in inits if i.get("member"))
        sm = sums.setdefault(f.clsn, E.Summaries(fx, f.clsn))
        written = set(sm.may_write(f))
        for x in f.walk():
            if x["k"] == "member":
                r = f.root(x)
                if r[0] == "this" and len(r) > 1:
                    written.add(r[1])
            if x["k"] == "ocall" and x.get("op") == "=" and x.get("c"):
                # `*this = y`: the members the copy assignment of the class may write
                l = f.deref(x["c"][-2]) if len(x["c"]) >= 2 else None
                if l is not None and f.root(l) == ("this",):
                    for g in sm.by_name.get("operator=", []):
                        written |= set(sm.may_write(g))
        for fld in rec["fields"]:
            n += 1
            inst = "%s(const %s&) %s" % (k, k, fld["n"])
            if fld["n"] in named or fld["n"] in written or "*this" in written:
                ctx.ok(rid, inst, f.where())
            elif (k, fld["n"]) in COPY_EXC:
                ctx.excepted(rid, inst, f.where(), COPY_EXC[(k, fld["n"])])
            else:
                ctx.violation(rid, inst, f.where(), "data member `%s` is neither initialised nor written by the copy constructor" % fld["n"])
    ctx.floor(rid, n, 120, "member x copy constructor obligations")


R137_EXC = {
}


def r13_7(ctx):
    """The receiver's storage is not moved out while a same-class argument is still to be read."""
    from rules.c14 import units_alloc
    rid = "R13.7"
    ctx.rule(rid, "no steal before the last read of a possible alias: in a member with a parameter `const K& y` of the receiver's own class, an exchange that moves a data member of the receiver out into a default-constructed local (swap(x.F, local), x.F.swap(local), x.m_swap(local)) is not followed, on any path, by a read through y — unless the function excludes `this == &y` first. With y aliasing the receiver (x.op(x), allowed by the interface) the later read sees the emptied member, so x.op(x) differs from x.op(copy of x)")
    fx = ctx.extract(units_alloc())
    n = 0
    seen = set()
    for f in fx.functions:
        if not f.cfg or not f.cls or f.kind != "method" or f.flag("const") or (f.relfile, f.line) in seen:
            continue
        k = ckey(f.cls).split("::")[-1]
        ys = [p_["n"] for p_ in f.params if "const" in p_["t"] and "&" in p_["t"] and k and re.search(r"\b%s\b" % re.escape(k), p_["t"])]
        if not ys:
            continue
        seen.add((f.relfile, f.line))

        def is_local(a):
            """a local that was default-constructed: exchanging with it empties the other side"""
            a = f.deref(a)
            while a is not None and a["k"] in ("cast", "paren") and a.get("c"):
                a = f.deref(a["c"][0])
            if a is None or a["k"] != "ref" or a.get("dk") != "local":
                return False
            vs = [v for v in f.walk() if v["k"] == "var" and v.get("n") == a["n"]]
            if len(vs) != 1:
                return False
            init = f.deref(vs[0]["c"][0]) if vs[0].get("c") else None
            while init is not None and init["k"] in ("cast", "paren", "temp", "bind") and init.get("c") and len(init["c"]) == 1:
                init = f.deref(init["c"][0])
            return init is None or (init["k"] == "construct" and not [x for x in init.get("c", ()) if f.deref(x) is not None])

        def is_this_field(a):
            a = f.deref(a)
            if a is None:
                return False
            r = f.root(a)
            return r[0] == "this" and len(r) >= 2
        events = []
        for c in f.calls():
            nm = f.call_name(c)
            if c["k"] == "call" and nm == "swap" and len(f.call_args(c)) == 2:
                a, b = f.call_args(c)
                if (is_local(a) and is_this_field(b)) or (is_local(b) and is_this_field(a)):
                    events.append(c)
            elif c["k"] == "mcall" and nm in ("swap", "m_swap") and len(f.call_args(c)) == 1 and is_local(f.call_args(c)[0]):
                o = f.call_obj(c)
                if o is None or f.root(o)[0] == "this":
                    events.append(c)
        guard = any(x["k"] in ("binop", "ocall") and x.get("op") in ("==", "!=") and "this" in f.text(x) and any(("&" + y_) in f.text(x).replace(" ", "") for y_ in ys) for x in f.walk())
        for c in events:
            n += 1
            inst = "%s::%s `%s` (line %s)" % (f.clsn, f.name, f.text(c)[:50], c.get("l"))
            pos = f.cfg_pos(c)
            if pos is None:
                continue

            def reads_y(x):
                if f.within(x, c):
                    return False
                if x["k"] in ("ref",) and x.get("dk") == "param" and x.get("n") in ys:
                    return True
                return False
            p = flow.Explorer(f, track_env=False).find_path(pos, lambda x: False, target=lambda x: any(reads_y(z) for z in f.walk(x)))
            if p is None or guard:
                ctx.ok(rid, inst, f.where(c))
            elif (f.clsn, f.name) in R137_EXC:
                ctx.excepted(rid, inst, f.where(c), R137_EXC[(f.clsn, f.name)])
            else:
                ctx.violation(rid, inst, f.where(c), "a member of the receiver is moved out into a local and a later step still reads the argument `%s` (path %s): if the argument is the receiver itself it has just been emptied" % ("/".join(ys), flow.render_path(f, p)))
    ctx.floor(rid, n, 2, "exchanges of a receiver member with a default-constructed local in members taking a same-class argument")


PART_CASTS = {
    ("Polyhedron", "constraints", "Constraint_System"): "installs the canonical unsatisfiable system of the right dimension in the constraint system of a polyhedron already marked empty: the value (empty) does not change",
    ("Polyhedron", "generators", "Generator_System"): "as for constraints(): canonical empty generator system of an object marked empty",
    ("Polyhedron", "strongly_minimize_generators", "Generator_System"): "strong minimization removes eps-redundant generators only (value-preserving reduction of the NNC representation; assumed as the other lazy updates are, see C01)",
    ("Polyhedron", "strongly_minimize_generators", "Bit_Matrix"): "the saturation matrix is permuted together with the generators it describes",
}


def r13_4(ctx):
    """Const arguments: who may strip constness, and what they may then do."""
    import json
    import os
    from pplv import effects as E
    rid = "R13.4"
    ctx.rule(rid, "const discipline: every const_cast of the library is one of the confirmed sites (a new one makes a const object or argument writable); through an alias of a const ARGUMENT only the tabled representation-preserving operations are applied")
    tab = json.load(open(os.path.join(F.VERIF, "tables", "R13.4.json")))
    known = set((e["class"], e["function"], e["target"]) for e in tab["sites"])
    us = [F.lib_unit(n) for n in F.library_sources()]
    us.append(F.driver_unit("domains.cc", file_re=r"_(inlines|templates)\.hh"))
    fx = ctx.extract(us)
    n = 0
    seen = set()
    for f in fx.functions:
        if f.flag("pattern"):
            continue
        casts = [x for x in f.walk() if x["k"] == "cast" and x.get("ck") == "const_cast" and x.get("c")]
        if not casts:
            continue
        ptargets = set()
        for x in casts:
            r = f.root(x["c"][0])
            tgt = r[0] if r[0] != "param" else "param:" + r[1]
            key = (ckey(f.cls), f.name, tgt)
            if r[0] == "param" and not x.get("t", "").strip().startswith("const "):
                ptargets.add(r[1])
            if key in seen:
                continue
            seen.add(key)
            n += 1
            inst = "%s::%s strips const from %s" % key
            if key in known:
                ctx.ok(rid, inst, f.where(x))
            else:
                ctx.violation(rid, inst, f.where(x), "const_cast to `%s` is not one of the confirmed sites: a const %s becomes writable here" % (
                    F.strip_ns(x.get("t", "")), "argument" if r[0] == "param" else "object"))
        for pn in sorted(ptargets):
            k2 = "%s::%s:%s" % (ckey(f.cls), f.name, pn)
            ent = tab["param_ops"].get(k2)
            if ent is None:
                continue   # already reported as an unknown site
            ops = set()
            for wn, r, how in E.writes(f):
                if r[0] == "param" and r[1] == pn:
                    ops.add(how.split(" ")[0] + ("." + ".".join(r[2:]) if len(r) > 2 else ""))
            n += 1
            inst = "%s operations through the writable alias" % k2
            extra = sorted(ops - set(ent["ops"]))
            if extra:
                ctx.violation(rid, inst, f.where(), "the const argument `%s` is modified by %s, beyond the representation-preserving operations %s" % (pn, extra, ent["ops"]))
            else:
                ctx.excepted(rid, inst, f.where(), ent["why"])
    # const members that strip constness from a PART of the receiver (a row, a system, a matrix) edit the representation
    # in place instead of going through the lazy-update members of the whole object: each such site is tabled
    for f in fx.functions:
        if f.flag("pattern") or not f.flag("const"):
            continue
        own = ckey(f.cls).split("::")[-1]
        for x in f.walk():
            if x["k"] == "cast" and x.get("ck") == "const_cast" and x.get("c"):
                r = f.root(x["c"][0])
                if r[0] != "this":
                    continue
                t = F.strip_ns(x.get("t", ""))
                if re.sub(r"[&*\s]|const", "", t).split("<")[0] == own:
                    continue
                key = (f.clsn, f.name, re.sub(r"[&*\s]|const", "", t))
                if key in seen:
                    continue
                seen.add(key)
                n += 1
                inst = "%s::%s (const) writes through const_cast<%s> of a part of the receiver" % (f.clsn, f.name, t)
                if key in PART_CASTS:
                    ctx.excepted(rid, inst, f.where(x), PART_CASTS[key])
                else:
                    ctx.violation(rid, inst, f.where(x), "a const member edits a sub-object of the receiver in place (not one of the tabled representation-preserving sites): a query changes the object it is asked about")
    ctx.floor(rid, n, 50, "const_cast sites")


def r13_8(ctx):
    """Temporary marks on const arguments are undone on every path, exceptional ones included."""
    from pplv import flow
    rid = "R13.8"
    ctx.rule(rid, "a temporary change made to a const argument through const_cast (mark_as_necessarily_closed) is undone on every normal path, and every statement between mark and unmark lies inside a try whose catch (...) unmarks and rethrows")
    fx = ctx.extract([F.lib_unit("Polyhedron_public.cc", name_re="simplify_using_context_assign")])
    n = 0
    for f in fx.functions:
        marks = [c for c in f.calls() if c["k"] == "mcall" and f.call_name(c) == "mark_as_necessarily_closed"
                 and any(x["k"] == "cast" and x.get("ck") == "const_cast" for x in f.walk(f.call_obj(c)))]
        for mk in marks:
            n += 1
            tgt = f.text(f.call_obj(mk))
            inst = "%s temporary mark on %s" % (F.strip_ns(f.sig()), tgt)

            def unmark(x, tgt=tgt):
                return x["k"] == "mcall" and f.call_name(x) == "mark_as_not_necessarily_closed" and f.text(f.call_obj(x)) == tgt
            p = flow.must_follow(f, mk, unmark)
            if p is not None:
                ctx.violation(rid, inst, f.where(mk), "a normal path leaves the argument marked: " + flow.render_path(f, p))
                continue
            # exceptional paths: the statement after the mark must be a try with catch(...) { unmark; throw; }
            par = f.parent.get(mk["i"])
            sib = [f.deref(c) for c in par.get("c", [])] if par is not None else []
            idx = next((i for i, c in enumerate(sib) if c is mk or (c is not None and f.within(mk, c))), None)
            nxt = sib[idx + 1] if idx is not None and idx + 1 < len(sib) else None
            ok = False
            if nxt is not None and nxt["k"] == "try":
                hs = [f.deref(h) for h in nxt["c"][1:]]
                for h in hs:
                    if h.get("all") and any(unmark(x) for x in f.walk(h)) and any(x["k"] == "throw" and x.get("rethrow") for x in f.walk(h)):
                        ok = True
                # and the unmark of the normal path is inside the try block (nothing throwing in between)
                if ok and not any(unmark(x) for x in f.walk(nxt["c"][0])):
                    ok = False
            if ok:
                ctx.ok(rid, inst, f.where(mk))
            else:
                ctx.violation(rid, inst, f.where(mk), "the code between mark and unmark is not protected by try { ...; unmark; } catch (...) { unmark; throw; }: an exception leaves the const argument changed")
    ctx.floor(rid, n, 1, "temporary marks on const arguments")


def run(ctx):
    ctx.explanation = ("C13 value-semantics clauses: rule of three for resource-owning classes, self-assignment shapes of all copy "
                       "assignments, member coverage of m_swap, copy-on-write of Determinate; decides these ownership/coverage clauses, "
                       "not aliasing x.op(x) in general")
    ctx.assumptions = ["memberwise assignments are safe if each member's own assignment is (checked recursively only through this rule's own instances)",
                       "aliased arguments (x.op(x)) need read-after-write reasoning on values: not decided"]
    fx = ctx.extract(units(ctx.tier))
    recs = class_records(fx)
    r13_1(ctx, fx, recs)
    r13_2(ctx, fx)
    r13_3(ctx, fx, recs)
    r13_4(ctx)
    r13_8(ctx)
    r13_6(ctx)
    r13_7(ctx)
    fx9 = ctx.extract(c09.units(ctx.tier))
    ctx.rule("R9.1", "see C09")
    c09.r9_1(ctx, fx9)
    # lazy updates applied to const arguments (operator== sorts both operands) must keep the cached claims honest
    from rules import c01
    c01.r1_5(ctx, ctx.extract([F.lib_unit("Polyhedron_nonpublic.cc"), F.lib_unit("Polyhedron_public.cc"), F.lib_unit("Polyhedron_chdims.cc")]))
