"""C15 — ascii_dump / ascii_load: writer/reader agreement.

R15.1 SEQUENCE-AGREEMENT  per class, the linearised writer and reader agree on
       (a) the order of keyword tokens, (b) the order of sub-object dumps/loads,
       (c) the order of directly streamed data members
R15.2 KEYWORD-REACHABLE   every literal the reader insists on can be produced by the writer
R15.3 FLAG-POLARITY       Status classes: each keyword's dump test_X pairs with set_X / reset_X
       of the same flag X in the loader, and both polarities are restored
Number I/O of special values and semantic equality of the loaded object are not decided.
"""
import re

from pplv import facts as F

STREAM_T = ("std::ostream", "std::istream", "ostream", "istream", "basic_ostream", "basic_istream")


def units(tier):
    us = [F.lib_unit(n, name_re=r"ascii_(dump|load)|get_field") for n in F.library_sources()]
    us.append(F.driver_unit("all_headers.cc", name_re=r"ascii_(dump|load)|get_field|Status::test_"))
    us.append(F.driver_unit("domains.cc", name_re=r"ascii_(dump|load)|get_field|Status::test_"))
    return us


def _class_key(f):
    """Class identity independent of template arguments: Outer::Inner chain of simple names."""
    c = F.strip_ns(f.cls or "")
    c = re.sub(r"<[^<>]*(<[^<>]*(<[^<>]*>[^<>]*)*>[^<>]*)*>", "", c)
    return c.strip()


def pairs(fx):
    """{class key: {'ascii_dump': Func, 'ascii_load': Func}} — resolved instantiations are
    preferred over template patterns (type-resolved callees)."""
    out = {}
    for f in fx.functions:
        if f.name not in ("ascii_dump", "ascii_load") or not f.cls or len(f.params) != 1:
            continue
        key = _class_key(f)
        d = out.setdefault(key, {})
        if f.name in d and not d[f.name].flag("pattern"):
            continue
        d[f.name] = f
    return out


# -- writer ------------------------------------------------------------------

def _flatten_shift(f, n, op):
    """Operands of a left-associated chain of `op` ('<<' or '>>'), left to right."""
    n = f.deref(n)
    if n is not None and n["k"] in ("ocall", "binop") and n.get("op") == op:
        c = [f.deref(x) for x in n.get("c", ())]
        if len(c) == 2:
            return _flatten_shift(f, c[0], op) + [c[1]]
    if n is not None and n["k"] == "call" and n.get("dep") and f.call_name(n) in ("operator<<", "operator>>"):
        c = f.call_args(n)
        if len(c) == 2:
            return _flatten_shift(f, c[0], op) + [c[1]]
    return [n]


def _lits(f, n):
    """Set of strings an operand can print, or None if it is a value."""
    n = f.deref(n)
    if n is None:
        return None
    if n["k"] == "str":
        return {n["v"]}
    if n["k"] == "char":
        return {chr(int(n["v"]))}
    if n["k"] == "cond":
        a = _lits(f, n["c"][1])
        b = _lits(f, n["c"][2])
        if a is not None and b is not None:
            return a | b
    if n["k"] == "ref" and n.get("sv") is not None:
        return {n["sv"]}
    if n["k"] == "ref" and n.get("dk") in ("local", "slocal") and n.get("t", "").startswith("const "):
        v = f.var_decl(n["n"], n.get("l"))
        if v is not None and v.get("c"):
            return _lits(f, v["c"][0])
    if n["k"] == "construct" and len(n.get("c", ())) == 1 and "string" in n.get("t", ""):
        return _lits(f, n["c"][0])
    return None


def _clean_type(t):
    t = re.sub(r"\b(const|typename|class|struct)\b", "", t or "").replace("&", "").replace("*", "")
    t = F.strip_ns(t).strip()
    return re.sub(r"<.*>$", "", t).strip()


def sub_id(f, call):
    """Identity of a sub-object dumped/loaded: the class of the object when resolved,
    else the data member it designates, else the declared type of the local."""
    if call.get("ccls"):
        return _clean_type(call["ccls"])
    if call["k"] == "call" and not call.get("dep") and len(f.call_args(call)) == 2:
        a = f.deref(f.call_args(call)[1])
        t = a.get("t") if a is not None else None
        if t and "dependent" not in t:
            return _clean_type(t)
    obj = f.call_obj(call) if call["k"] == "mcall" else (f.call_args(call)[1] if len(f.call_args(call)) == 2 else None)
    obj = f.deref(obj)
    if obj is None:
        return "?"
    m = _member_name(f, obj)
    if m:
        return "." + m
    if obj["k"] == "ref" and obj.get("dk") in ("local", "param"):
        v = f.var_decl(obj["n"], obj.get("l"))
        t = (v or obj).get("t", "")
        return _clean_type(t) or obj["n"]
    return f.text(obj)


def _member_name(f, n):
    """Name of the data member (of *this) an expression designates, else its text."""
    n = f.deref(n)
    r = f.root(n)
    if r and r[0] == "this" and len(r) > 1:
        return r[1]
    return None


def _expr_events(f, root):
    ev = []
    for n in f.walk(root):
        k = n["k"]
        if k in ("ocall", "binop", "call") and (n.get("op") == "<<" or f.call_name(n) == "operator<<"):
            par = f.parent.get(n["i"])
            if par is not None and par["k"] in ("ocall", "binop", "call") and (par.get("op") == "<<" or f.call_name(par) == "operator<<") \
                    and f.deref(par["c"][0] if par["k"] != "call" else f.call_args(par)[0]) is n:
                continue  # inner link of a chain
            ops = _flatten_shift(f, n, "<<")
            if not ops or ops[0] is None:
                continue
            first = ops[0]
            ft = first.get("t", "") if first["k"] == "ref" else ""
            if not (first["k"] == "ref" and ("ostream" in ft or first.get("n") == "s")):
                continue
            for o in ops[1:]:
                ls = _lits(f, o)
                if ls is not None:
                    ev.append(("part", frozenset(ls), n.get("l")))
                else:
                    o2 = f.deref(o)
                    if o2 is not None and o2["k"] in ("mcall", "call") and f.call_name(o2) in ("setw", "setfill", "setprecision", "flush"):
                        continue
                    if o2 is not None and o2["k"] == "ref" and o2.get("n") in ("endl", "flush", "dec", "hex"):
                        ev.append(("part", frozenset(["\n"]), n.get("l")))
                        continue
                    ev.append(("val", _member_name(f, o), n.get("l")))
        elif k in ("mcall", "call") and f.call_name(n) == "ascii_dump":
            ev.append(("sub", sub_id(f, n), n.get("l")))
    return ev


def _pure_literal(ev):
    return all(e[0] == "part" for e in ev)


def _concat_alts(ev):
    outs = {""}
    for e in ev:
        outs = {a + b for a in outs for b in e[1]}
    return outs


def _stmt_events(f, n):
    n = f.deref(n)
    if n is None:
        return []
    k = n["k"]
    if k == "block":
        ev = []
        for c in n.get("c", ()):
            ev += _stmt_events(f, c)
            cd = f.deref(c)
            if cd is not None and cd["k"] == "return":
                break   # statements after an unconditional return are dead
        return ev
    if k == "decl":
        return []
    if k == "if":
        then = _stmt_events(f, n["c"][3])
        els = _stmt_events(f, n["c"][4]) if n["c"][4] is not None else []
        if _pure_literal(then) and _pure_literal(els) and (then or els):
            return [("part", frozenset(_concat_alts(then) | _concat_alts(els)), n.get("l"))]
        return then + els
    if k == "switch":
        body = f.deref(n["c"][1])
        arms, cur = [], None
        for st in (body.get("c", ()) if body is not None and body["k"] == "block" else []):
            st = f.deref(st)
            if st is None:
                continue
            if st["k"] in ("case", "default"):
                cur = []
                arms.append(cur)
                inner = st
                # nested case labels: case A: case B: stmt
                while inner is not None and inner["k"] in ("case", "default"):
                    kids = [f.deref(x) for x in inner.get("c", ())]
                    inner = kids[-1] if kids and (inner["k"] == "default" or len(kids) > 1) else None
                if inner is not None:
                    cur += _stmt_events(f, inner)
            elif cur is not None:
                cur += _stmt_events(f, st)
        arms = [a for a in arms if a]
        if arms and all(_pure_literal(a) for a in arms):
            alts = set()
            for a in arms:
                alts |= _concat_alts(a)
            return [("part", frozenset(alts), n.get("l"))]
        ev = []
        for a in arms:
            ev += a
        return ev
    if k in ("for", "while", "do", "forrange"):
        ev = []
        for c in n.get("c", ()):
            c = f.deref(c)
            if c is not None and c["k"] in ("block", "if", "switch", "for", "while", "do", "mcall", "call", "ocall", "binop"):
                ev += _stmt_events(f, c) if c["k"] in ("block", "if", "switch", "for", "while", "do") else _expr_events(f, c)
        return ev
    if k in ("try",):
        return _stmt_events(f, n["c"][0])
    if k in ("break", "continue", "null_stmt", "case", "default"):
        return []
    return _expr_events(f, n)


def writer_events(f):
    """Linear list of ('part', {strings}) | ('val', member or None) | ('sub', id); if/switch
    arms that print only literals become one alternative part."""
    return _stmt_events(f, f.ast)


def writer_tokens(ev):
    """Whitespace-split tokens; a token is a frozenset of possible strings; values are '<V>'."""
    toks = []
    cur = [""]      # possible prefixes of the token being built

    def flush():
        nonlocal cur
        if any(c != "" for c in cur):
            toks.append(("tok", frozenset(c for c in cur)))
        cur = [""]
    for e in ev:
        if e[0] == "part":
            alts = e[1]
            # split each alternative at whitespace; handle the common cases
            if len(alts) == 1:
                s = next(iter(alts))
                pieces = re.split(r"(\s+)", s)
                for p in pieces:
                    if p == "":
                        continue
                    if p.isspace():
                        flush()
                    else:
                        cur = [c + p for c in cur]
            else:
                if any(re.search(r"\s", a) for a in alts):
                    # alternatives containing whitespace: treat as separate-token alternatives
                    flush()
                    toks.append(("tok", frozenset(a.strip() for a in alts if a.strip())))
                else:
                    cur = [c + a for c in cur for a in alts]
        elif e[0] == "val":
            cur = [c + "<V>" for c in cur]
            toks.append(("val", e[1]))
        elif e[0] == "sub":
            flush()
            toks.append(("sub", e[1]))
    flush()
    return toks


# -- reader ------------------------------------------------------------------

def reader_events(f):
    """Linear list of ('expect', {strings}) | ('val', member) | ('sub', name)."""
    ev = []
    strvars = set()
    for v in f.walk():
        if v["k"] == "var" and "string" in v.get("t", ""):
            strvars.add(v["n"])
    pending = None
    for n in f.walk():
        k = n["k"]
        if k in ("ocall", "binop", "call") and (n.get("op") == ">>" or f.call_name(n) == "operator>>"):
            par = f.parent.get(n["i"])
            if par is not None and par["k"] in ("ocall", "binop", "call") and (par.get("op") == ">>" or f.call_name(par) == "operator>>") \
                    and f.deref(par["c"][0] if par["k"] != "call" else f.call_args(par)[0]) is n:
                continue
            ops = _flatten_shift(f, n, ">>")
            first = ops[0]
            if first is None or not (first["k"] == "ref" and ("istream" in first.get("t", "") or first.get("n") == "s")):
                continue
            for o in ops[1:]:
                o = f.deref(o)
                if o is not None and o["k"] == "ref" and o.get("n") in strvars:
                    pending = ["expect", set(), n.get("l")]
                    ev.append(pending)
                else:
                    ev.append(["val", _member_name(f, o), n.get("l")])
        elif k in ("binop", "ocall") and n.get("op") in ("==", "!="):
            c = [f.deref(x) for x in n.get("c", ())]
            if len(c) == 2:
                for a, b in ((c[0], c[1]), (c[1], c[0])):
                    if a is not None and a["k"] == "ref" and a.get("n") in strvars and b is not None:
                        ls = _lits(f, b)
                        if ls and pending is not None:
                            pending[1] |= ls
        elif k in ("mcall", "call") and f.call_name(n) == "ascii_load":
            ev.append(["sub", sub_id(f, n), n.get("l")])
        elif k == "call" and f.call_name(n) == "get_field":
            args = f.call_args(n)
            if len(args) >= 2:
                ls = _lits(f, args[1])
                kw = next(iter(ls)) if ls else f.text(args[1])
                ev.append(["expect", {"+" + kw, "-" + kw}, n.get("l")])
    return ev


def _dedup(seq):
    out = []
    for x in seq:
        if not out or out[-1] != x:
            out.append(x)
    return out


def _first_occurrences(seq):
    seen, out = set(), []
    for x in seq:
        if x not in seen:
            seen.add(x)
            out.append(x)
    return out


def r15_1_2(ctx, fx, prs):
    ctx.rule("R15.1", "per class the writer and the reader agree on the order of first occurrences of keyword tokens, of sub-object dumps/loads and of directly streamed data members")
    ctx.rule("R15.2", "every literal token the reader insists on is a token the writer can produce")
    n = 0
    for cls, d in sorted(prs.items()):
        if "ascii_dump" not in d or "ascii_load" not in d:
            continue
        w, r = d["ascii_dump"], d["ascii_load"]
        if cls.endswith("::Status") or cls.endswith("Status"):
            continue   # flag lists: R15.3
        n += 1
        wt = writer_tokens(writer_events(w))
        re_ = reader_events(r)
        wkeys = [t[1] for t in wt if t[0] == "tok"]
        # keyword = a writer token all of whose alternatives are free of value placeholders
        wkw = _first_occurrences([k for k in wkeys if all("<V>" not in a for a in k) and any(re.search(r"[A-Za-z]", a) for a in k)])
        rkw = _first_occurrences([frozenset(e[1]) for e in re_ if e[0] == "expect" and e[1]])
        inst = cls
        # R15.2: reader literals producible
        all_w = set()
        for k in wkeys:
            all_w |= set(k)
        missing = [sorted(k) for k in rkw if not (set(k) & all_w)]
        if missing:
            ctx.violation("R15.2", inst, r.where(), "reader expects token(s) the writer never produces: %s (writer produces %s)" % (missing[:3], sorted(all_w)[:12]))
        else:
            ctx.ok("R15.2", inst, r.where())
        # R15.1 (a): keyword order.  Reader alternative-sets R_0..R_m (order of first
        # occurrence); each writer keyword is mapped to the first reader set it belongs to;
        # the mapped sequence must visit the reader sets in increasing order.
        idx = []
        for k in wkw:
            j = next((j for j, rk in enumerate(rkw) if set(k) & set(rk)), None)
            if j is not None:
                idx.append(j)
        idx = _dedup(idx)
        first = _first_occurrences(idx)
        ok = first == sorted(first)
        wproj = [k for k in wkw if any(set(k) & set(rk) for rk in rkw)]
        rproj = rkw
        wsub = _dedup([t[1] for t in wt if t[0] == "sub"])
        rsub = _dedup([e[1] for e in re_ if e[0] == "sub"])
        wval = _dedup([t[1] for t in wt if t[0] == "val" and t[1]])
        rval = _dedup([e[1] for e in re_ if e[0] == "val" and e[1]])
        problems = []
        if not ok:
            problems.append("keyword order differs: writer %s / reader %s" % ([sorted(k)[0] for k in wproj][:10], [sorted(k)[0] for k in rproj][:10]))
        if wsub != rsub:
            problems.append("sub-objects dumped %s but loaded %s" % (wsub, rsub))
        if [v for v in wval if v in rval] != [v for v in rval if v in wval]:
            problems.append("data members streamed in different order: writer %s / reader %s" % (wval, rval))
        if problems:
            ctx.violation("R15.1", inst, w.where(), "; ".join(problems))
        else:
            ctx.ok("R15.1", inst, w.where())
        ctx.count("R15.1", "keywords_compared", len(wproj))
        ctx.count("R15.1", "subobjects_compared", len(wsub))
    ctx.floor("R15.1", n, 30, "dump/load pairs")


def _whole_word_test(fx, cls, flag):
    """test_<flag>() is `flags == CONSTANT` (a pseudo-flag encoded by the whole word)."""
    for f in fx.functions:
        if f.name != "test_" + flag or not f.cls or _class_key(f) != cls:
            continue
        for r in f.walk():
            if r["k"] == "return" and r.get("c"):
                e = f.deref(r["c"][0])
                if e is not None and e["k"] == "binop" and e.get("op") == "==":
                    a, b = f.deref(e["c"][0]), f.deref(e["c"][1])
                    if a is not None and a["k"] == "member" and a.get("n") == "flags":
                        return True
        return False
    return False


def r15_3(ctx, fx, prs):
    rid = "R15.3"
    ctx.rule(rid, "Status dump/load: for each keyword, the flag X tested by the writer (test_X) is the flag set (set_X) and reset (reset_X) by the reader, and both polarities are restored (or the loader starts from a full reset)")
    n = 0
    for cls, d in sorted(prs.items()):
        if not cls.endswith("Status") or "ascii_dump" not in d or "ascii_load" not in d:
            continue
        w, r = d["ascii_dump"], d["ascii_load"]
        # writer: keyword -> flag, from the operands of the << chains in order
        wmap = {}
        for n_ in w.walk():
            if not (n_["k"] in ("ocall", "binop") and n_.get("op") == "<<"):
                continue
            par = w.parent.get(n_["i"])
            if par is not None and par["k"] in ("ocall", "binop") and par.get("op") == "<<" and w.deref(par["c"][0]) is n_:
                continue
            last_flag = None
            for o in _flatten_shift(w, n_, "<<")[1:]:
                o = w.deref(o)
                if o is None:
                    continue
                if o["k"] == "cond":
                    c = w.deref(o["c"][0])
                    if c is not None and c["k"] == "mcall" and w.call_name(c).startswith("test_"):
                        last_flag = w.call_name(c)[5:]
                elif o["k"] == "ref" and o.get("dk") in ("global", "sfield") and last_flag is not None \
                        and "*" in o.get("t", ""):
                    wmap[o["n"]] = last_flag
                    last_flag = None
        # reader: sequence of get_field(KW) then if(positive) set_/reset_
        starts_reset = any(r.call_name(c) in ("reset_all", "clear") for c in r.calls())
        kw = None
        for st in r.walk():
            if st["k"] == "call" and r.call_name(st) == "get_field":
                a = r.deref(r.call_args(st)[1])
                kw = a.get("n") if a is not None else None
            elif st["k"] == "if" and kw is not None:
                cond = r.deref(st["c"][2])
                if cond is None or cond["k"] != "ref" or cond.get("n") != "positive":
                    continue
                then, els = r.deref(st["c"][3]), r.deref(st["c"][4])
                sets = [r.call_name(c) for c in r.calls(then)] if then is not None else []
                resets = [r.call_name(c) for c in r.calls(els)] if els is not None else []
                n += 1
                inst = "%s keyword %s" % (cls, kw)
                flag = wmap.get(kw)
                problems = []
                if flag is None:
                    problems.append("keyword not written by ascii_dump")
                else:
                    if sets != ["set_" + flag]:
                        problems.append("'+' restores %s but the writer tests %s" % (sets, "test_" + flag))
                    if resets and resets != ["reset_" + flag]:
                        problems.append("'-' restores %s but the writer tests %s" % (resets, "test_" + flag))
                    if not resets and not starts_reset:
                        if _whole_word_test(fx, cls, flag):
                            ctx.excepted(rid, inst, r.where(st), "test_%s() compares the whole flag word with one constant: the value of this pseudo-flag is determined by the other flags, all of which are restored" % flag)
                            kw = None
                            continue
                        problems.append("'-%s' is not restored: the flag keeps whatever value the receiver had before the load" % kw)
                if problems:
                    ctx.violation(rid, inst, r.where(st), "; ".join(problems))
                else:
                    ctx.ok(rid, inst, r.where(st))
                kw = None
        missing = [k for k in wmap if not any(i.startswith("%s keyword %s" % (cls, k)) for i, *_ in ctx.rules[rid].ok + ctx.rules[rid].violations + ctx.rules[rid].known + ctx.rules[rid].excepted)]
        for k in missing:
            ctx.violation(rid, "%s keyword %s" % (cls, k), r.where(), "flag written by ascii_dump is never read back")
    ctx.floor(rid, n, 20, "status keywords")


# R15.4: classes whose dump and load name their data members directly (confirmed on the tree
# where the table was written).  A member of one of these classes that the dump or the load
# stops mentioning (or a NEW member that is never dumped/loaded) is reported.
DIRECT_COVERAGE = ["Polyhedron", "Grid", "BD_Shape", "Octagonal_Shape", "Box", "MIP_Problem", "PIP_Problem",
                   "PIP_Solution_Node", "PIP_Decision_Node", "PIP_Tree_Node", "Pointset_Powerset",
                   "Partially_Reduced_Product", "Sparse_Row"]
COVERAGE_EXC = {
    ("MIP_Problem", "opt_mode", "load"): "restored through set_optimization_mode(), which also keeps status consistent",
    ("PIP_Tree_Node", "owner_", "dump"): "back-pointer: re-established by set_owner() after the whole tree is loaded",
    ("PIP_Tree_Node", "owner_", "load"): "back-pointer: re-established by set_owner() after the whole tree is loaded",
    ("PIP_Tree_Node", "parent_", "dump"): "back-pointer: re-established by the parent's loader (set_parent)",
    ("PIP_Tree_Node", "parent_", "load"): "back-pointer: re-established by the parent's loader (set_parent)",
    ("Sparse_Row", "tree", "dump"): "dumped element by element through begin()/end(), which iterate the tree",
}


def _class_record(fx, key):
    best = None
    for (q, t), c in fx.classes.items():
        k = re.sub(r"<[^<>]*(<[^<>]*(<[^<>]*>[^<>]*)*>[^<>]*)*>", "", F.strip_ns(q)).strip()
        if k == key:
            if best is None or (best.get("pattern") and not c.get("pattern")) or len(c["fields"]) > len(best["fields"]):
                best = c
    return best


def _mentioned(f):
    out = set()
    for n in f.walk():
        if n["k"] == "member":
            r = f.root(n)
            if r[0] == "this" and len(r) > 1:
                out.add(r[1])
    return out


def r15_4(ctx, fx, prs):
    rid = "R15.4"
    ctx.rule(rid, "field coverage: every non-static data member of the listed classes is named by ascii_dump and by ascii_load (or is a reasoned exception: back-pointers, members restored through a setter)")
    n = 0
    for cls in DIRECT_COVERAGE:
        d = prs.get(cls)
        if not d or "ascii_dump" not in d or "ascii_load" not in d:
            raise F.AnalysisBroken("R15.4: dump/load pair of %s vanished" % cls)
        rec = _class_record(fx, cls)
        if rec is None:
            raise F.AnalysisBroken("R15.4: no class record for %s" % cls)
        for side, f in (("dump", d["ascii_dump"]), ("load", d["ascii_load"])):
            m = _mentioned(f)
            for fld in rec["fields"]:
                n += 1
                inst = "%s.%s in ascii_%s" % (cls, fld["n"], side)
                if fld["n"] in m:
                    ctx.ok(rid, inst, f.where())
                elif (cls, fld["n"], side) in COVERAGE_EXC:
                    ctx.excepted(rid, inst, f.where(), COVERAGE_EXC[(cls, fld["n"], side)])
                else:
                    ctx.violation(rid, inst, f.where(), "data member `%s` (%s) is never %s: the round trip cannot restore it" % (
                        fld["n"], fld["t"][:40], "written by ascii_dump" if side == "dump" else "read back by ascii_load"))
    ctx.floor(rid, n, 120, "member x side obligations")


GUARD_IGNORE = {"marked_empty", "is_empty"}


def _state_guards(f, stream_op):
    """Predicate-name sets of the `if` conditions (made only of const bool members of *this) whose
    then-branch streams something (`<<` for the writer, `>>` for the reader)."""
    out = []
    for i in f.walk():
        if i["k"] != "if":
            continue
        cond = f.deref(i["c"][2])
        then = f.deref(i["c"][3])
        if cond is None or then is None or f.deref(i["c"][4]) is not None:
            continue      # only sections without an alternative are optional
        preds = set()
        other = False
        for x in f.walk(cond):
            if x["k"] == "mcall":
                o = f.call_obj(x)
                if (o is None or f.root(o) == ("this",)) and not f.call_args(x):
                    preds.add(f.call_name(x))
                else:
                    other = True
            elif x["k"] == "binop" and x.get("op") not in ("&&", "||"):
                other = True
            elif x["k"] in ("ref", "member", "call", "ocall", "int", "str", "assign"):
                if x["k"] == "member" and f.parent.get(x["i"]) is not None and f.parent[x["i"]]["k"] == "mcall":
                    continue
                if x["k"] == "ref" and x.get("dk") in ("local", "param") and "stream" in x.get("t", ""):
                    other = True      # a stream test such as `!(s >> str)`
                elif x["k"] in ("call", "ocall", "int", "str", "assign"):
                    other = True
        if other or not preds or not (preds - GUARD_IGNORE):
            continue
        streams = any(y["k"] in ("ocall", "binop", "call") and (y.get("op") == stream_op or f.call_name(y) == "operator" + stream_op)
                      for y in f.walk(then))
        if streams:
            out.append((frozenset(preds - GUARD_IGNORE), i))
    return out


def r15_5(ctx, prs):
    rid = "R15.5"
    ctx.rule(rid, "optional sections: when the writer emits a section only in some states of the object (an `if` over const state predicates of *this whose body streams output), the reader consumes a section under a guard over the same predicates (emptiness tests aside), and vice versa — otherwise a dump written in such a state is read with the section skipped or expected in vain")
    n = 0
    for key in sorted(prs):
        d = prs[key]
        if "ascii_dump" not in d or "ascii_load" not in d:
            continue
        w, r = d["ascii_dump"], d["ascii_load"]
        gw = _state_guards(w, "<<")
        gr = _state_guards(r, ">>")
        if not gw and not gr:
            continue
        n += 1
        inst = "%s optional sections" % key
        sw = sorted(sorted(g) for g, _ in gw)
        sr = sorted(sorted(g) for g, _ in gr)
        if sw == sr:
            ctx.ok(rid, inst, w.where(gw[0][1]) if gw else r.where(gr[0][1]))
        else:
            at = (r.where(gr[0][1]) if gr else r.where())
            ctx.violation(rid, inst, at, "the writer guards its optional sections by %s, the reader by %s" % (sw, sr))
    ctx.floor(rid, n, 1, "classes with state-dependent sections")


# (class, field) -> why a later write after the restoring one is fine
R156_EXC = {
    ("Congruence_System", "space_dimension_"): "insert_verbatim() writes the dimension only to grow it when a row is larger than the system; the rows of a dump are not larger than the dimension dumped with them, so the restored value stands",
    ("Linear_System", "space_dimension_"): "insert() writes the dimension only to grow it when a row is larger than the system; the rows of a dump are not larger than the dimension dumped with them",
    ("MIP_Problem", "inherited_constraints"): "deliberate and documented at the site: the loaded problem owns every constraint it read (the destructor deletes exactly the non-inherited ones), so the count is read for format agreement and then set to zero",
}


def r15_6(ctx):
    from rules.c14 import units_alloc
    from pplv import effects as E
    from pplv import flow
    rid = "R15.6"
    ctx.rule(rid, "restored members are final: once ascii_load has given a data member the value read from the stream (assignment from a local that holds it, or `s >> member`), no later step of the function writes that member again — neither another assignment nor a call on *this whose may-write summary (same-class callees, depth 3) contains it; e.g. the `sorted` flag of a Linear_System must be restored after the rows were inserted, because insert() recomputes it from row order, pending rows included")
    fx = ctx.extract(units_alloc())
    sums = {}
    n = 0
    seen = set()
    for f in fx.functions:
        if f.name != "ascii_load" or not f.clsn or not f.cfg or len(f.params) != 1:
            continue
        if (f.relfile, f.line) in seen:
            continue
        seen.add((f.relfile, f.line))
        sm = sums.setdefault(f.clsn, E.Summaries(fx, f.clsn))
        events = []
        for a in f.walk():
            if a["k"] == "assign":
                lhs, rhs = f.deref(a["c"][0]), f.deref(a["c"][1])
                if lhs is None or rhs is None:
                    continue
                r = f.root(lhs)
                if len(r) == 2 and r[0] == "this" and any(x["k"] == "ref" and x.get("dk") == "local" for x in f.walk(rhs)):
                    events.append((a, r[1]))
            elif a["k"] == "ocall" and a.get("op") == ">>":
                tgt = f.deref(a["c"][-1])
                if tgt is not None:
                    r = f.root(tgt)
                    if len(r) == 2 and r[0] == "this":
                        events.append((a, r[1]))
        for a, fld in events:
            pos = f.cfg_pos(a)
            if pos is None:
                continue
            n += 1
            inst = "%s::ascii_load restores %s (line %s)" % (f.clsn, fld, a.get("l"))

            def rewrites(x, fld=fld, a=a):
                if x["i"] == a["i"] or f.within(x, a):
                    return False
                if x["k"] == "assign":
                    l = f.deref(x["c"][0])
                    return l is not None and f.root(l) == ("this", fld)
                if x["k"] == "ocall" and x.get("op") == ">>":
                    t = f.deref(x["c"][-1])
                    return t is not None and f.root(t) == ("this", fld)
                if x["k"] == "mcall":
                    o = f.call_obj(x)
                    if o is not None and f.root(o) != ("this",):
                        return False
                    if x.get("cconst"):
                        return False
                    for g in sm.by_name.get(f.call_name(x), []):
                        if len(g.params) == len(f.call_args(x)) and fld in sm.may_write(g):
                            return True
                return False
            p = flow.Explorer(f, track_env=False).find_path(pos, lambda x: False, target=rewrites)
            if p is None:
                ctx.ok(rid, inst, f.where(a))
            elif (f.clsn, fld) in R156_EXC:
                ctx.excepted(rid, inst, f.where(a), R156_EXC[(f.clsn, fld)])
            else:
                ctx.violation(rid, inst, f.where(a), "after `%s` holds the value read from the stream a later step writes it again (path %s): the loaded object does not carry the dumped value of this member" % (fld, flow.render_path(f, p)))
    ctx.floor(rid, n, 20, "members restored from the stream")


def run(ctx):
    ctx.explanation = ("C15 writer/reader agreement over all ascii_dump/ascii_load pairs (linearised token, sub-object and member sequences; "
                       "status flag polarity); decides the agreement clause, not number I/O nor semantic equality of the loaded object")
    ctx.assumptions = ["control structure (loop bounds, optional sections) of writer and reader is compared only through the linear order of first occurrences",
                       "numeric output/input of coefficients and special float values is not decided"]
    fx = ctx.extract(units(ctx.tier) + [F.driver_unit("domains.cc", name_re=r"^$", class_re=r"Parma_Polyhedra_Library", no_cfg=True)])
    prs = pairs(fx)
    r15_1_2(ctx, fx, prs)
    r15_3(ctx, fx, prs)
    r15_4(ctx, fx, prs)
    r15_5(ctx, prs)
    r15_6(ctx)


