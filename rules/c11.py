"""C11 — checked arithmetic: discipline and encodings (the arithmetic of the primitives is not decided).

R11.1 WITNESSES      policy constants, Rounding_Dir / Result algebra, and the encodings of the special
                     values of extended native integers (outside the ordinary range, pairwise distinct),
                     in the release view and in the bounded-coefficient views (static_assert TUs)
R11.2 HANDLE-RESULT  every Checked_Number member/operator that does not itself return a Result
                     routes the Result of the checked primitive it calls into Policy::handle_result;
                     the bounded-coefficient policy throws on overflow / NaN
R11.3 BOUNDED-BUILD  the whole library type-checks with Checked_Number<intN_t> coefficients (thorough)
R11.4 FPU-PAIRING    fpu_save_rounding_direction is restored on every path; every
                     `return result_relation<P>(dir)` is preceded by prepare_inexact<P>(dir)
"""
import os
import re
import subprocess

from pplv import facts as F
from pplv import flow
from pplv import witness

RESULT_CALL = re.compile(r"(_assign_r$|^assign_r$|^input$|^output$|^assign_ext$|^assign_special$|^construct_ext$|^neg_ext$)")


def units():
    return [F.driver_unit("all_headers.cc", file_re=r"(Checked_Number_inlines|checked_float_inlines|Coefficient_inlines|checked_inlines)\.hh")]


def r11_1(ctx, tier):
    rid = "R11.1"
    ctx.rule(rid, "compile-time witnesses of the policies and of the Rounding_Dir / Result / Boundary_Type encodings, in the release configuration and with bounded (checked intN_t) coefficients")
    views = ["release", "bounded32"] + (["bounded8", "bounded16", "bounded64"] if tier == "thorough" else [])
    for src, least in (("policies.cc", 25), ("checked.cc", 54)):
        for v in views:
            ids, failed = witness.run(src, v, ctx.repo)
            ctx.require(rid, len(ids) >= least, "witness TU %s has only %d assertions in view %s" % (src, len(ids), v))
            for i in ids:
                inst = "%s@%s" % (i, v)
                if i in failed:
                    ctx.violation(rid, inst, "tool/witness/" + src, "static_assert failed: " + failed[i])
                else:
                    ctx.ok(rid, inst, "tool/witness/" + src)


def r11_2(ctx, fx):
    rid = "R11.2"
    ctx.rule(rid, "result routing: in Checked_Number_inlines.hh every function that does not return a Result and calls a checked primitive (a *_assign_r / assign_r / input / output / Checked::* operation) passes that primitive's Result to Policy::handle_result — otherwise an overflow is silently dropped instead of raising")
    n = 0
    seen = set()
    for f in fx.functions:
        if not f.file.endswith("Checked_Number_inlines.hh") or (f.relfile, f.line, f.sig()) in seen:
            continue
        seen.add((f.relfile, f.line, f.sig()))
        if "Result" in f.j.get("ret", "") or f.name == "handle_result":
            continue
        calls = [c for c in f.calls() if RESULT_CALL.search(f.call_name(c) or "")]
        if not calls:
            continue
        for c in calls:
            n += 1
            inst = "%s calls %s" % (re.sub(r"\s+", " ", F.strip_ns(f.sig()))[:70], f.call_name(c))
            routed = any(a["k"] in ("call", "mcall") and f.call_name(a) in ("handle_result", "check_result") for a in f.ancestors(c))
            if not routed:
                # stored in a local Result that is handed over later
                p = f.parent.get(c["i"])
                while p is not None and p["k"] in ("cast",):
                    p = f.parent.get(p["i"])
                if p is not None and p["k"] in ("var", "assign"):
                    name = p["n"] if p["k"] == "var" else f.text(f.deref(p["c"][0]))
                    routed = any(f.call_name(h) == "handle_result" and any(x["k"] == "ref" and x.get("n") == name for x in f.walk(h))
                                 for h in f.calls())
            if routed:
                ctx.ok(rid, inst, f.where(c))
            else:
                ctx.violation(rid, inst, f.where(c), "the Result of `%s` is dropped: the operation neither reports nor raises on overflow / inexactness" % f.call_name(c))
    ctx.floor(rid, n, 90, "checked primitives called from non-Result functions")


def r11_2b(ctx):
    rid = "R11.2"
    fx = ctx.extract([F.Unit(os.path.join(F.VERIF, "drivers", "all_headers.cc"), view="bounded32",
                             file_re=r"Coefficient_inlines\.hh", name_re=r"handle_result")])
    fs = [f for f in fx.functions if f.name == "handle_result" and "Bounded_Integer_Coefficient_Policy" in f.q]
    if not fs:
        raise F.AnalysisBroken("R11.2: Bounded_Integer_Coefficient_Policy::handle_result not found in the bounded view")
    f = fs[0]
    inst = "Bounded_Integer_Coefficient_Policy::handle_result raises on overflow and NaN"
    ok = False
    for i in f.walk():
        if i["k"] == "if":
            ct = f.text(f.deref(i["c"][2]))
            if "result_overflow(r)" in ct and "VC_NAN" in ct and "||" in ct and \
                    any(f.call_name(c) == "throw_result_exception" for c in f.calls(f.deref(i["c"][3]))):
                ok = True
    if ok:
        ctx.ok(rid, inst, f.where())
    else:
        ctx.violation(rid, inst, f.where(), "the bounded-coefficient policy no longer throws when the Result says overflow or NaN")


def r11_3(ctx):
    rid = "R11.3"
    ctx.rule(rid, "bounded builds type-check: every library source parses without diagnostics with PPL_COEFFICIENT_TYPE = Checked_Number<intN_t, Bounded_Integer_Coefficient_Policy>, N in 8, 16, 32, 64 (a configuration the test suite, built with mpz coefficients, never compiles)")
    names = F.library_sources(ctx.repo)
    import concurrent.futures

    def one(args):
        v, nme = args
        cmd = ["clang++", "-fsyntax-only"] + F.base_flags(v, ctx.repo) + [os.path.join(ctx.repo, "src", nme)]
        r = subprocess.run(cmd, capture_output=True, text=True)
        errs = [l for l in r.stderr.splitlines() if "error:" in l]
        return v, nme, errs
    jobs = [(v, nme) for v in ("bounded8", "bounded16", "bounded32", "bounded64") for nme in names]
    with concurrent.futures.ThreadPoolExecutor(max_workers=16) as ex:
        for v, nme, errs in ex.map(one, jobs):
            inst = "%s@%s" % (nme, v)
            if errs:
                ctx.violation(rid, inst, "src/" + nme, "does not type-check with bounded coefficients: " + errs[0][:200])
            else:
                ctx.ok(rid, inst, "src/" + nme)


def r11_4(ctx, fx):
    rid = "R11.4"
    ctx.rule(rid, "FPU pairing in checked_float_inlines.hh: the value returned by fpu_save_rounding_direction reaches fpu_restore_rounding_direction on every path (no return in between), and every `return result_relation<P>(dir)` is preceded on every path by prepare_inexact<P>(dir) (otherwise a stale inexact flag makes the reported relation false)")
    n = 0
    seen = set()
    for f in fx.functions:
        if not f.file.endswith("checked_float_inlines.hh") or (f.relfile, f.line) in seen or not f.cfg:
            continue
        seen.add((f.relfile, f.line))
        for c in f.calls():
            nm = f.call_name(c)
            if nm == "fpu_save_rounding_direction":
                n += 1
                inst = "%s save/restore" % f.name
                p = flow.must_follow(f, c, lambda x: x["k"] in ("call", "mcall") and f.call_name(x) == "fpu_restore_rounding_direction")
                if p is None:
                    ctx.ok(rid, inst, f.where(c))
                else:
                    ctx.violation(rid, inst, f.where(c), "a path leaves the function with the FPU rounding mode still switched: " + flow.render_path(f, p))
        for r in f.walk():
            if r["k"] == "return" and r.get("c") and "result_relation" in f.text(r):
                n += 1
                inst = "%s return result_relation" % f.name
                p = flow.must_precede(f, r, lambda x: x["k"] in ("call", "mcall") and f.call_name(x) == "prepare_inexact")
                if p is None:
                    ctx.ok(rid, inst, f.where(r))
                else:
                    ctx.violation(rid, inst, f.where(r), "the inexact flag is read without having been reset first (prepare_inexact)")
    ctx.floor(rid, n, 18, "FPU save sites + result_relation returns")


CONV = {"conv_ss": "assign_signed_int_signed_int", "conv_su": "assign_signed_int_unsigned_int",
        "conv_us": "assign_unsigned_int_signed_int", "conv_uu": "assign_unsigned_int_unsigned_int"}


def r11_5(ctx):
    """Native integer -> native integer conversions: range checks present wherever the instantiation needs them."""
    rid = "R11.5"
    ctx.rule(rid, "conversion range checks: for every instantiation of assign_{signed,unsigned}_int_{signed,unsigned}_int over 5 destination types x 5 source types x 4 destination policies x 4 source policies (has_infinity / has_nan on or off; drivers/int_conv.cc), the compiler computes from the library's own Extended_Int constants whether an ordinary source value can lie below (NeedLo) or above (NeedHi) the destination's ordinary range; where it can, every path of the instantiated function (branches the compiler folds to a constant are followed as folded) from entry to the plain copy `to = from` passes the false edge of a test `from < ...` (resp. `from > ...`) — otherwise an out-of-range value is copied bit for bit, lands on the encoding of an infinity or NaN (or wraps) and is reported as exact")
    u = F.driver_unit("int_conv.cc", file_re=r"(checked_int_inlines\.hh|int_conv\.cc)",
                      name_re=r"::(conv_|assign_(un)?signed_int_(un)?signed_int)")
    u.root2 = os.path.join(F.VERIF, "drivers")
    fx = ctx.extract([u])
    inst = {}
    for f in fx.functions:
        if f.name in CONV.values() and not f.flag("pattern") and f.cfg:
            inst[(f.name, tuple(f.j.get("targs") or ()))] = f
    n = needed = 0
    per = {}
    for w in fx.functions:
        if w.name not in CONV or w.flag("pattern"):
            continue
        ta = tuple(w.j.get("targs") or ())
        ctx.require(rid, len(ta) == 6 and ta[4] in ("true", "false") and ta[5] in ("true", "false"), "unexpected template arguments of %s: %s" % (w.name, ta))
        f = inst.get((CONV[w.name], ta[:4]))
        ctx.require(rid, f is not None, "instantiation %s<%s> not found" % (CONV[w.name], ", ".join(ta[:4])))
        copies = [a for a in f.walk() if a["k"] in ("assign", "ocall") and (a["k"] == "assign" or a.get("op") == "=")
                  and f.deref(a["c"][0]) is not None and f.deref(a["c"][0]).get("n") == "to" and "from" in f.text(a)]
        ctx.require(rid, len(copies) == 1, "%s: the plain copy `to = from` was not found (or is not unique)" % f.name)
        copy = copies[0]

        def cmp_in(cond, op):
            for x in f.walk(cond):
                if x["k"] in ("binop", "ocall") and x.get("op") in ("<", ">", "<=", ">="):
                    cs = [f.deref(c) for c in x["c"]][-2:]
                    o = x["op"]
                    l, r = cs
                    lf = l is not None and any(y["k"] == "ref" and y.get("n") == "from" for y in f.walk(l))
                    rf = r is not None and any(y["k"] == "ref" and y.get("n") == "from" for y in f.walk(r))
                    if lf == rf:
                        continue
                    if rf:
                        o = {"<": ">", ">": "<", "<=": ">=", ">=": "<="}[o]
                    if o[0] == op:
                        return True
            return False

        # the `if` statements whose condition tests `from` from below / above
        guards = {"<": set(), ">": set()}
        for i in f.walk():
            if i["k"] == "if":
                for op in "<>":
                    if cmp_in(f.deref(i["c"][2]), op):
                        guards[op].add(f.deref(i["c"][2])["i"])
        for flag, op, what in ((ta[4], "<", "below"), (ta[5], ">", "above")):
            n += 1
            label = "%s<%s> %s" % (f.name, ", ".join(ta[:4]), "lower check" if op == "<" else "upper check")
            if flag != "true":
                per[(w.name, "not needed")] = per.get((w.name, "not needed"), 0) + 1
                ctx.ok(rid, label + " (not needed)", f.where())
                continue
            needed += 1

            def eb(tc, taken, op=op):
                if tc.get("cv") is not None and taken != tc["cv"]:
                    return True
                return (not taken) and tc["i"] in guards[op]
            p = flow.Explorer(f, track_env=False).find_path("ENTRY", lambda x: False, target=lambda x: x["i"] == copy["i"], edge_blocked=eb)
            if p is None:
                per[(w.name, "checked")] = per.get((w.name, "checked"), 0) + 1
                ctx.ok(rid, label, f.where(copy))
            else:
                ctx.violation(rid, label, f.where(copy), "an ordinary source value can lie %s the destination's ordinary range (Extended_Int constants of this instantiation), yet the copy `to = from` is reached without the test `from %s ...` (path %s; folded branches followed): the value is copied bit for bit and reported as V_EQ" % (what, op, flow.render_path(f, p)))
    for k in sorted(per):
        ctx.count(rid, "%s %s" % k, per[k])
    ctx.floor(rid, n, 3200, "conversion instantiations x bounds")
    ctx.floor(rid, needed, 1000, "bounds that need a check")


class _UnknownForm(Exception):
    pass


def _sign_states(signed):
    """The abstract states of a native quotient x / y with y != 0: the signs of the two operands, whether the division is
    exact (x % y == 0), and whether the divisor is -1 (the only divisor the code singles out)."""
    out = []
    for sx in ((-1, 0, 1) if signed else (0, 1)):
        for sy in ((-1, 1) if signed else (1,)):
            for exact in (True, False):
                if sx == 0 and not exact:
                    continue
                for unit in ((True, False) if sy < 0 else (False,)):
                    if unit and not exact:
                        continue
                    out.append({"sx": sx, "sy": sy, "exact": exact, "unit": unit})
    return out


def _quotient_paths(f, st, xn, yn):
    """Interpret the structured body of f on the abstract state st. Yields (terminal node, kind, trace) for every path:
    conditions on x, y and the remainder are decided by st, anything else (policy constants, the rounding direction)
    is followed both ways."""
    rem = set()

    def is_rem(e):
        e = f.deref(e)
        if e is None or e["k"] not in ("binop", "ocall") or e.get("op") != "%":
            return False
        a, b = [f.text(f.deref(c)).strip() for c in e["c"][-2:]]
        return a == xn and b == yn

    def val(e):
        """sign of an expression: -1/0/1, 'm1' for the literal -1, or None."""
        e = f.deref(e)
        t = f.text(e).replace(" ", "")
        if t == "0":
            return 0
        if t == "-1":
            return "m1"
        return None

    def is_bool(e):
        e = f.deref(e)
        while e is not None and e["k"] == "paren":
            e = f.deref(e["c"][0])
        return e is not None and (e["k"] == "bool" or (e["k"] in ("binop", "ocall") and e.get("op") in ("==", "!=", "<", ">", "<=", ">=", "&&", "||")) or (e["k"] == "unop" and e.get("op") == "!"))

    def ev(e):
        e = f.deref(e)
        k = e["k"]
        t = f.text(e).replace(" ", "")
        if k == "paren":
            return ev(e["c"][0])
        if k == "cond":
            c, a, b = e["c"][-3:]
            out = set()
            for cv in ev(c):
                out |= ev(a if cv else b)
            return out
        if k in ("binop", "ocall") and e.get("op") == ",":
            return ev(e["c"][-1])
        if k == "bool":
            return {t == "true"}
        if k in ("binop", "ocall") and e.get("op") == "&&":
            a, b = e["c"][-2:]
            out = set()
            for av in ev(a):
                out |= ev(b) if av else {False}
            return out
        if k in ("binop", "ocall") and e.get("op") == "||":
            a, b = e["c"][-2:]
            out = set()
            for av in ev(a):
                out |= {True} if av else ev(b)
            return out
        if k == "unop" and e.get("op") == "!":
            return {not v for v in ev(e["c"][0])}
        if k in ("binop", "ocall") and e.get("op") in ("==", "!=") and all(is_bool(c) for c in e["c"][-2:]):
            a, b = e["c"][-2:]
            return {(av == bv) == (e["op"] == "==") for av in ev(a) for bv in ev(b)}
        if k in ("binop", "ocall") and e.get("op") in ("==", "!=", "<", ">", "<=", ">="):
            a, b = [f.deref(c) for c in e["c"][-2:]]
            an, lit = f.text(a).strip(), val(b)
            if lit is None:
                raise _UnknownForm("comparison `%s` at line %s" % (f.text(e), e.get("l")))
            if an == yn:
                if lit == "m1":
                    r = st["unit"]
                    if e["op"] == "==":
                        return {r}
                    if e["op"] == "!=":
                        return {not r}
                    raise _UnknownForm("ordering of the divisor against -1 at line %s" % e.get("l"))
                sv = st["sy"]
            elif an == xn:
                if lit == "m1":
                    raise _UnknownForm("dividend compared with -1 at line %s" % e.get("l"))
                sv = st["sx"]
            elif an in rem:
                if lit == "m1":
                    raise _UnknownForm("remainder compared with -1 at line %s" % e.get("l"))
                sv = 0 if st["exact"] else st["sx"]     # x % y has the sign of x
            else:
                raise _UnknownForm("comparison on `%s` at line %s" % (an, e.get("l")))
            return {{"==": sv == 0, "!=": sv != 0, "<": sv < 0, ">": sv > 0, "<=": sv <= 0, ">=": sv >= 0}[e["op"]]}
        if k == "ref" and an_policy(t):
            return {True, False}
        if k in ("call", "mcall") and f.call_name(e) in ("round_not_requested", "round_down", "round_up", "round_ignore", "round_direct", "round_inverse"):
            return {True, False}
        raise _UnknownForm("condition `%s` at line %s" % (f.text(e)[:40], e.get("l")))

    def an_policy(t):
        return t.startswith("check_") or "Policy::" in t

    def stmts(n):
        n = f.deref(n)
        return [f.deref(c) for c in n["c"]] if n["k"] == "block" else [n]

    def run(todo, trace, computed):
        """todo: list of statements still to execute (a continuation)."""
        while todo:
            s, todo = todo[0], todo[1:]
            k = s["k"]
            if k == "block":
                todo = stmts(s) + todo
            elif k == "if":
                cs = [f.deref(c) for c in s["c"]]
                if len(cs) != 5 or cs[0] is not None or cs[1] is not None:
                    raise _UnknownForm("if with an initialiser or a condition variable at line %s" % s.get("l"))
                cond, then, els = cs[2], cs[3], cs[4]
                for v in sorted(ev(cond)):
                    br = then if v else els
                    yield from run((stmts(br) if br is not None else []) + todo, trace + [(cond.get("l"), f.text(cond)[:40], v)], computed)
                return
            elif k == "return":
                yield s, trace, computed
                return
            elif k == "assign" and f.text(f.deref(s["c"][0])).strip() == "to":
                r = f.deref(s["c"][1])
                if r["k"] in ("binop", "ocall") and r.get("op") == "/":
                    computed = True
                else:
                    raise _UnknownForm("`to` assigned `%s` at line %s" % (f.text(r)[:30], s.get("l")))
            elif k == "decl":
                for v in s["c"]:
                    v = f.deref(v)
                    if v["k"] == "var" and v.get("c") and is_rem(v["c"][-1]):
                        rem.add(v.get("n") or v.get("name") or f.text(v).split()[-1])
                    elif v["k"] == "var":
                        raise _UnknownForm("local `%s` at line %s" % (f.text(v)[:30], v.get("l")))
            else:
                raise _UnknownForm("statement `%s` at line %s" % (f.text(s)[:40], s.get("l")))
        raise _UnknownForm("a path falls off the end of %s" % f.name)

    yield from run(stmts(f.ast), [], False)


def r11_6(ctx):
    rid = "R11.6"
    ctx.rule(rid, "the correction after a truncating native division points the right way: C++ `x / y` truncates towards zero, so the exact quotient differs from the stored one by (x % y) / y — above it when the remainder and the divisor have the same sign, below it when they differ, equal when the remainder is zero; the remainder has the sign of the DIVIDEND. Each div_*_int primitive of checked_int_inlines.hh (a native quotient followed by the remainder of the same operands) is interpreted on the finite sign abstraction of its operands — sign of x, sign of y, exact or not, y == -1 or not; policy constants and the rounding direction followed both ways — and on every path the terminal must agree with the abstract error: round_lt_int* (exact < stored) only when the error is negative, round_gt_int* only when positive, V_EQ only when it is zero, V_GE / V_LE only when it cannot be negative / positive")
    fx = ctx.extract([F.driver_unit("all_headers.cc", file_re=r"checked_int_inlines\.hh")])
    seen = set()
    n = 0
    for f in fx.functions:
        if not f.flag("pattern") or (f.relfile, f.line) in seen:
            continue
        quo = None
        for a in f.walk():
            if a["k"] == "assign" and f.text(f.deref(a["c"][0])).strip() == "to":
                r = f.deref(a["c"][1])
                if r["k"] in ("binop", "ocall") and r.get("op") == "/":
                    quo = [f.text(f.deref(c)).strip() for c in r["c"][-2:]]
        if quo is None:
            continue
        xn, yn = quo
        has_rem = any(x["k"] in ("binop", "ocall") and x.get("op") == "%" and [f.text(f.deref(c)).strip() for c in x["c"][-2:]] == quo for x in f.walk())
        if not has_rem:
            continue          # idiv_*: the truncated quotient IS the result
        seen.add((f.relfile, f.line))
        if "unsigned" in f.name:
            signed = False
        elif "signed" in f.name:
            signed = True
        else:
            raise F.AnalysisBroken("R11.6: cannot tell whether %s (%s) divides signed or unsigned operands" % (f.name, f.where()))
        n += 1
        paths = 0
        bad = {}
        try:
            for st in _sign_states(signed):
                err = 0 if st["exact"] else st["sx"] * st["sy"]
                for ret, trace, computed in _quotient_paths(f, st, xn, yn):
                    paths += 1
                    e = f.deref(ret["c"][0]) if ret.get("c") else None
                    t = f.text(e).replace(" ", "") if e is not None else ""
                    cn = f.call_name(e) if e is not None and e["k"] in ("call", "mcall") else None
                    if not computed:
                        continue      # returned before dividing: another primitive's result
                    want = None
                    if cn and cn.startswith("round_lt_int"):
                        want = (err < 0, "round_lt_int* says the exact quotient is BELOW the stored one")
                    elif cn and cn.startswith("round_gt_int"):
                        want = (err > 0, "round_gt_int* says the exact quotient is ABOVE the stored one")
                    elif t == "V_EQ":
                        want = (err == 0, "V_EQ says the stored quotient is exact")
                    elif t == "V_GE":
                        want = (err >= 0, "V_GE says the exact quotient is not below the stored one")
                    elif t == "V_LE":
                        want = (err <= 0, "V_LE says the exact quotient is not above the stored one")
                    elif t == "V_LGE":
                        want = (True, "")
                    else:
                        raise _UnknownForm("terminal `%s` at line %s" % (t[:30], ret.get("l")))
                    if not want[0]:
                        sg = {-1: "negative", 0: "zero", 1: "positive"}
                        bad.setdefault(ret.get("l"), (ret, "%s, but for %s %s, %s %s and a non-zero remainder the truncation error is %s (path: %s)" % (
                            want[1], xn, sg[st["sx"]], yn, sg[st["sy"]], sg[err] if not st["exact"] else "zero",
                            "; ".join("line %s `%s` %s" % (l, c, "true" if v else "false") for l, c, v in trace if c and ("%s" % c)[0] not in "c"))))
        except _UnknownForm as ex:
            raise F.AnalysisBroken("R11.6: %s: %s — the sign interpretation does not know this form" % (f.name, ex))
        ctx.count(rid, "abstract paths interpreted", paths)
        inst = "%s (%s operands)" % (f.name, "signed" if signed else "unsigned")
        if bad:
            for l in sorted(bad):
                ret, msg = bad[l]
                ctx.violation(rid, "%s return at line %s" % (inst, l), f.where(ret), msg)
        else:
            ctx.ok(rid, inst, f.where())
    ctx.floor(rid, n, 2, "native quotients corrected by their remainder")


EXT_CMP = {"lt_ext": "lt", "le_ext": "le", "gt_ext": "gt", "ge_ext": "ge", "eq_ext": "eq", "ne_ext": "ne", "cmp_ext": "cmp"}
_CLS = ("NAN", "MINF", "FIN", "PINF")
_CLS_TXT = {"NAN": "NaN", "MINF": "-inf", "FIN": "finite", "PINF": "+inf"}


def _ext_truth(op, cx, cy):
    """The answer on the extended reals with an unordered NaN; 'NATIVE' when both operands are finite."""
    if "NAN" in (cx, cy):
        return {"lt": False, "le": False, "gt": False, "ge": False, "eq": False, "ne": True, "cmp": "VR_EMPTY"}[op]
    if cx == "FIN" and cy == "FIN":
        return "NATIVE"
    rank = {"MINF": 0, "FIN": 1, "PINF": 2}
    c = (rank[cx] > rank[cy]) - (rank[cx] < rank[cy])
    return {"lt": c < 0, "le": c <= 0, "gt": c > 0, "ge": c >= 0, "eq": c == 0, "ne": c != 0, "cmp": {-1: "VR_LT", 0: "VR_EQ", 1: "VR_GT"}[c]}[op]


def _ext_interpret(f, st, fns, depth=0):
    """All values the comparison f can return on the abstract state st = {param: class}: True / False / 'VR_..' /
    'NATIVE' (the comparison of the underlying type was asked). The CFG is walked; every condition is decided by st,
    except ext_to_handle(v) on a finite v, which is followed both ways."""
    if depth > 4:
        raise _UnknownForm("recursion among the extended comparisons")
    params = [p["n"] for p in f.params]

    def cls_of(e):
        e = f.deref(e)
        t = f.text(e).strip()
        if e["k"] == "ref" and t in st:
            return st[t]
        raise _UnknownForm("argument `%s` at line %s is not a parameter" % (t[:30], e.get("l")))

    def ev(e):
        e = f.deref(e)
        k = e["k"]
        if k == "paren":
            return ev(e["c"][0])
        if k == "bool":
            return {f.text(e).strip() == "true"}
        if k == "ref" and f.text(e).strip().startswith("VR_"):
            return {f.text(e).strip()}
        if k == "unop" and e.get("op") == "!":
            return {v if v == "NATIVE" else (not v) for v in ev(e["c"][0])}
        if k in ("binop", "ocall") and e.get("op") in ("&&", "||"):
            a, b = e["c"][-2:]
            out = set()
            for av in ev(a):
                if av == "NATIVE":
                    raise _UnknownForm("native comparison inside a condition at line %s" % e.get("l"))
                if (e["op"] == "&&") == bool(av):
                    out |= ev(b)
                else:
                    out.add(bool(av))
            return out
        if k == "cond":
            c, a, b = e["c"][-3:]
            out = set()
            for cv in ev(c):
                out |= ev(a if cv else b)
            return out
        if k in ("call", "mcall"):
            cn = f.call_name(e).lstrip("~")
            args = f.call_args(e)
            if cn in ("is_nan", "is_minf", "is_pinf") and len(args) == 1:
                return {cls_of(args[0]) == {"is_nan": "NAN", "is_minf": "MINF", "is_pinf": "PINF"}[cn]}
            if cn == "ext_to_handle" and len(args) == 1:
                return {True} if cls_of(args[0]) != "FIN" else {True, False}
            if cn in fns and len(args) == 2:
                g = fns[cn]
                gp = [p["n"] for p in g.params]
                return _ext_interpret(g, {gp[0]: cls_of(args[0]), gp[1]: cls_of(args[1])}, fns, depth + 1)
            if len(args) == 2:
                if cls_of(args[0]) == "FIN" and cls_of(args[1]) == "FIN":
                    return {"NATIVE"}
                return {"NATIVE!"}       # the underlying comparison asked on a special value
            raise _UnknownForm("call `%s` at line %s" % (f.text(e)[:30], e.get("l")))
        raise _UnknownForm("expression `%s` at line %s" % (f.text(e)[:30], e.get("l")))

    blocks = {b["id"]: b for b in f.cfg["b"]}
    out = set()
    seen_edges = set()

    def walk(bid, depth_=0):
        if depth_ > 200:
            raise _UnknownForm("a loop in %s" % f.name)
        b = blocks[bid]
        for nid in b["e"]:
            n = f.nodes.get(nid)
            if n is not None and n["k"] == "return":
                out.update(ev(n["c"][0]))
                return
        if "tc" in b:
            for v in sorted(ev(f.nodes[b["tc"]]), key=str):
                if v in ("NATIVE", "NATIVE!"):
                    raise _UnknownForm("native comparison decides a branch in %s" % f.name)
                walk(b["s"][0] if v else b["s"][1], depth_ + 1)
        elif len(b["s"]) == 1:
            walk(b["s"][0], depth_ + 1)
        elif bid == f.cfg["exit"]:
            raise _UnknownForm("a path of %s ends without a return" % f.name)
        else:
            raise _UnknownForm("block %s of %s" % (bid, f.name))

    walk(f.cfg["entry"])
    return out


def r11_7(ctx):
    rid = "R11.7"
    ctx.rule(rid, "the extended comparisons agree with the order of the extended reals: each of lt_ext / le_ext / gt_ext / ge_ext / eq_ext / ne_ext / cmp_ext (checked_ext_inlines.hh) is interpreted on the 16 pairs of operand classes {NaN, -inf, finite, +inf} — is_nan / is_minf / is_pinf decided by the class, ext_to_handle followed both ways on a finite operand, calls to a sibling interpreted in turn with the arguments as passed — and must return, on every path, the answer of the extended reals with an unordered NaN (-inf < -inf is false, -inf <= -inf is true, NaN != x is true), and hand over to the comparison of the underlying type exactly when both operands are finite")
    fx = ctx.extract([F.driver_unit("all_headers.cc", file_re=r"checked_ext_inlines\.hh")])
    fns = {}
    for f in fx.functions:
        if f.flag("pattern") and f.name in EXT_CMP and len(f.params) == 2 and f.cfg:
            fns.setdefault(f.name, f)
    missing = sorted(set(EXT_CMP) - set(fns))
    ctx.require(rid, not missing, "extended comparisons not found in checked_ext_inlines.hh: %s" % ", ".join(missing))
    n = 0
    for name in sorted(fns):
        f = fns[name]
        op = EXT_CMP[name]
        px, py = [p["n"] for p in f.params]
        bad = []
        try:
            for cx in _CLS:
                for cy in _CLS:
                    n += 1
                    got = _ext_interpret(f, {px: cx, py: cy}, fns)
                    want = _ext_truth(op, cx, cy)
                    if got != {want}:
                        bad.append((cx, cy, got, want))
        except _UnknownForm as ex:
            raise F.AnalysisBroken("R11.7: %s: %s — the class interpretation does not know this form" % (name, ex))
        inst = "%s on the 16 operand classes" % name
        if bad:
            def show(v):
                return {"NATIVE": "the comparison of the underlying type", "NATIVE!": "the comparison of the underlying type (on a special value)"}.get(v, str(v).lower() if isinstance(v, bool) else v)
            for cx, cy, got, want in bad:
                ctx.violation(rid, "%s(%s, %s)" % (name, _CLS_TXT[cx], _CLS_TXT[cy]), f.where(), "for %s = %s and %s = %s the function answers %s; the extended reals say %s" % (
                    px, _CLS_TXT[cx], py, _CLS_TXT[cy], " or ".join(sorted(show(v) for v in got)), show(want)))
        else:
            ctx.ok(rid, inst, f.where())
    ctx.count(rid, "operand class pairs interpreted", n)
    ctx.floor(rid, n, 7 * 16, "operand class pairs interpreted")


_POLICY_NAME = re.compile(r"^(?:(To\d*|From\d*)_Policy|Policy(\d*))$")


def _expected_policies(f):
    """{parameter: the policy template parameter that describes it}, from the naming convention of the checked layer:
    a parameter of type To / From / From1 / From2 goes with To_Policy / From_Policy / ..., one of type Type1 / Type2 with
    Policy1 / Policy2. Parameters that share the single type `Type` are paired by position: the non-const reference is the
    destination (To_Policy), the sources follow in the order From1_Policy, From2_Policy (or From_Policy); in a function with
    the single policy `Policy` they all go with it."""
    exp = {}
    shared = []
    for p in f.params:
        t = re.sub(r"\bconst\b|&|\s", "", p["t"])
        if re.match(r"^(To\d*|From\d*)$", t):
            exp[p["n"]] = t + "_Policy"
        elif re.match(r"^Type\d+$", t):
            exp[p["n"]] = "Policy" + t[4:]
        elif t == "Type":
            shared.append(p)
    if shared:
        pols = set()
        for c in f.calls():
            for t in c.get("targs", ()):
                if _POLICY_NAME.match(t):
                    pols.add(t)
        if pols <= {"Policy"}:
            for p in shared:
                exp[p["n"]] = "Policy"
        else:
            src = shared
            if "&" in shared[0]["t"] and "const" not in shared[0]["t"]:
                exp[shared[0]["n"]] = "To_Policy"
                src = shared[1:]
            names = ["From1_Policy", "From2_Policy"] if pols & {"From1_Policy", "From2_Policy"} else (["From_Policy"] if "From_Policy" in pols else [])
            for p, nm in zip(src, names):
                exp[p["n"]] = nm
    return exp


def r11_8(ctx):
    rid = "R11.8"
    ctx.rule(rid, "an operand is looked at through its own policy: the special values of a checked operand (NaN, infinities, what an overflow does) are defined by the policy paired with it in the function's signature (To& to / To_Policy, From1& x / From1_Policy, Type2& y / Policy2, ...). Wherever a primitive of the checked layer names policies explicitly in a call — is_minf<P>(v), assign_special<P>(to, ..), lt_ext<P1, P2>(a, b), rem<To_Policy, From1_Policy, From2_Policy>(to, x, y, dir) — the i-th policy is the one of the i-th argument when that argument is a parameter of the function. A result fed back as an operand (`add_float<To_Policy, From_Policy, ..>(to, to, m, dir)`) is not judged")
    fx = ctx.extract([F.driver_unit("all_headers.cc", file_re=r"(checked_[a-z_]+|Checked_Number_inlines)\.hh")])
    seen = set()
    n = fed_back = 0
    for f in fx.functions:
        if not f.flag("pattern") or (f.relfile, f.line) in seen:
            continue
        seen.add((f.relfile, f.line))
        exp = _expected_policies(f)
        if not exp:
            continue
        for c in f.calls():
            ta = c.get("targs") or []
            args = f.call_args(c)
            for i, t in enumerate(ta):
                if not _POLICY_NAME.match(t) or i >= len(args):
                    continue
                a = f.deref(args[i])
                if a is None or a["k"] != "ref":
                    continue
                an = f.text(a).strip()
                if an not in exp:
                    continue
                if exp[an] == "To_Policy" and t.startswith("From"):
                    fed_back += 1
                    continue
                n += 1
                inst = "%s: %s<%s>(%s) argument %d (line %s)" % (f.name, f.call_name(c), ", ".join(ta), ", ".join(f.text(x).strip() for x in args), i + 1, c.get("l"))
                if exp[an] == t:
                    ctx.ok(rid, inst, f.where(c))
                else:
                    ctx.violation(rid, inst, f.where(c), "`%s` is classified with `%s`, but its policy in %s is `%s`: when the two policies differ (operands of different types, or one native and one extended) its NaN / infinity encodings are read with the wrong rules" % (an, t, f.name, exp[an]))
    ctx.count(rid, "results fed back as operands (not judged)", fed_back)
    ctx.floor(rid, n, 600, "explicit policy / parameter pairings")
    # (b) the free functions of Checked_Number_inlines.hh on native or checked operands: the policy is named as
    # Native_Checked_{To,From}_Wrapper<T>::Policy and the operand as raw_value(p): T is the declared type of p.
    wrap = re.compile(r"Native_Checked_(?:To|From)_Wrapper<\s*([A-Za-z0-9_]+)\s*>")
    seen = set()
    m = 0
    for f in fx.functions:
        if not f.flag("pattern") or "Checked_Number_inlines" not in f.file or (f.relfile, f.line) in seen:
            continue
        seen.add((f.relfile, f.line))
        ptypes = {p["n"]: re.sub(r"\bconst\b|&|\s", "", p["t"]) for p in f.params}
        for c in f.calls():
            ta = c.get("targs") or []
            args = f.call_args(c)
            for i, t in enumerate(ta):
                w = wrap.search(t)
                if not w or i >= len(args):
                    continue
                pm = re.match(r"^raw_value\((\w+)\)$", f.text(f.deref(args[i])).replace(" ", ""))
                if not pm or pm.group(1) not in ptypes:
                    continue
                m += 1
                inst = "%s: %s<..%s..>(..raw_value(%s)..) (line %s)" % (f.name, f.call_name(c), w.group(0), pm.group(1), c.get("l"))
                if ptypes[pm.group(1)] == w.group(1):
                    ctx.ok(rid, inst, f.where(c))
                else:
                    ctx.violation(rid, inst, f.where(c), "`%s` has type `%s` but is passed with the policy of `%s`" % (pm.group(1), ptypes[pm.group(1)], w.group(1)))
    ctx.floor(rid, m, 90, "wrapper policy / operand pairings")


# ---- R11.9: the extended arithmetic on the classes {NaN, -inf, negative, zero, positive, +inf} -----------------------
_C6 = ("NAN", "MINF", "NEG", "ZERO", "POS", "PINF")
_C6_TXT = {"NAN": "NaN", "MINF": "-inf", "NEG": "negative", "ZERO": "zero", "POS": "positive", "PINF": "+inf"}
_FINITE = ("NEG", "ZERO", "POS")
_SGN = {"MINF": -1, "NEG": -1, "ZERO": 0, "POS": 1, "PINF": 1}


def _inf_of(sign):
    return "PINF" if sign > 0 else "MINF"


def _x_add(cx, cy, code="V_INF_ADD_INF"):
    if "NAN" in (cx, cy):
        return "NAN"
    if {cx, cy} == {"MINF", "PINF"}:
        return "NAN:" + code
    for c in ("MINF", "PINF"):
        if c in (cx, cy):
            return c
    return "NATIVE"


def _x_neg(c):
    return {"MINF": "PINF", "PINF": "MINF", "NEG": "POS", "POS": "NEG"}.get(c, c)


def _x_mul(cx, cy):
    if "NAN" in (cx, cy):
        return "NAN"
    if cx in _FINITE and cy in _FINITE:
        return "NATIVE"
    if "ZERO" in (cx, cy):
        return "NAN:V_INF_MUL_ZERO"
    return _inf_of(_SGN[cx] * _SGN[cy])


def _x_div(cx, cy):
    if "NAN" in (cx, cy):
        return "NAN"
    if cx in ("MINF", "PINF"):
        if cy in ("MINF", "PINF"):
            return "NAN:V_INF_DIV_INF"
        if cy == "ZERO":
            return "NAN:V_DIV_ZERO"
        return _inf_of(_SGN[cx] * _SGN[cy])
    if cy in ("MINF", "PINF"):
        return "VAL:ZERO"
    return "NATIVE"


def _x_rem(cx, cy):
    if "NAN" in (cx, cy):
        return "NAN"
    if cx in ("MINF", "PINF"):
        return "NAN:V_INF_MOD"
    if cy in ("MINF", "PINF"):
        return "VAL:" + cx
    return "NATIVE"


def _x_addmul(ct, cx, cy, sub):
    if "NAN" in (ct, cx, cy):
        return "NAN"
    p = _x_mul(cx, cy)
    if p.startswith("NAN"):
        return p
    if p == "NATIVE":
        return ct if ct in ("MINF", "PINF") else "NATIVE"
    if sub:
        p = _x_neg(p)
    if {p, ct} == {"MINF", "PINF"}:
        return "NAN:" + ("V_INF_SUB_INF" if sub else "V_INF_ADD_INF")
    return p


def _unary(table):
    return lambda c: table.get(c, "NATIVE")


_IDENT = {"NAN": "NAN", "MINF": "MINF", "PINF": "PINF"}
# name -> (operand parameter names in order, expected(classes...)); `to` is an operand of the fused operations
EXT_ARITH = {
    "construct_ext": (("x",), _unary(_IDENT)), "assign_ext": (("x",), _unary(_IDENT)),
    "floor_ext": (("x",), _unary(_IDENT)), "ceil_ext": (("x",), _unary(_IDENT)), "trunc_ext": (("x",), _unary(_IDENT)),
    "neg_ext": (("x",), _unary({"NAN": "NAN", "MINF": "PINF", "PINF": "MINF"})),
    "abs_ext": (("x",), _unary({"NAN": "NAN", "MINF": "PINF", "PINF": "PINF"})),
    "add_2exp_ext": (("x",), _unary(_IDENT)), "sub_2exp_ext": (("x",), _unary(_IDENT)),
    "mul_2exp_ext": (("x",), _unary(_IDENT)), "div_2exp_ext": (("x",), _unary(_IDENT)),
    "smod_2exp_ext": (("x",), _unary({"NAN": "NAN", "MINF": "NAN:V_INF_MOD", "PINF": "NAN:V_INF_MOD"})),
    "umod_2exp_ext": (("x",), _unary({"NAN": "NAN", "MINF": "NAN:V_INF_MOD", "PINF": "NAN:V_INF_MOD"})),
    "sqrt_ext": (("x",), _unary({"NAN": "NAN", "MINF": "NAN:V_SQRT_NEG", "PINF": "PINF"})),
    "add_ext": (("x", "y"), lambda a, b: _x_add(a, b)),
    "sub_ext": (("x", "y"), lambda a, b: _x_add(a, _x_neg(b), "V_INF_SUB_INF")),
    "mul_ext": (("x", "y"), _x_mul),
    "div_ext": (("x", "y"), _x_div), "idiv_ext": (("x", "y"), _x_div),
    "rem_ext": (("x", "y"), _x_rem),
    "add_mul_ext": (("to", "x", "y"), lambda t, a, b: _x_addmul(t, a, b, False)),
    "sub_mul_ext": (("to", "x", "y"), lambda t, a, b: _x_addmul(t, a, b, True)),
}
# not interpreted: the value of gcd / lcm of an infinity is a convention of the library, not a fact of the extended reals
EXT_ARITH_SKIPPED = ("gcd_ext", "gcdext_ext", "lcm_ext", "output_ext", "input_ext", "sgn_ext")


def _arith_interpret(f, st):
    """All the outcomes of the extended primitive f on the operand classes st (CFG walk): 'NAN', 'NAN:V_code', 'MINF',
    'PINF', 'VAL:<class>' (a plain value of that class stored, reported exact), 'NATIVE' (the primitive of the
    underlying type called on finite operands), 'NATIVE!' (called with a special value among its operands)."""
    SPECIAL = {"VC_NAN": "NAN", "VC_MINUS_INFINITY": "MINF", "VC_PLUS_INFINITY": "PINF"}

    def cls_of(e):
        e = f.deref(e)
        t = f.text(e).strip()
        if e["k"] == "ref" and t in st:
            return st[t]
        return None

    def ev(e):
        e = f.deref(e)
        k = e["k"]
        t = f.text(e).replace(" ", "")
        if k == "paren":
            return ev(e["c"][0])
        if k == "bool":
            return {t == "true"}
        if k == "ref" and (t.startswith("check_") or "::check_" in t):
            return {True}        # the checking configuration: with the check off the case is excluded by contract
        if k == "ref" and t.startswith("VR_"):
            return {t}
        if k == "unop" and e.get("op") == "!":
            return {not v for v in ev(e["c"][0])}
        if k in ("binop", "ocall") and e.get("op") == ",":
            return ev(e["c"][-1])
        if k in ("binop", "ocall") and e.get("op") in ("&&", "||"):
            a, b = e["c"][-2:]
            out = set()
            for av in ev(a):
                if (e["op"] == "&&") == bool(av):
                    out |= ev(b)
                else:
                    out.add(bool(av))
            return out
        if k == "cond":
            c, a, b = e["c"][-3:]
            out = set()
            for cv in ev(c):
                out |= ev(a if cv else b)
            return out
        if k in ("call", "mcall"):
            cn = f.call_name(e).lstrip("~")
            args = f.call_args(e)
            c0 = cls_of(args[0]) if args else None
            if cn in ("is_nan", "is_minf", "is_pinf") and c0 is not None:
                return {c0 == {"is_nan": "NAN", "is_minf": "MINF", "is_pinf": "PINF"}[cn]}
            if cn == "ext_to_handle" and c0 is not None:
                return {True} if c0 not in _FINITE else {True, False}
            if cn == "sgn_ext" and c0 is not None:
                return {"VR_EMPTY"} if c0 == "NAN" else {{-1: "VR_LT", 0: "VR_EQ", 1: "VR_GT"}[_SGN[c0]]}
            if cn == "sgn" and c0 is not None:
                if c0 not in _FINITE:
                    return {"NATIVE!"}
                return {{-1: "VR_LT", 0: "VR_EQ", 1: "VR_GT"}[_SGN[c0]]}
        raise _UnknownForm("condition `%s` at line %s" % (f.text(e)[:40], e.get("l")))

    def outcome(ret, to_cls):
        e = f.deref(ret["c"][0])
        t = f.text(e).replace(" ", "")
        if e["k"] in ("call", "mcall"):
            cn = f.call_name(e).lstrip("~")
            args = f.call_args(e)
            if cn in ("assign_special", "construct_special") and len(args) >= 2:
                c = f.text(f.deref(args[1])).strip()
                if c in SPECIAL:
                    return SPECIAL[c]
            if cn == "assign_nan" and len(args) == 2:
                return "NAN:" + f.text(f.deref(args[1])).strip()
            ops = [cls_of(a) for a in args]
            ops = [c for c in ops if c is not None]
            if ops:
                return "NATIVE" if all(c in _FINITE for c in ops) else "NATIVE!"
        if e["k"] == "ref" and t == "V_EQ" and to_cls is not None:
            return "VAL:" + to_cls
        raise _UnknownForm("terminal `%s` at line %s" % (t[:40], ret.get("l")))

    blocks = {b["id"]: b for b in f.cfg["b"]}
    out = set()

    def walk(bid, to_cls, depth):
        if depth > 300:
            raise _UnknownForm("a loop in %s" % f.name)
        b = blocks[bid]
        for nid in b["e"]:
            n = f.nodes.get(nid)
            if n is None:
                continue
            if n["k"] == "assign" and f.text(f.deref(n["c"][0])).strip() == "to":
                r = f.deref(n["c"][1])
                rt = f.text(r).strip()
                to_cls = "ZERO" if rt == "0" else cls_of(r)
                if to_cls is None:
                    raise _UnknownForm("`to = %s` at line %s" % (rt[:20], n.get("l")))
            if n["k"] == "return":
                out.add(outcome(n, to_cls))
                return
        if b.get("tk") == "SwitchStmt":
            for v in ev(f.nodes[b["tc"]]):
                if v == "NATIVE!":
                    out.add("NATIVE!")
                    continue
                target = default = None
                for sid in b["s"]:
                    lbl = f.nodes.get(blocks[sid].get("lbl"))
                    if lbl is None:
                        raise _UnknownForm("switch successor without a label in %s" % f.name)
                    if lbl["k"] == "default":
                        default = sid
                    elif lbl["k"] == "case":
                        cv = f.text(f.deref(lbl["c"][0])).strip() if lbl.get("c") else f.text(lbl)
                        if cv == v:
                            target = sid
                if target is None:
                    target = default
                if target is None:
                    raise _UnknownForm("switch without a default in %s" % f.name)
                walk(target, to_cls, depth + 1)
        elif "tc" in b:
            for v in sorted(ev(f.nodes[b["tc"]]), key=str):
                if v == "NATIVE!":
                    out.add("NATIVE!")
                    continue
                walk(b["s"][0] if v else b["s"][1], to_cls, depth + 1)
        elif len(b["s"]) == 1:
            walk(b["s"][0], to_cls, depth + 1)
        else:
            raise _UnknownForm("block %s of %s" % (bid, f.name))

    walk(f.cfg["entry"], None, 0)
    return out


def r11_9(ctx):
    import itertools
    rid = "R11.9"
    ctx.rule(rid, "the extended arithmetic classifies special values as the extended reals do: each *_ext primitive of checked_ext_inlines.hh (22 functions: copies, neg, abs, floor/ceil/trunc, add, sub, mul, div, idiv, rem, the fused add_mul / sub_mul with the destination as third operand, the 2exp family, sqrt) is interpreted on every combination of operand classes {NaN, -inf, negative, zero, positive, +inf} — is_nan / is_minf / is_pinf / sgn_ext decided by the class, switch arms chosen by the sign, CHECK_P taken in the checking configuration, ext_to_handle followed both ways on finite operands — and every path must end in the outcome of the extended reals: NaN in, NaN out; inf + -inf, inf - inf, inf * 0, inf / inf, inf / 0, inf mod y, sqrt(-inf) are the undefined results with their own codes; an infinity with the sign the operation gives it; finite / inf is a stored zero; x mod inf is x; and the primitive of the underlying type is called exactly when every operand is finite (never on the encoding of a special value). gcd / lcm of infinities are conventions and are not judged")
    fx = ctx.extract([F.driver_unit("all_headers.cc", file_re=r"checked_ext_inlines\.hh")])
    fns = {}
    others = set()
    for f in fx.functions:
        if f.flag("pattern") and f.name.endswith("_ext") and f.cfg:
            if f.name in EXT_ARITH:
                fns.setdefault(f.name, f)
            elif f.name not in EXT_CMP and f.name not in EXT_ARITH_SKIPPED:
                others.add(f.name)
    ctx.require(rid, not others, "extended primitives the rule does not know: %s" % ", ".join(sorted(others)))
    missing = sorted(set(EXT_ARITH) - set(fns))
    ctx.require(rid, not missing, "extended primitives not found in checked_ext_inlines.hh: %s" % ", ".join(missing))
    n = 0
    for name in sorted(fns):
        f = fns[name]
        ops, expected = EXT_ARITH[name]
        pn = [p["n"] for p in f.params]
        ctx.require(rid, all(o in pn for o in ops), "%s no longer has the parameters %s" % (name, ", ".join(ops)))
        bad = []
        try:
            for combo in itertools.product(_C6, repeat=len(ops)):
                n += 1
                got = _arith_interpret(f, dict(zip(ops, combo)))
                want = expected(*combo)
                if got != {want}:
                    bad.append((combo, got, want))
        except _UnknownForm as ex:
            raise F.AnalysisBroken("R11.9: %s: %s — the class interpretation does not know this form" % (name, ex))

        def show(v):
            if v == "NATIVE":
                return "the primitive of the underlying type"
            if v == "NATIVE!":
                return "the primitive of the underlying type, called on a special value"
            if v.startswith("VAL:"):
                return "a stored %s value reported exact" % _C6_TXT[v[4:]]
            if v.startswith("NAN:"):
                return "NaN (%s)" % v[4:]
            return _C6_TXT.get(v, v)
        if bad:
            for combo, got, want in bad:
                ctx.violation(rid, "%s(%s)" % (name, ", ".join(_C6_TXT[c] for c in combo)), f.where(),
                              "for %s the function ends in %s; the extended reals give %s" % (", ".join("%s = %s" % (o, _C6_TXT[c]) for o, c in zip(ops, combo)), " or ".join(sorted(show(v) for v in got)), show(want)))
        else:
            ctx.ok(rid, "%s on %d operand class combinations" % (name, len(_C6) ** len(ops)), f.where())
    ctx.count(rid, "operand class combinations interpreted", n)
    ctx.floor(rid, n, 14 * 6 + 6 * 36 + 2 * 216, "operand class combinations interpreted")


def r11_10(ctx):
    rid = "R11.10"
    ctx.rule(rid, "the unchecked unit step has room: round_lt_int_no_overflow / round_gt_int_no_overflow move the stored integer by one WITHOUT looking at the limits of the type (their checked siblings round_lt_int / round_gt_int classify the overflow). They may only follow a store that leaves room: on every path to the call the last write of `to` is a native quotient `x / y` or right shift `x >> n` of an operand (inexact, hence strictly smaller in magnitude than the operand) or the literal 0. After a conversion or any other callee wrote `to`, the value may sit on the limit and the step wraps (or lands on the encoding of an infinity or NaN) with a plain V_LT / V_GT")
    fx = ctx.extract([F.driver_unit("all_headers.cc", file_re=r"checked_int_inlines\.hh")])
    seen = set()
    n = 0
    for f in fx.functions:
        if not f.flag("pattern") or (f.relfile, f.line) in seen or not f.cfg:
            continue
        seen.add((f.relfile, f.line))
        calls = [c for c in f.calls() if f.call_name(c).lstrip("~") in ("round_lt_int_no_overflow", "round_gt_int_no_overflow")]
        if not calls or f.name in ("round_lt_int", "round_gt_int"):
            continue

        def roomy(nod):
            """a write of `to` that leaves room for a unit step"""
            if nod["k"] != "assign":
                return None
            if f.text(f.deref(nod["c"][0])).strip() != "to":
                return None
            r = f.deref(nod["c"][1])
            t = f.text(r).replace(" ", "")
            if t == "0":
                return True
            for x in f.walk(r):
                if x["k"] in ("binop", "ocall") and x.get("op") in ("/", ">>"):
                    return True
            return False

        def other_write(nod):
            """`to` handed to a callee as its destination (first argument)"""
            if nod["k"] in ("call", "mcall") and f.call_name(nod).lstrip("~") not in ("round_lt_int_no_overflow", "round_gt_int_no_overflow"):
                a = f.call_args(nod)
                return bool(a) and f.text(f.deref(a[0])).strip() == "to"
            return False
        for c in calls:
            n += 1
            inst = "%s: %s (line %s)" % (f.name, f.call_name(c), c.get("l"))
            # walk backwards over the CFG from the call: every path must meet a roomy write before any other write / the entry
            bad = flow.must_precede(f, c, lambda nod: roomy(nod) is True)
            blocked = None
            if bad is None:
                # a non-roomy write between the roomy one and the call?
                for w in f.walk():
                    if (roomy(w) is False or other_write(w)) and flow.reachable_between(f, w, lambda x: x is c, blocked=lambda x: roomy(x) is True):
                        blocked = w
                        break
            if bad is None and blocked is None:
                ctx.ok(rid, inst, f.where(c))
            elif blocked is not None:
                ctx.violation(rid, inst, f.where(c), "`to` was last written by `%s` (line %s), which can store a limit of the type: the unchecked step then wraps" % (f.text(blocked)[:50], blocked.get("l")))
            else:
                ctx.violation(rid, inst, f.where(c), "a path reaches the unchecked step without a native quotient, shift or 0 having been stored in `to` (%s): the value may sit on a limit of the type" % flow.render_path(f, bad))
    ctx.floor(rid, n, 8, "unchecked unit steps")


R1111_PAIRS = (("checked_mpz_inlines", "construct_mpz_float", "assign_mpz_float"),
               ("checked_mpq_inlines", "construct_mpq_float", "assign_mpq_float"),
               ("checked_ext_inlines", "construct_ext", "assign_ext"))
# construct_mpz_base / construct_mpq_base have no assign_* twin of their own (the assignment goes through assign_exact)


def _decision_skeleton(f):
    """[(guards, terminal)] for every return of f in source order: the conditions of the enclosing ifs (negated for
    else-arms, earlier early-returning ifs included as negated guards) and the returned expression, with locals
    renamed by order of declaration and the construct_* spellings of a callee replaced by the assign_* ones."""
    ren = {}
    for v in f.walk():
        if v["k"] == "var" and v.get("n"):
            ren.setdefault(v["n"], "L%d" % len(ren))

    def norm(e):
        t = f.text(e).replace(" ", "")
        t = re.sub(r"\bconstruct_special\b", "assign_special", t)
        t = re.sub(r"\bconstruct\b", "assign", t)
        for a, b in ren.items():
            t = re.sub(r"\b%s\b" % re.escape(a), b, t)
        return t
    out = []

    def always_returns(n):
        n = f.deref(n)
        if n is None:
            return False
        if n["k"] == "return":
            return True
        if n["k"] == "block":
            return any(always_returns(c) for c in n["c"])
        if n["k"] == "if":
            return n["c"][4] is not None and always_returns(n["c"][3]) and always_returns(n["c"][4])
        if n["k"] == "label":
            return any(always_returns(c) for c in n.get("c", ()))
        return False

    def walk(n, guards):
        n = f.deref(n)
        if n is None:
            return guards
        k = n["k"]
        if k == "block":
            g = list(guards)
            for c in n["c"]:
                g = walk(c, g)
            return guards
        if k == "if":
            cond = norm(n["c"][2])
            walk(n["c"][3], guards + [cond])
            if n["c"][4] is not None:
                walk(n["c"][4], guards + ["!" + cond])
            if always_returns(n["c"][3]) and n["c"][4] is None:
                return guards + ["!" + cond]
            return guards
        if k == "return":
            out.append((tuple(guards), norm(n["c"][0]) if n.get("c") else ""))
            return guards
        if k == "label":
            for c in n.get("c", ()):
                guards = walk(c, guards)
            return guards
        return guards
    walk(f.ast, [])
    return out


def r11_11(ctx):
    rid = "R11.11"
    ctx.rule(rid, "a constructing conversion decides like its assigning twin: construct_X builds the destination in raw storage, assign_X overwrites an existing one; the conversion — which special value, which rounded integer, which relation is reported — is the same. For each pair the sequence of (guards, returned expression) is compared after renaming locals and replacing construct_special by assign_special: a guard or terminal present in one twin only is a case one of them decides differently (construct_mpz_float chose the correction from the sign of the source instead of the direction rint() rounded)")
    fx = ctx.extract([F.driver_unit("all_headers.cc", file_re=r"(checked_mpz_inlines|checked_mpq_inlines|checked_ext_inlines)\.hh")])
    by = {}
    for f in fx.functions:
        if f.flag("pattern"):
            by.setdefault((os.path.basename(f.file).split(".")[0], f.name), f)
    n = 0
    for fil, a, b in R1111_PAIRS:
        fa, fb = by.get((fil, a)), by.get((fil, b))
        ctx.require(rid, fa is not None and fb is not None, "%s / %s not found in %s.hh" % (a, b, fil))
        n += 1
        sa, sb = _decision_skeleton(fa), _decision_skeleton(fb)
        inst = "%s / %s" % (a, b)
        if sa == sb:
            ctx.ok(rid, inst, fa.where())
            continue
        k = 0
        while k < min(len(sa), len(sb)) and sa[k] == sb[k]:
            k += 1
        da = sa[k] if k < len(sa) else None
        db = sb[k] if k < len(sb) else None
        show = lambda d: "nothing further" if d is None else "`return %s` under [%s]" % (d[1][:50], "; ".join(g[:40] for g in d[0][-3:]))
        ctx.violation(rid, inst, fa.where(), "decision %d differs: %s has %s, %s has %s" % (k + 1, a, show(da), b, show(db)))
    ctx.floor(rid, n, 3, "construct / assign pairs")


def run(ctx):
    ctx.explanation = ("C11 discipline clauses: encodings and policies as compile-time witnesses (also with bounded coefficients), routing of every primitive's Result into the "
                       "policy, FPU rounding-mode pairing, and — thorough tier — a type-check of the whole library with bounded coefficients; the arithmetic of the primitives is not decided")
    ctx.assumptions = ["the value/relation arithmetic of each checked primitive over all operands needs exhaustive or symbolic evaluation (another technique family): not decided",
                       "rules on Checked_Number_inlines.hh / checked_float_inlines.hh work on template patterns"]
    fx = ctx.extract(units())
    r11_1(ctx, ctx.tier)
    r11_2(ctx, fx)
    r11_2b(ctx)
    r11_4(ctx, fx)
    r11_5(ctx)
    r11_6(ctx)
    r11_7(ctx)
    r11_8(ctx)
    r11_9(ctx)
    r11_10(ctx)
    r11_11(ctx)
    if ctx.tier == "thorough":
        r11_3(ctx)
