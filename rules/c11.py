"""C11 — checked arithmetic: discipline and encodings (the arithmetic of the primitives is not decided).

R11.1 WITNESSES      policy constants, Rounding_Dir / Result algebra, and the encodings of the special
                     values of extended native integers (outside the ordinary range, pairwise distinct),
                     in the release view and in the bounded-coefficient views (static_assert TUs)
R11.2 HANDLE-RESULT  every Checked_Number member/operator that does not itself return a Result
                     routes the Result of the checked primitive it calls into Policy::handle_result;
                     the bounded-coefficient policy throws on overflow / NaN
R11.3 BOUNDED-BUILD  the whole library type-checks with Checked_Number<intN_t> coefficients (thorough)
R11.4 FPU-PAIRING    fpu_save_rounding_direction is restored on every path; every
                     `return result_relation<P>(dir)` is preceded by prepare_inexact<P>(dir)
"""
import os
import re
import subprocess

from pplv import facts as F
from pplv import flow
from pplv import witness

RESULT_CALL = re.compile(r"(_assign_r$|^assign_r$|^input$|^output$|^assign_ext$|^assign_special$|^construct_ext$|^neg_ext$)")


def units():
    return [F.driver_unit("all_headers.cc", file_re=r"(Checked_Number_inlines|checked_float_inlines|Coefficient_inlines|checked_inlines)\.hh")]


def r11_1(ctx, tier):
    rid = "R11.1"
    ctx.rule(rid, "compile-time witnesses of the policies and of the Rounding_Dir / Result / Boundary_Type encodings, in the release configuration and with bounded (checked intN_t) coefficients")
    views = ["release", "bounded32"] + (["bounded8", "bounded16", "bounded64"] if tier == "thorough" else [])
    for src, least in (("policies.cc", 25), ("checked.cc", 54)):
        for v in views:
            ids, failed = witness.run(src, v, ctx.repo)
            ctx.require(rid, len(ids) >= least, "witness TU %s has only %d assertions in view %s" % (src, len(ids), v))
            for i in ids:
                inst = "%s@%s" % (i, v)
                if i in failed:
                    ctx.violation(rid, inst, "tool/witness/" + src, "static_assert failed: " + failed[i])
                else:
                    ctx.ok(rid, inst, "tool/witness/" + src)


def r11_2(ctx, fx):
    rid = "R11.2"
    ctx.rule(rid, "result routing: in Checked_Number_inlines.hh every function that does not return a Result and calls a checked primitive (a *_assign_r / assign_r / input / output / Checked::* operation) passes that primitive's Result to Policy::handle_result — otherwise an overflow is silently dropped instead of raising")
    n = 0
    seen = set()
    for f in fx.functions:
        if not f.file.endswith("Checked_Number_inlines.hh") or (f.relfile, f.line, f.sig()) in seen:
            continue
        seen.add((f.relfile, f.line, f.sig()))
        if "Result" in f.j.get("ret", "") or f.name == "handle_result":
            continue
        calls = [c for c in f.calls() if RESULT_CALL.search(f.call_name(c) or "")]
        if not calls:
            continue
        for c in calls:
            n += 1
            inst = "%s calls %s" % (re.sub(r"\s+", " ", F.strip_ns(f.sig()))[:70], f.call_name(c))
            routed = any(a["k"] in ("call", "mcall") and f.call_name(a) in ("handle_result", "check_result") for a in f.ancestors(c))
            if not routed:
                # stored in a local Result that is handed over later
                p = f.parent.get(c["i"])
                while p is not None and p["k"] in ("cast",):
                    p = f.parent.get(p["i"])
                if p is not None and p["k"] in ("var", "assign"):
                    name = p["n"] if p["k"] == "var" else f.text(f.deref(p["c"][0]))
                    routed = any(f.call_name(h) == "handle_result" and any(x["k"] == "ref" and x.get("n") == name for x in f.walk(h))
                                 for h in f.calls())
            if routed:
                ctx.ok(rid, inst, f.where(c))
            else:
                ctx.violation(rid, inst, f.where(c), "the Result of `%s` is dropped: the operation neither reports nor raises on overflow / inexactness" % f.call_name(c))
    ctx.floor(rid, n, 90, "checked primitives called from non-Result functions")


def r11_2b(ctx):
    rid = "R11.2"
    fx = ctx.extract([F.Unit(os.path.join(F.VERIF, "drivers", "all_headers.cc"), view="bounded32",
                             file_re=r"Coefficient_inlines\.hh", name_re=r"handle_result")])
    fs = [f for f in fx.functions if f.name == "handle_result" and "Bounded_Integer_Coefficient_Policy" in f.q]
    if not fs:
        raise F.AnalysisBroken("R11.2: Bounded_Integer_Coefficient_Policy::handle_result not found in the bounded view")
    f = fs[0]
    inst = "Bounded_Integer_Coefficient_Policy::handle_result raises on overflow and NaN"
    ok = False
    for i in f.walk():
        if i["k"] == "if":
            ct = f.text(f.deref(i["c"][2]))
            if "result_overflow(r)" in ct and "VC_NAN" in ct and "||" in ct and \
                    any(f.call_name(c) == "throw_result_exception" for c in f.calls(f.deref(i["c"][3]))):
                ok = True
    if ok:
        ctx.ok(rid, inst, f.where())
    else:
        ctx.violation(rid, inst, f.where(), "the bounded-coefficient policy no longer throws when the Result says overflow or NaN")


def r11_3(ctx):
    rid = "R11.3"
    ctx.rule(rid, "bounded builds type-check: every library source parses without diagnostics with PPL_COEFFICIENT_TYPE = Checked_Number<intN_t, Bounded_Integer_Coefficient_Policy>, N in 8, 16, 32, 64 (a configuration the test suite, built with mpz coefficients, never compiles)")
    names = F.library_sources(ctx.repo)
    import concurrent.futures

    def one(args):
        v, nme = args
        cmd = ["clang++", "-fsyntax-only"] + F.base_flags(v, ctx.repo) + [os.path.join(ctx.repo, "src", nme)]
        r = subprocess.run(cmd, capture_output=True, text=True)
        errs = [l for l in r.stderr.splitlines() if "error:" in l]
        return v, nme, errs
    jobs = [(v, nme) for v in ("bounded8", "bounded16", "bounded32", "bounded64") for nme in names]
    with concurrent.futures.ThreadPoolExecutor(max_workers=16) as ex:
        for v, nme, errs in ex.map(one, jobs):
            inst = "%s@%s" % (nme, v)
            if errs:
                ctx.violation(rid, inst, "src/" + nme, "does not type-check with bounded coefficients: " + errs[0][:200])
            else:
                ctx.ok(rid, inst, "src/" + nme)


def r11_4(ctx, fx):
    rid = "R11.4"
    ctx.rule(rid, "FPU pairing in checked_float_inlines.hh: the value returned by fpu_save_rounding_direction reaches fpu_restore_rounding_direction on every path (no return in between), and every `return result_relation<P>(dir)` is preceded on every path by prepare_inexact<P>(dir) (otherwise a stale inexact flag makes the reported relation false)")
    n = 0
    seen = set()
    for f in fx.functions:
        if not f.file.endswith("checked_float_inlines.hh") or (f.relfile, f.line) in seen or not f.cfg:
            continue
        seen.add((f.relfile, f.line))
        for c in f.calls():
            nm = f.call_name(c)
            if nm == "fpu_save_rounding_direction":
                n += 1
                inst = "%s save/restore" % f.name
                p = flow.must_follow(f, c, lambda x: x["k"] in ("call", "mcall") and f.call_name(x) == "fpu_restore_rounding_direction")
                if p is None:
                    ctx.ok(rid, inst, f.where(c))
                else:
                    ctx.violation(rid, inst, f.where(c), "a path leaves the function with the FPU rounding mode still switched: " + flow.render_path(f, p))
        for r in f.walk():
            if r["k"] == "return" and r.get("c") and "result_relation" in f.text(r):
                n += 1
                inst = "%s return result_relation" % f.name
                p = flow.must_precede(f, r, lambda x: x["k"] in ("call", "mcall") and f.call_name(x) == "prepare_inexact")
                if p is None:
                    ctx.ok(rid, inst, f.where(r))
                else:
                    ctx.violation(rid, inst, f.where(r), "the inexact flag is read without having been reset first (prepare_inexact)")
    ctx.floor(rid, n, 18, "FPU save sites + result_relation returns")


CONV = {"conv_ss": "assign_signed_int_signed_int", "conv_su": "assign_signed_int_unsigned_int",
        "conv_us": "assign_unsigned_int_signed_int", "conv_uu": "assign_unsigned_int_unsigned_int"}


def r11_5(ctx):
    """Native integer -> native integer conversions: range checks present wherever the instantiation needs them."""
    rid = "R11.5"
    ctx.rule(rid, "conversion range checks: for every instantiation of assign_{signed,unsigned}_int_{signed,unsigned}_int over 5 destination types x 5 source types x 4 destination policies x 4 source policies (has_infinity / has_nan on or off; drivers/int_conv.cc), the compiler computes from the library's own Extended_Int constants whether an ordinary source value can lie below (NeedLo) or above (NeedHi) the destination's ordinary range; where it can, every path of the instantiated function (branches the compiler folds to a constant are followed as folded) from entry to the plain copy `to = from` passes the false edge of a test `from < ...` (resp. `from > ...`) — otherwise an out-of-range value is copied bit for bit, lands on the encoding of an infinity or NaN (or wraps) and is reported as exact")
    u = F.driver_unit("int_conv.cc", file_re=r"(checked_int_inlines\.hh|int_conv\.cc)",
                      name_re=r"::(conv_|assign_(un)?signed_int_(un)?signed_int)")
    u.root2 = os.path.join(F.VERIF, "drivers")
    fx = ctx.extract([u])
    inst = {}
    for f in fx.functions:
        if f.name in CONV.values() and not f.flag("pattern") and f.cfg:
            inst[(f.name, tuple(f.j.get("targs") or ()))] = f
    n = needed = 0
    per = {}
    for w in fx.functions:
        if w.name not in CONV or w.flag("pattern"):
            continue
        ta = tuple(w.j.get("targs") or ())
        ctx.require(rid, len(ta) == 6 and ta[4] in ("true", "false") and ta[5] in ("true", "false"), "unexpected template arguments of %s: %s" % (w.name, ta))
        f = inst.get((CONV[w.name], ta[:4]))
        ctx.require(rid, f is not None, "instantiation %s<%s> not found" % (CONV[w.name], ", ".join(ta[:4])))
        copies = [a for a in f.walk() if a["k"] in ("assign", "ocall") and (a["k"] == "assign" or a.get("op") == "=")
                  and f.deref(a["c"][0]) is not None and f.deref(a["c"][0]).get("n") == "to" and "from" in f.text(a)]
        ctx.require(rid, len(copies) == 1, "%s: the plain copy `to = from` was not found (or is not unique)" % f.name)
        copy = copies[0]

        def cmp_in(cond, op):
            for x in f.walk(cond):
                if x["k"] in ("binop", "ocall") and x.get("op") in ("<", ">", "<=", ">="):
                    cs = [f.deref(c) for c in x["c"]][-2:]
                    o = x["op"]
                    l, r = cs
                    lf = l is not None and any(y["k"] == "ref" and y.get("n") == "from" for y in f.walk(l))
                    rf = r is not None and any(y["k"] == "ref" and y.get("n") == "from" for y in f.walk(r))
                    if lf == rf:
                        continue
                    if rf:
                        o = {"<": ">", ">": "<", "<=": ">=", ">=": "<="}[o]
                    if o[0] == op:
                        return True
            return False

        # the `if` statements whose condition tests `from` from below / above
        guards = {"<": set(), ">": set()}
        for i in f.walk():
            if i["k"] == "if":
                for op in "<>":
                    if cmp_in(f.deref(i["c"][2]), op):
                        guards[op].add(f.deref(i["c"][2])["i"])
        for flag, op, what in ((ta[4], "<", "below"), (ta[5], ">", "above")):
            n += 1
            label = "%s<%s> %s" % (f.name, ", ".join(ta[:4]), "lower check" if op == "<" else "upper check")
            if flag != "true":
                per[(w.name, "not needed")] = per.get((w.name, "not needed"), 0) + 1
                ctx.ok(rid, label + " (not needed)", f.where())
                continue
            needed += 1

            def eb(tc, taken, op=op):
                if tc.get("cv") is not None and taken != tc["cv"]:
                    return True
                return (not taken) and tc["i"] in guards[op]
            p = flow.Explorer(f, track_env=False).find_path("ENTRY", lambda x: False, target=lambda x: x["i"] == copy["i"], edge_blocked=eb)
            if p is None:
                per[(w.name, "checked")] = per.get((w.name, "checked"), 0) + 1
                ctx.ok(rid, label, f.where(copy))
            else:
                ctx.violation(rid, label, f.where(copy), "an ordinary source value can lie %s the destination's ordinary range (Extended_Int constants of this instantiation), yet the copy `to = from` is reached without the test `from %s ...` (path %s; folded branches followed): the value is copied bit for bit and reported as V_EQ" % (what, op, flow.render_path(f, p)))
    for k in sorted(per):
        ctx.count(rid, "%s %s" % k, per[k])
    ctx.floor(rid, n, 3200, "conversion instantiations x bounds")
    ctx.floor(rid, needed, 1000, "bounds that need a check")


def run(ctx):
    ctx.explanation = ("C11 discipline clauses: encodings and policies as compile-time witnesses (also with bounded coefficients), routing of every primitive's Result into the "
                       "policy, FPU rounding-mode pairing, and — thorough tier — a type-check of the whole library with bounded coefficients; the arithmetic of the primitives is not decided")
    ctx.assumptions = ["the value/relation arithmetic of each checked primitive over all operands needs exhaustive or symbolic evaluation (another technique family): not decided",
                       "rules on Checked_Number_inlines.hh / checked_float_inlines.hh work on template patterns"]
    fx = ctx.extract(units())
    r11_1(ctx, ctx.tier)
    r11_2(ctx, fx)
    r11_2b(ctx)
    r11_4(ctx, fx)
    r11_5(ctx)
    if ctx.tier == "thorough":
        r11_3(ctx)
