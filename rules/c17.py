"""C17 — integer-aware operators: structural clauses of the generic wrap_assign (wrap_assign.hh),
which serves polyhedra, BD shapes, octagons (and, through them, powersets and products).

R17.1 FLOOR-QUADRANTS   the four divisions computing the quadrant indices round down
R17.2 EVERY-DIMENSION   on every path through one iteration of the per-variable loop the variable
                        is either proved to need no wrapping (both quadrant indices 0), handled by
                        the overflow-impossible branch, set to the full range, translated at once
                        (hull of the translated copies) or recorded for later translation
R17.3 FULL-RANGE        every unconstrain(v) is followed on every path by the insertion of both
                        range bounds `min_value <= v` and `v <= max_value`
R17.4 IMPOSSIBLE-BOUNDS in the overflow-impossible branch the lower bound is added when the first
                        quadrant is negative and the upper bound when the last one is positive
R17.5 QUADRANT-LOOPS    each loop over quadrants runs from first_quadrant to last_quadrant
                        inclusive, translates by `x - quadrant * 2^w`, and each translated copy is
                        refined with both range bounds and joined
R17.6 WHOLE-MODULUS     Interval::wrap_assign (rational / floating boxes) reduces the two ends
                        modulo 2^w only when the interval is shorter than 2^w: the shortcut to the
                        full range is taken when upper - 2^w >= lower (non-strict)
R17.7 HALF-BOUNDARY     the comparison-based smod_2exp_* reductions send the value 2^(w-1) itself
                        to the negative side (non-strict on the upper half, strict on the lower)
Soundness over the integer points is numeric: not decided.
"""
import re
from pplv import facts as F
from pplv import flow


def units():
    return [F.driver_unit("all_headers.cc", file_re=r"wrap_assign\.hh")]


def refs(f, n):
    return set(x["n"] for x in f.walk(n) if x["k"] == "ref" and x.get("dk") in ("local", "param"))


def bound_kind(f, a):
    """('lower'|'upper', variable name) for `min_value <= v` / `v <= max_value` (and the >= forms)."""
    for x in f.walk(a):
        if x["k"] in ("ocall", "binop", "call") and x.get("op") in ("<=", ">="):
            cs = [f.deref(c) for c in x.get("c", ())]
            if len(cs) != 2:
                continue
            l, r = refs(f, cs[0]), refs(f, cs[1])
            if x["op"] == ">=":
                l, r = r, l
            if "min_value" in l and r - {"min_value"}:
                vs = sorted(v for v in r if v not in ("min_value", "max_value"))
                return "lower", vs[0] if vs else None
            if "max_value" in r and l - {"max_value"}:
                vs = sorted(v for v in l if v not in ("min_value", "max_value"))
                return "upper", vs[0] if vs else None
    return None


def is_call(f, n, name):
    return n["k"] in ("call", "mcall") and f.call_name(n) == name


def r17_1(ctx, f):
    rid = "R17.1"
    ctx.rule(rid, "floor quadrants: in wrap_assign the divisions computing the quadrant indices of the lower and of the upper end (div_assign_r, div_2exp_assign_r) all round down — the quadrant of v is floor((v - min) / 2^w) for both ends; a ceiling skips a quadrant")
    n = 0
    for c in f.calls():
        if f.call_name(c) in ("div_assign_r", "div_2exp_assign_r"):
            n += 1
            args = f.call_args(c)
            d = f.text(args[-1]) if args else ""
            inst = "wrap_assign %s(%s, ...)" % (f.call_name(c), f.text(args[0]) if args else "")
            if d == "ROUND_DOWN":
                ctx.ok(rid, inst, f.where(c))
            else:
                ctx.violation(rid, inst, f.where(c), "quadrant index computed rounding %s instead of ROUND_DOWN" % d)
    ctx.floor(rid, n, 4, "quadrant divisions")


def r17_2(ctx, f):
    rid = "R17.2"
    ctx.rule(rid, "every dimension handled: from the minimize() call that starts the treatment of variable x, every path to the end of wrap_assign passes one of: the true edge of `first_quadrant == 0 && last_quadrant == 0`, the overflow-impossible branch, pointset.unconstrain(x), the swap with the hull of the translated copies, or translations.push_back(...) — a variable that spans other quadrants is never left as it is")
    starts = [c for c in f.calls() if c["k"] == "mcall" and f.call_name(c) == "minimize"]
    ctx.require(rid, len(starts) == 1, "expected one minimize() call in wrap_assign, found %d" % len(starts))
    st = starts[0]
    x = f.text(f.call_args(st)[0])

    def handled(n):
        if n["k"] != "mcall":
            return False
        nm = f.call_name(n)
        if nm == "unconstrain":
            return f.text(f.call_args(n)[0]) == x
        if nm == "push_back":
            return f.text(f.call_obj(n)) == "translations" and x in refs(f, n)
        if nm == "m_swap":
            return f.text(f.call_obj(n)) == "pointset" and f.text(f.call_args(n)[0]) == "hull"
        return False

    def edge(tc, taken):
        t = f.text(tc).replace(" ", "")
        if taken and t == "last_quadrant==0":
            return True
        if taken and t == "o==OVERFLOW_IMPOSSIBLE":
            return True
        return False
    # the first conjunct must be there too
    conj = [i for i in f.walk() if i["k"] == "if" and f.text(f.deref(i["c"][2])).replace(" ", "") == "first_quadrant==0&&last_quadrant==0"]
    ctx.require(rid, len(conj) == 1, "the no-wrapping-needed test `first_quadrant == 0 && last_quadrant == 0` was not found")
    inst = "wrap_assign: variable %s handled on every path" % x
    p = flow.must_follow(f, st, handled, edge_satisfied=edge)
    if p is None:
        ctx.ok(rid, inst, f.where(st))
    else:
        ctx.violation(rid, inst, f.where(st), "a path treats variable %s without wrapping it, setting it to the full range or recording a translation: %s" % (x, flow.render_path(f, p, 24)))


def r17_3(ctx, f):
    rid = "R17.3"
    ctx.rule(rid, "full range: every pointset.unconstrain(v) in wrap_assign is followed on every path by full_range_bounds.insert(min_value <= v) and by full_range_bounds.insert(v <= max_value)")
    n = 0
    for c in f.calls():
        if c["k"] == "mcall" and f.call_name(c) == "unconstrain":
            v = f.text(f.call_args(c)[0])
            for kind in ("lower", "upper"):
                n += 1
                inst = "wrap_assign unconstrain(%s) then %s bound" % (v, kind)

                def sat(y, kind=kind, v=v):
                    return y["k"] == "mcall" and f.call_name(y) == "insert" and f.text(f.call_obj(y)) == "full_range_bounds" \
                        and bound_kind(f, f.call_args(y)[0]) == (kind, v)
                p = flow.must_follow(f, c, sat)
                if p is None:
                    ctx.ok(rid, inst, f.where(c))
                else:
                    ctx.violation(rid, inst, f.where(c), "variable %s is unconstrained but its %s range bound is not added on the path %s" % (v, kind, flow.render_path(f, p)))
    ctx.floor(rid, n, 4, "unconstrain obligations")


def r17_4(ctx, f):
    rid = "R17.4"
    ctx.rule(rid, "overflow impossible: inside `if (o == OVERFLOW_IMPOSSIBLE)` the lower range bound is inserted under `first_quadrant < 0` and the upper one under `last_quadrant > 0`")
    blocks = [i for i in f.walk() if i["k"] == "if" and f.text(f.deref(i["c"][2])).replace(" ", "") == "o==OVERFLOW_IMPOSSIBLE"]
    ctx.require(rid, len(blocks) == 1, "`if (o == OVERFLOW_IMPOSSIBLE)` not found in wrap_assign")
    then = f.deref(blocks[0]["c"][3])
    want = {"first_quadrant<0": "lower", "last_quadrant>0": "upper"}
    got = {}
    for i in f.walk(then):
        if i["k"] == "if":
            ct = f.text(f.deref(i["c"][2])).replace(" ", "")
            kinds = [bound_kind(f, f.call_args(c)[0]) for c in f.calls(f.deref(i["c"][3]))
                     if c["k"] == "mcall" and f.call_name(c) == "insert" and f.call_args(c)]
            got[ct] = (i, [k[0] for k in kinds if k])
    for ct, kind in want.items():
        inst = "wrap_assign overflow-impossible: %s adds the %s bound" % (ct, kind)
        if ct not in got:
            ctx.violation(rid, inst, f.where(then), "no `if (%s)` in the overflow-impossible branch" % ct)
        elif got[ct][1] != [kind]:
            ctx.violation(rid, inst, f.where(got[ct][0]), "under `%s` the branch inserts %s; it must insert exactly the %s bound" % (ct, got[ct][1] or "nothing", kind))
        else:
            ctx.ok(rid, inst, f.where(got[ct][0]))


def r17_5(ctx, fs):
    rid = "R17.5"
    ctx.rule(rid, "quadrant loops: each `for` over quadrants (wrap_assign, wrap_assign_ind, wrap_assign_col) starts at first_quadrant, runs while quadrant <= last_quadrant and increments by one; under `quadrant != 0` it computes shift = quadrant * 2^w (mul_2exp_assign(shift, quadrant, w)) and applies affine_image(x, x - shift, 1); in wrap_assign / wrap_assign_ind every copy is refined with both range bounds and joined into the hull on every path of the body")
    n = 0
    for f in fs:
        for lp in f.walk():
            if lp["k"] != "for":
                continue
            init, cond, inc, body = [f.deref(c) for c in lp["c"][:4]]
            ct = f.text(cond).replace(" ", "") if cond else ""
            if "quadrant" not in ct:
                continue
            n += 1
            inst = "%s quadrant loop" % f.name
            probs = []
            cform = None
            if cond is not None and cond["k"] in ("binop", "ocall", "call") and len(cond.get("c", ())) == 2:
                lr, rr = refs(f, f.deref(cond["c"][0])), refs(f, f.deref(cond["c"][1]))
                if (lr, rr) == ({"quadrant"}, {"last_quadrant"}):
                    cform = cond.get("op")
                elif (lr, rr) == ({"last_quadrant"}, {"quadrant"}):
                    cform = {"<=": ">=", ">=": "<=", "<": ">", ">": "<"}.get(cond.get("op"), cond.get("op"))
            ctx.require(rid, cform in ("<=", "<", "!=", ">", ">=", "=="), "%s: quadrant loop condition `%s` has a form the rule does not know" % (f.name, f.text(cond)))
            if cform != "<=":
                probs.append("loop condition is `%s` (must be quadrant <= last_quadrant: the last quadrant is included)" % f.text(cond))
            if f.text(inc).replace(" ", "") not in ("++quadrant", "quadrant++"):
                probs.append("increment is `%s`" % f.text(inc))
            if init is not None:
                it = f.text(init).replace(" ", "")
                if it and it != "quadrant=first_quadrant":
                    probs.append("initialisation is `%s`" % f.text(init))
            else:
                # wrap_assign: `Coefficient& quadrant = first_quadrant;` precedes the loop
                v = f.var_decl("quadrant")
                if v is None or not v.get("c") or f.text(v["c"][0]) != "first_quadrant":
                    probs.append("quadrant does not start from first_quadrant")
            guard = [i for i in f.walk(body) if i["k"] == "if" and f.text(f.deref(i["c"][2])).replace(" ", "") == "quadrant!=0"]
            if len(guard) != 1:
                probs.append("no `if (quadrant != 0)` translation guard")
            else:
                th = f.deref(guard[0]["c"][3])
                m2 = [c for c in f.calls(th) if f.call_name(c) == "mul_2exp_assign"]
                ai = [c for c in f.calls(th) if f.call_name(c) == "affine_image"]
                if not m2 or [f.text(a) for a in f.call_args(m2[0])] != ["shift", "quadrant", "w"]:
                    probs.append("shift is not computed as mul_2exp_assign(shift, quadrant, w)")
                if not ai:
                    probs.append("no affine_image under quadrant != 0")
                else:
                    a = f.call_args(ai[0])
                    e = a[1] if len(a) > 1 else None
                    sub = [y for y in f.walk(e) if y["k"] in ("ocall", "binop", "call") and y.get("op") in ("-", "+")] if e else []
                    okexpr = bool(sub) and sub[0]["op"] == "-" and len(sub[0]["c"]) == 2 and \
                        refs(f, f.deref(sub[0]["c"][0])) == {"x"} and refs(f, f.deref(sub[0]["c"][1])) == {"shift"}
                    if f.text(a[0]) != "x" or not okexpr or (len(a) > 2 and f.text(a[2]) != "1"):
                        probs.append("translation is `affine_image(%s)` (must be x := (x - shift)/1)" % ", ".join(f.text(y)[-40:] for y in a))
            if f.name != "wrap_assign_col":
                copies = [d for d in f.walk(body) if d["k"] == "var" and d["n"] == "p"]
                if not copies:
                    probs.append("no working copy p in the loop body")
                else:
                    decl = copies[0]
                    for kind in ("lower", "upper"):
                        def sat(y, kind=kind):
                            return y["k"] == "mcall" and f.call_name(y) == "refine_with_constraint" and f.text(f.call_obj(y)) == "p" \
                                and bound_kind(f, f.call_args(y)[0]) == (kind, "x")
                        def joined(y):
                            return y["k"] == "mcall" and f.call_name(y) == "upper_bound_assign" and f.text(f.call_obj(y)) == "hull"
                        # every path from the copy to the join passes the refinement
                        anchor = f.parent.get(decl["i"]) or decl
                        ex = flow.Explorer(f)
                        pos = f.cfg_pos(anchor) or f.cfg_pos(decl)
                        if pos is None:
                            probs.append("copy p has no CFG position")
                            break
                        pth = ex.find_path(pos, sat, joined)
                        if pth is not None:
                            probs.append("a copy reaches hull.upper_bound_assign(p) without the %s range bound on x" % kind)
                    pos = f.cfg_pos(f.parent.get(decl["i"]) or decl)
                    if pos is not None:
                        def joined2(y):
                            return y["k"] == "mcall" and f.call_name(y) == "upper_bound_assign" and f.text(f.call_obj(y)) == "hull" and \
                                [f.text(a) for a in f.call_args(y)] == ["p"]
                        def next_copy(y):
                            return y is not decl and y["k"] in ("decl",) and any(v is decl for v in y.get("c", ()))
                        ex = flow.Explorer(f)
                        pth = ex.find_path(pos, joined2, "EXIT")
                        if pth is not None:
                            probs.append("a translated copy is never joined into the hull")
            else:
                rec = [c for c in f.calls(body) if f.call_name(c) == "wrap_assign_col"]
                if len(rec) != 2:
                    probs.append("expected the two recursive calls (translated / untranslated)")
            if probs:
                ctx.violation(rid, inst, f.where(lp), "; ".join(probs))
            else:
                ctx.ok(rid, inst, f.where(lp))
    ctx.floor(rid, n, 3, "quadrant loops")


CMP = ("<", ">", "<=", ">=")
MIRROR = {"<": ">", ">": "<", "<=": ">=", ">=": "<="}


def comparison(f, cond):
    """(op, lhs, rhs, negated) of a condition that is a single ordering comparison, else None."""
    n = f.deref(cond)
    neg = False
    while n is not None and (n["k"] in ("cast", "paren") or (n["k"] == "unop" and n.get("op") == "!")):
        if n["k"] == "unop":
            neg = not neg
        n = f.deref(n["c"][0])
    if n is None or n["k"] not in ("binop", "ocall") or n.get("op") not in CMP:
        return None
    cs = [f.deref(c) for c in n.get("c", ())]
    if n["k"] == "ocall" and len(cs) == 3:
        cs = cs[1:]
    if len(cs) != 2:
        return None
    op = n["op"]
    if neg:
        op = {"<": ">=", ">": "<=", "<=": ">", ">=": "<"}[op]
    return op, cs[0], cs[1], n


def r17_6(ctx, f):
    rid = "R17.6"
    ctx.rule(rid, "whole modulus: Interval::wrap_assign reduces both ends modulo 2^w and then distinguishes lower <= upper from wrap-around, which is exhaustive only for an interval shorter than 2^w; the shortcut `return assign(refinement)` must therefore be taken whenever upper - 2^w >= lower (u computed by sub_2exp_assign_r(u, upper(), w, .)), equality included: a closed interval of length exactly 2^w reduces to a single point and loses every other value")
    subs = [c for c in f.calls() if f.call_name(c) == "sub_2exp_assign_r" and len(f.call_args(c)) >= 3]
    ctx.require(rid, len(subs) == 1, "Interval::wrap_assign: the computation upper - 2^w (sub_2exp_assign_r) was not found")
    a = f.call_args(subs[0])
    u = f.deref(a[0])
    ctx.require(rid, u is not None and u["k"] == "ref" and "upper" in f.text(f.deref(a[1])), "Interval::wrap_assign: unknown form of the span computation `%s`" % f.text(subs[0]))
    un = u["n"]
    n = 0
    for i in f.walk():
        if i["k"] != "if":
            continue
        cond = f.deref(i["c"][2])
        cmps = []
        for x in f.walk(cond):
            if x["k"] in ("binop", "ocall") and x.get("op") in CMP and un in refs(f, x):
                cmps.append(x)
        if not cmps:
            continue
        then = f.deref(i["c"][3])
        ctx.require(rid, any(f.call_name(c) == "assign" for c in f.calls(then)), "Interval::wrap_assign: the test on `%s` does not guard `return assign(refinement)`" % un)
        for x in cmps:
            c = comparison(f, x)
            ctx.require(rid, c is not None, "Interval::wrap_assign: unknown comparison form `%s`" % f.text(x))
            op, l, r, _ = c
            # a negation directly above the comparison
            par = f.parent.get(x["i"])
            while par is not None and par["k"] in ("cast", "paren"):
                par = f.parent.get(par["i"])
            if par is not None and par["k"] == "unop" and par.get("op") == "!":
                op = {"<": ">=", ">": "<=", "<=": ">", ">=": "<"}[op]
            lu, ru = un in refs(f, l), un in refs(f, r)
            other = r if lu else l
            ctx.require(rid, lu != ru and "lower" in f.text(other) and f.text(l if lu else r).strip() == un,
                        "Interval::wrap_assign: unknown form of the span test `%s`" % f.text(x))
            if ru:
                op = MIRROR[op]
            n += 1
            inst = "Interval::wrap_assign span test `%s`" % f.text(x)
            if op == ">=":
                ctx.ok(rid, inst, f.where(x))
            elif op == ">":
                ctx.violation(rid, inst, f.where(x), "the full-range shortcut is skipped when %s == lower(), i.e. for an interval of length exactly 2^w: both ends then reduce to the same residue, the `lower <= upper` case keeps that single point and every other value of the interval, which wraps to a different one, is lost" % un)
            else:
                ctx.violation(rid, inst, f.where(x), "the shortcut to the full range is taken when %s %s lower(), which is not the test `upper - 2^w >= lower`" % (un, op))
    ctx.floor(rid, n, 1, "span tests in Interval::wrap_assign")


REDUCE_DOWN = ("sub_float", "set_neg_overflow_int")
REDUCE_UP = ("add_float", "set_pos_overflow_int")


def r17_7(ctx, fs):
    rid = "R17.7"
    ctx.rule(rid, "half boundary: a two's complement type of width w ranges over [-2^(w-1), 2^(w-1) - 1], so the comparison-based smod_2exp_* reductions (mpq, float, unsigned int) must send the value 2^(w-1) itself down by the modulus — the comparison guarding the downward step is non-strict (value >= half) — and must leave -2^(w-1) alone — the comparison guarding the upward step is strict (value < -half); the bit-test / mask forms (mpz, signed int) have no comparison and are not judged")
    n = 0
    unjudged = []
    for f in fs:
        found = 0
        for i in f.walk():
            if i["k"] != "if":
                continue
            c = comparison(f, i["c"][2])
            if c is None:
                # `bool neg = <comparison>; ... if (neg)`: the flag stands for its only definition
                cn = f.deref(i["c"][2])
                while cn is not None and cn["k"] in ("cast", "paren"):
                    cn = f.deref(cn["c"][0])
                if cn is not None and cn["k"] == "ref" and cn.get("dk") == "local":
                    defs = [v for v in f.walk() if v["k"] == "var" and v.get("n") == cn["n"] and v.get("c")]
                    writes = [a for a in f.walk() if a["k"] == "assign" and f.deref(a["c"][0]) is not None and f.deref(a["c"][0]).get("n") == cn["n"]]
                    if len(defs) == 1 and not writes:
                        c = comparison(f, defs[0]["c"][0])
            if c is None:
                continue
            op, l, r, node = c
            then = f.deref(i["c"][3])
            down = any((x["k"] == "ocall" and x.get("op") == "-=") or (x["k"] in ("call", "mcall") and f.call_name(x) in REDUCE_DOWN) for x in f.walk(then))
            up = any((x["k"] == "ocall" and x.get("op") == "+=") or (x["k"] in ("call", "mcall") and f.call_name(x) in REDUCE_UP) for x in f.walk(then))
            if down == up:
                continue
            # orientation: which side is the reduced value (mentions the destination / the working copy)
            vals = ("to", "v")
            lv = bool(refs(f, l) & set(vals)) and not (refs(f, l) & {"exp"})
            rv = bool(refs(f, r) & set(vals)) and not (refs(f, r) & {"exp"})
            both_dest = lv and rv           # mpq: numerator against the (halved) denominator of the same destination
            if both_dest:
                lv, rv = "get_num" in f.text(l), "get_num" in f.text(r)
            ctx.require(rid, lv != rv, "%s: unknown form of the half-modulus comparison `%s`" % (f.name, f.text(node)))
            other = r if lv else l
            ctx.require(rid, not any(x["k"] == "binop" and x.get("op") in ("+", "-") and any(y["k"] == "lit" and str(y.get("v")) == "1" for y in f.walk(x)) and "exp" not in refs(f, x) for x in f.walk(other)),
                        "%s: the half-modulus bound `%s` is adjusted by one: unknown form" % (f.name, f.text(other)))
            if rv:
                op = MIRROR[op]
            n += 1
            found += 1
            inst = "%s %s step under `%s`" % (f.name, "downward" if down else "upward", f.text(node))
            if down and op == ">=":
                ctx.ok(rid, inst, f.where(node))
            elif up and op == "<":
                ctx.ok(rid, inst, f.where(node))
            elif down and op == ">":
                ctx.violation(rid, inst, f.where(node), "a value congruent to exactly 2^(w-1) is left at +2^(w-1), outside the signed range: Interval::wrap_assign then takes the wrong case and drops the point that wraps to the minimum value")
            elif up and op == "<=":
                ctx.violation(rid, inst, f.where(node), "the in-range value -2^(w-1) is moved up to +2^(w-1), outside the signed range")
            else:
                ctx.violation(rid, inst, f.where(node), "the %s step of the signed reduction is guarded by `value %s half`" % ("downward" if down else "upward", op))
        if not found:
            unjudged.append(f.name)
    ctx.note(rid, "siblings without a comparison (bit test / mask forms), not judged: " + ", ".join(sorted(set(unjudged))))
    ctx.floor(rid, n, 4, "half-modulus comparisons in smod_2exp_*")


def r17_8(ctx):
    from pplv import flow
    from rules.c14 import units_alloc
    rid = "R17.8"
    ctx.rule(rid, "a work object restarts from its template in every iteration: where a loop body resets a local declared outside the loop from a loop-invariant template (`refinement_itv = integer_quadrant_itv`) and also modifies it in place (non-const member call, or passed by non-const reference), the reset comes before every other use of the object in the body — otherwise an iteration that skips the reset works on what the previous iteration left (Box::wrap_assign would intersect a variable with the guard of another one). Judged on the whole library")
    fx = ctx.extract(units_alloc())
    seen = set()
    n = 0
    for f in fx.functions:
        if (f.relfile, f.line) in seen or not f.cfg:
            continue
        seen.add((f.relfile, f.line))
        for lp in f.walk():
            if lp["k"] not in ("for", "while", "do"):
                continue
            body = f.deref(lp["c"][-1])
            if body is None:
                continue
            declared_in = set(v.get("n") for v in f.walk(lp) if v["k"] == "var")
            written = set(declared_in)
            for a2 in f.walk(lp):
                if a2["k"] == "assign" or (a2["k"] == "ocall" and a2.get("op") in ("=", "+=", "-=", "*=", "/=")):
                    l2 = f.deref(a2["c"][-2]) if len(a2.get("c", ())) >= 2 else None
                    if l2 is not None and l2["k"] == "ref":
                        written.add(l2.get("n"))
            full = {}
            for a in f.walk(body):
                if (a["k"] == "assign" and a.get("op", "=") == "=") or (a["k"] == "ocall" and a.get("op") == "="):
                    l = f.deref(a["c"][-2]) if len(a.get("c", ())) >= 2 else None
                    r = f.deref(a["c"][-1]) if a.get("c") else None
                    if l is None or r is None or l["k"] != "ref" or l.get("dk") != "local" or l.get("n") in declared_in:
                        continue
                    full.setdefault(l["n"], []).append((a, r))
            for w, assigns in sorted(full.items()):
                # every reset copies a loop-invariant local / parameter
                if not all(r["k"] == "ref" and r.get("dk") in ("local", "param") and r.get("n") not in (written - set([w])) and r.get("n") != w for a, r in assigns):
                    continue
                inplace = False
                for c in f.walk(body):
                    if c["k"] == "mcall" and not c.get("cconst") and f.call_obj(c) is not None:
                        o = f.deref(f.call_obj(c))
                        if o is not None and o["k"] == "ref" and o.get("n") == w:
                            inplace = True
                    if c["k"] in ("call", "mcall") and c.get("pm"):
                        for i_, a_ in enumerate(f.call_args(c)):
                            a_ = f.deref(a_)
                            if a_ is not None and a_["k"] == "ref" and a_.get("n") == w and i_ < len(c["pm"]) and c["pm"][i_] == "r":
                                inplace = True
                if not inplace:
                    continue
                lhs_ids = set(f.deref(a["c"][-2])["i"] for a, r in assigns)
                uses = [x for x in f.walk(body) if x["k"] == "ref" and x.get("n") == w and x["i"] not in lhs_ids]
                stmts = [f.deref(c) for c in body.get("c", ())] if body["k"] == "block" else [body]
                stmts = [s_ for s_ in stmts if s_ is not None]
                pos = f.cfg_pos(stmts[0]) if stmts else None
                if not uses or pos is None:
                    continue
                n += 1
                inst = "%s::%s `%s` restarted from `%s` in the loop at line %s" % (f.clsn or "", f.name, w, f.text(assigns[0][1]), lp.get("l"))
                aset = set(a["i"] for a, r in assigns)
                ex = flow.Explorer(f, track_env=False)
                bad = None
                for u in uses:
                    p = ex.find_path((pos[0], pos[1] - 1), lambda nod: nod["i"] in aset, lambda nod, u=u: nod["i"] == u["i"])
                    if p is not None:
                        bad = (u, p)
                        break
                if bad is None:
                    ctx.ok(rid, inst, f.where(lp))
                else:
                    ctx.violation(rid, inst, f.where(bad[0]), "`%s` is used at line %s on a path of the loop body that has not reset it (%s): it still holds what an earlier iteration made of it" % (w, bad[0].get("l"), flow.render_path(f, bad[1])))
    ctx.floor(rid, n, 1, "work objects restarted from a template inside a loop")


def r17_9(ctx):
    from pplv import flow
    from rules.c14 import units_alloc
    rid = "R17.9"
    ctx.rule(rid, "an exact division by a gcd stays within the range the gcd was taken over: `g = e.gcd(1, n)` is the gcd of the homogeneous coefficients only, so nothing says that g divides the inhomogeneous term. A later exact division by g — `le /= g` on a whole Linear_Expression, or exact_div_assign(g, a, b) — either names the same range, or is reached only after the inhomogeneous term was removed from the expression (`le -= inhomogeneous`, set_inhomogeneous_term(0)); dividing the constant term exactly by a number that does not divide it gives an arbitrary integer (contains_integer_point answered true for {2x > 1, x < 1})")
    fx = ctx.extract(units_alloc())
    seen = set()
    n = 0
    for f in fx.functions:
        if (f.relfile, f.line) in seen or not f.cfg:
            continue
        seen.add((f.relfile, f.line))
        gcds = {}
        for a in f.walk():
            rhs = lhs = None
            if a["k"] == "assign" or (a["k"] == "ocall" and a.get("op") == "="):
                if len(a.get("c", ())) >= 2:
                    lhs, rhs = f.deref(a["c"][-2]), f.deref(a["c"][-1])
            elif a["k"] == "var" and a.get("c"):
                lhs, rhs = a, f.deref(a["c"][-1])
            if lhs is None or rhs is None:
                continue
            call = None
            for x in f.walk(rhs):
                if x["k"] == "mcall" and f.call_name(x).lstrip("~") == "gcd" and len(f.call_args(x)) == 2:
                    call = x
            if call is None:
                continue
            name = lhs.get("n")
            if not name:
                continue
            rng = tuple(f.text(f.deref(x)).replace(" ", "") for x in f.call_args(call))
            gcds[name] = rng
        if not gcds:
            continue
        for x in f.walk():
            use = None
            if x["k"] == "ocall" and x.get("op") == "/=" and len(x.get("c", ())) >= 2:
                r = f.deref(x["c"][-1])
                l = f.deref(x["c"][-2])
                if r is not None and r["k"] == "ref" and r.get("n") in gcds and l is not None and "Linear_Expression" in (l.get("t") or ""):
                    use = (r["n"], None, f.text(l).strip())
            if x["k"] == "mcall" and f.call_name(x).lstrip("~") == "exact_div_assign":
                args = f.call_args(x)
                a0 = f.deref(args[0]) if args else None
                if a0 is not None and a0["k"] == "ref" and a0.get("n") in gcds:
                    use = (a0["n"], tuple(f.text(f.deref(y)).replace(" ", "") for y in args[1:3]) if len(args) >= 3 else None, f.text(f.deref(f.call_obj(x))).strip() if f.call_obj(x) is not None else "")
            if use is None:
                continue
            g, rng, target = use
            n += 1
            inst = "%s: `%s` divided by `%s` = gcd(%s) (line %s)" % (f.name, target, g, ", ".join(gcds[g]), x.get("l"))
            if gcds[g][0] == "0":
                ctx.ok(rid, inst, f.where(x))        # the gcd covers the inhomogeneous term too
                continue
            if rng is not None and rng == gcds[g]:
                ctx.ok(rid, inst, f.where(x))
                continue
            if rng is None:
                base = target.split(".")[0]

                def removes(nod):
                    if nod["k"] == "ocall" and nod.get("op") == "-=" and len(nod.get("c", ())) >= 2:
                        l_, r_ = f.deref(nod["c"][-2]), f.deref(nod["c"][-1])
                        return l_ is not None and f.text(l_).strip() == base and r_ is not None and "inhomogeneous" in f.text(r_)
                    if nod["k"] == "mcall" and f.call_name(nod).lstrip("~") == "set_inhomogeneous_term" and f.call_obj(nod) is not None and f.text(f.deref(f.call_obj(nod))).strip() == base:
                        a_ = f.call_args(nod)
                        return bool(a_) and f.text(f.deref(a_[0])).strip() in ("0", "Coefficient_zero()")
                    return False
                # from the definition of the expression to the division, the constant term must have been removed
                bad = flow.must_precede(f, x, removes)
                if bad is None:
                    ctx.ok(rid, inst, f.where(x))
                    continue
                ctx.violation(rid, inst, f.where(x), "the whole expression, constant term included, is divided exactly by the gcd of the coefficients in [%s) only, and the constant term was not removed first (%s)" % (", ".join(gcds[g]), flow.render_path(f, bad)))
            else:
                ctx.violation(rid, inst, f.where(x), "the division covers [%s) but the gcd was taken over [%s)" % (", ".join(rng), ", ".join(gcds[g])))
    ctx.floor(rid, n, 2, "exact divisions by a range gcd")


def r17_10(ctx):
    from rules.c14 import units_alloc
    rid = "R17.10"
    ctx.rule(rid, "the complement of an index set ranges over the object's own dimension: a loop `for (i ..; i < BOUND; ..)` whose body selects the indices NOT in a set S (`S.find(i) == S.end()`, `S.count(i) == 0`) enumerates the complement of S within the space of the object; its upper bound is that space's dimension, not a quantity read off S itself (`S.space_dimension()`, `S.size()`, or a local initialised from them) — S only reaches up to its largest element, and the dimensions above it, which belong to the complement, would be skipped (drop_some_non_integer_points would leave them out of the variables it must not touch)")
    fx = ctx.extract(units_alloc())
    seen = set()
    n = 0
    for f in fx.functions:
        if (f.relfile, f.line) in seen:
            continue
        seen.add((f.relfile, f.line))
        for lp in f.walk():
            if lp["k"] != "for" or len(lp.get("c", ())) < 4:
                continue
            cond = f.deref(lp["c"][1]) if len(lp["c"]) == 4 else f.deref(lp["c"][2])
            body = f.deref(lp["c"][-1])
            if cond is None or body is None:
                continue
            sets = set()
            for x in f.walk(body):
                if x["k"] in ("binop", "ocall") and x.get("op") in ("==", "!="):
                    t = f.text(x).replace(" ", "")
                    m = re.match(r"^\(?\*?(\w+)\)?(?:\.|->)find\((\w+)\)[!=]=\(?\*?\1\)?(?:\.|->)end\(\)$", t) or re.match(r"^\(?\*?(\w+)\)?(?:\.|->)count\((\w+)\)[!=]=0$", t)
                    if m:
                        sets.add((m.group(1), m.group(2)))
            ct = f.text(cond).replace(" ", "")
            for S, idx in sorted(sets):
                if not re.match(r"^%s(<|<=|!=)" % re.escape(idx), ct):
                    continue
                n += 1
                inst = "%s: complement of `%s` in the loop at line %s" % (f.name, S, lp.get("l"))
                bound = ct.split("<", 1)[1].lstrip("=") if "<" in ct else ct.split("!=", 1)[1]
                # the set itself, and locals holding its dimension or size
                derived = set([S])
                for v in f.walk():
                    if v["k"] == "var" and v.get("c"):
                        it_ = f.deref(v["c"][-1])
                        if it_ is not None and re.match(r"^\(?\*?%s\)?(?:\.|->)(?:space_dimension|size)\(\)$" % re.escape(S), f.text(it_).replace(" ", "")):
                            derived.add(v["n"])
                if any(re.search(r"\b%s\b" % re.escape(d), bound) for d in derived):
                    ctx.violation(rid, inst, f.where(lp), "the bound `%s` of the loop is read off the set itself: indices above its largest element, all of them in the complement, are never visited" % bound)
                else:
                    ctx.ok(rid, inst, f.where(lp))
    ctx.floor(rid, n, 3, "complement loops")


def run(ctx):
    ctx.explanation = ("C17 structural clauses of the generic wrap_assign and two comparison-strictness clauses of the interval version: quadrant indices are floors, every wrapped dimension is handled on every path, "
                       "full-range and overflow-impossible bounds are complete, quadrant loops cover first..last inclusive with the right translation; "
                       "decides these clauses, not the soundness over integer points")
    ctx.assumptions = ["Box::wrap_assign, Grid::wrap_assign, the rest of Interval::wrap_assign (beyond R17.6/R17.7), drop_some_non_integer_points and contains_integer_point are numeric case analyses: not decided",
                       "the rules work on the template pattern of wrap_assign.hh (shared by Polyhedron, BD_Shape, Octagonal_Shape)"]
    fx = ctx.extract(units())
    fs = {}
    for f in fx.functions:
        if f.name in ("wrap_assign", "wrap_assign_ind", "wrap_assign_col") and f.flag("pattern") and f.file.endswith("wrap_assign.hh"):
            fs.setdefault(f.name, f)
    for nm in ("wrap_assign", "wrap_assign_ind", "wrap_assign_col"):
        if nm not in fs:
            raise F.AnalysisBroken("C17: %s not found in wrap_assign.hh" % nm)
    w = fs["wrap_assign"]
    r17_1(ctx, w)
    r17_2(ctx, w)
    r17_3(ctx, w)
    r17_4(ctx, w)
    r17_5(ctx, [fs["wrap_assign"], fs["wrap_assign_ind"], fs["wrap_assign_col"]])
    fx2 = ctx.extract([F.driver_unit("all_headers.cc", file_re=r"(Interval_defs|checked_mpq_inlines|checked_float_inlines|checked_int_inlines|checked_mpz_inlines)\.hh")])
    iw = [f for f in fx2.functions if f.name == "wrap_assign" and f.flag("pattern") and f.file.endswith("Interval_defs.hh") and f.cfg]
    if len(iw) != 1:
        raise F.AnalysisBroken("C17: Interval::wrap_assign not found in Interval_defs.hh")
    r17_6(ctx, iw[0])
    sm = {}
    for f in fx2.functions:
        if f.name.startswith("smod_2exp_") and f.flag("pattern") and f.cfg:
            sm.setdefault((f.name, f.relfile), f)
    if len(sm) < 5:
        raise F.AnalysisBroken("C17: smod_2exp_* siblings: found %d, expected at least 5" % len(sm))
    r17_7(ctx, [sm[k] for k in sorted(sm)])
    r17_8(ctx)
    r17_9(ctx)
    r17_10(ctx)
