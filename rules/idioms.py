"""Library-wide structural idioms shared by several properties."""
from pplv import flow


def _is_ref(f, n, name):
    n = f.deref(n)
    while n is not None and n["k"] == "cast" and n.get("c"):
        n = f.deref(n["c"][0])
    return n is not None and n["k"] == "ref" and n.get("n") == name


def indexed_by(f, node, var, depth=0):
    """Does the expression denote an element selected by index `var` (X[var], or a local
    reference bound to such an element)?"""
    node = f.deref(node)
    if node is None or depth > 3:
        return False
    for x in f.walk(node):
        if x["k"] in ("ocall", "subscript", "binop") and x.get("op") == "[]" or x["k"] == "subscript":
            cs = x.get("c", ())
            if len(cs) >= 2 and _is_ref(f, cs[-1], var):
                return True
        if x["k"] == "ref" and x.get("dk") == "local" and "&" in x.get("t", ""):
            v = f.var_decl(x["n"], x.get("l"))
            if v is not None and v.get("c") and v is not node:
                if indexed_by(f, v["c"][0], var, depth + 1):
                    return True
    return False


def swap_remove(ctx, rid, funcs, what):
    """Forward counted loop `for (...; i < n; ++i)` whose body shrinks the bound (`--n`) and moves the
    element at the new bound into position i: the index must be stepped back before the increment,
    or the moved element is never examined."""
    n_loops = 0
    for f in funcs:
        if not f.cfg:
            continue
        for lp in f.walk():
            if lp["k"] != "for" or len(lp.get("c", ())) < 4:
                continue
            cond, inc, body = f.deref(lp["c"][1]), f.deref(lp["c"][2]), f.deref(lp["c"][3])
            if cond is None or inc is None or body is None:
                continue
            if not (inc["k"] == "unop" and inc.get("op") == "++" and f.deref(inc["c"][0])["k"] == "ref"):
                continue
            i = f.deref(inc["c"][0])["n"]
            if not (cond["k"] == "binop" and cond.get("op") in ("<", "!=") and _is_ref(f, cond["c"][0], i)):
                continue
            b = f.deref(cond["c"][1])
            if b is None or b["k"] != "ref" or b.get("dk") != "local":
                continue
            bound = b["n"]
            shrinks = [x for x in f.walk(body) if x["k"] == "unop" and x.get("op") == "--" and _is_ref(f, x["c"][0], bound)]
            if not shrinks:
                continue
            events = []
            for x in f.walk(body):
                if x["k"] in ("mcall", "call") and f.call_name(x) in ("m_swap", "swap", "iter_swap"):
                    ops = [a for a in ([f.call_obj(x)] if x["k"] == "mcall" else []) + list(f.call_args(x)) if a is not None]
                    if any(indexed_by(f, a, i) for a in ops) and any(indexed_by(f, a, bound) for a in ops):
                        events.append(x)
                elif x["k"] == "assign" and x.get("op") == "=":
                    if indexed_by(f, x["c"][0], i) and indexed_by(f, x["c"][1], bound):
                        events.append(x)
            if not events:
                continue
            n_loops += 1
            inst = "%s: swap-remove loop over %s (< %s)" % (f.short.split("(")[0], i, bound)

            def stepped_back(y):
                if y["k"] == "unop" and y.get("op") == "--" and _is_ref(f, y["c"][0], i):
                    return True
                return y["k"] == "assign" and y.get("op") in ("-=",) and _is_ref(f, y["c"][0], i)
            bad = None
            for e in events:
                pos = f.cfg_pos(e)
                if pos is None:
                    continue
                p = flow.Explorer(f).find_path(pos, stepped_back, lambda y: y["i"] == inc["i"])
                if p is not None:
                    bad = (e, p)
                    break
            if bad is None:
                ctx.ok(rid, inst, f.where(lp))
            else:
                ctx.violation(rid, inst, f.where(bad[0]), "the element at the shrunk bound `%s` is moved into position `%s`, but a path reaches `++%s` without stepping the index back: the moved element is never examined (%s)" % (
                    bound, i, i, what))
    return n_loops


def _arm_tokens(f, nodes):
    shape, ids = [], []
    for st in nodes:
        for x in f.walk(st):
            k = x["k"]
            if k in ("ref", "member"):
                qn = x.get("qn") or ""
                if "::" in qn:
                    # a qualified name contributes its qualifier too (traits structs read member by member)
                    shape.append((k, "q"))
                    ids.append(qn.rsplit("::", 1)[0].rsplit("::", 1)[-1])
                shape.append((k,))
                ids.append(x.get("n") or "")
            elif k in ("call", "mcall", "construct"):
                shape.append((k, len(x.get("c", ()))))
                ids.append("@" + (f.call_name(x) or ""))
            elif k in ("int", "bool", "str", "char", "float"):
                shape.append((k, str(x.get("v"))))
            else:
                shape.append((k, x.get("op")))
    return tuple(shape), ids


def _pattern(ids):
    first, out = {}, []
    for i, s in enumerate(ids):
        if s not in first:
            first[s] = i
        out.append(first[s])
    return tuple(out)


def switch_arms(f, sw):
    """[(labels, statement nodes)] of a switch statement."""
    body = f.deref(sw["c"][1]) if len(sw.get("c", ())) > 1 else None
    if body is None or body["k"] != "block":
        return []
    arms, cur = [], None
    for st in body.get("c", ()):
        st = f.deref(st)
        if st is None:
            continue
        if st["k"] in ("case", "default"):
            inner, labels = st, []
            while inner is not None and inner["k"] in ("case", "default"):
                kids = [f.deref(x) for x in inner.get("c", ())]
                if inner["k"] == "case" and kids:
                    labels.append(f.text(kids[0]))
                inner = kids[-1] if kids and (inner["k"] == "default" or len(kids) > 1) else None
            cur = [labels, [inner] if inner is not None else []]
            arms.append(cur)
        elif cur is not None:
            cur[1].append(st)
    return arms


def copy_paste_arms(ctx, rid, funcs, minimum_arms=3):
    """Switch arms that are copies of one another (same shape once identifiers are abstracted) must
    use their identifiers consistently: positions that carry the same identifier in the other arms
    carry the same identifier in every arm (a cache slot tested, returned and filled; a traits struct
    read three times).  Reports the arm whose identifier pattern deviates."""
    import collections
    n = 0
    seen = set()
    for f in funcs:
        if (f.relfile, f.line) in seen:
            continue
        seen.add((f.relfile, f.line))
        for sw in f.walk():
            if sw["k"] != "switch":
                continue
            groups = collections.defaultdict(list)
            for labels, nodes in switch_arms(f, sw):
                if not nodes:
                    continue
                sh, ids = _arm_tokens(f, nodes)
                if len(ids) >= 3:
                    groups[sh].append((labels, ids, nodes))
            for sh, g in groups.items():
                if len(g) < minimum_arms:
                    continue
                pats = collections.Counter(_pattern(ids) for _, ids, _ in g)
                maj, cnt = pats.most_common(1)[0]
                if cnt < len(g) - 1 or cnt < 2:
                    continue        # no clear majority: not a family of copies
                for labels, ids, nodes in g:
                    n += 1
                    inst = "%s switch arm %s" % (f.name, "/".join(labels) or "default")
                    pat = _pattern(ids)
                    if pat == maj:
                        ctx.ok(rid, inst, f.where(nodes[0]))
                    else:
                        k = [i for i in range(len(ids)) if pat[i] != maj[i]][0]
                        ctx.violation(rid, inst, f.where(nodes[0]), "this arm is a copy of its %d siblings but uses `%s` where they repeat the identifier they used before (`%s` here): a copy/paste slip" % (
                            len(g) - 1, ids[k], ids[maj[k]]))
    return n
