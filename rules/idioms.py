"""Library-wide structural idioms shared by several properties."""
from pplv import flow


def _is_ref(f, n, name):
    n = f.deref(n)
    while n is not None and n["k"] == "cast" and n.get("c"):
        n = f.deref(n["c"][0])
    return n is not None and n["k"] == "ref" and n.get("n") == name


def indexed_by(f, node, var, depth=0):
    """Does the expression denote an element selected by index `var` (X[var], or a local
    reference bound to such an element)?"""
    node = f.deref(node)
    if node is None or depth > 3:
        return False
    for x in f.walk(node):
        if x["k"] in ("ocall", "subscript", "binop") and x.get("op") == "[]" or x["k"] == "subscript":
            cs = x.get("c", ())
            if len(cs) >= 2 and _is_ref(f, cs[-1], var):
                return True
        if x["k"] == "ref" and x.get("dk") == "local" and "&" in x.get("t", ""):
            v = f.var_decl(x["n"], x.get("l"))
            if v is not None and v.get("c") and v is not node:
                if indexed_by(f, v["c"][0], var, depth + 1):
                    return True
    return False


def swap_remove(ctx, rid, funcs, what):
    """Forward counted loop `for (...; i < n; ++i)` whose body shrinks the bound (`--n`) and moves the
    element at the new bound into position i: the index must be stepped back before the increment,
    or the moved element is never examined."""
    n_loops = 0
    for f in funcs:
        if not f.cfg:
            continue
        for lp in f.walk():
            if lp["k"] != "for" or len(lp.get("c", ())) < 4:
                continue
            cond, inc, body = f.deref(lp["c"][1]), f.deref(lp["c"][2]), f.deref(lp["c"][3])
            if cond is None or inc is None or body is None:
                continue
            if not (inc["k"] == "unop" and inc.get("op") == "++" and f.deref(inc["c"][0])["k"] == "ref"):
                continue
            i = f.deref(inc["c"][0])["n"]
            if not (cond["k"] == "binop" and cond.get("op") in ("<", "!=") and _is_ref(f, cond["c"][0], i)):
                continue
            b = f.deref(cond["c"][1])
            if b is None or b["k"] != "ref" or b.get("dk") != "local":
                continue
            bound = b["n"]
            shrinks = [x for x in f.walk(body) if x["k"] == "unop" and x.get("op") == "--" and _is_ref(f, x["c"][0], bound)]
            if not shrinks:
                continue
            events = []
            for x in f.walk(body):
                if x["k"] in ("mcall", "call") and f.call_name(x) in ("m_swap", "swap", "iter_swap"):
                    ops = [a for a in ([f.call_obj(x)] if x["k"] == "mcall" else []) + list(f.call_args(x)) if a is not None]
                    if any(indexed_by(f, a, i) for a in ops) and any(indexed_by(f, a, bound) for a in ops):
                        events.append(x)
                elif x["k"] == "assign" and x.get("op") == "=":
                    if indexed_by(f, x["c"][0], i) and indexed_by(f, x["c"][1], bound):
                        events.append(x)
            if not events:
                continue
            n_loops += 1
            inst = "%s: swap-remove loop over %s (< %s)" % (f.short.split("(")[0], i, bound)

            def stepped_back(y):
                if y["k"] == "unop" and y.get("op") == "--" and _is_ref(f, y["c"][0], i):
                    return True
                return y["k"] == "assign" and y.get("op") in ("-=",) and _is_ref(f, y["c"][0], i)
            bad = None
            for e in events:
                pos = f.cfg_pos(e)
                if pos is None:
                    continue
                p = flow.Explorer(f).find_path(pos, stepped_back, lambda y: y["i"] == inc["i"])
                if p is not None:
                    bad = (e, p)
                    break
            if bad is None:
                ctx.ok(rid, inst, f.where(lp))
            else:
                ctx.violation(rid, inst, f.where(bad[0]), "the element at the shrunk bound `%s` is moved into position `%s`, but a path reaches `++%s` without stepping the index back: the moved element is never examined (%s)" % (
                    bound, i, i, what))
    return n_loops
