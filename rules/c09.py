"""C09 — powersets denote the union of their disjuncts.

R9.1 COW          Determinate<PSET>: every non-const access to the shared representation
                  (prep->pset) is preceded by mutate() on every path; mutate() copies
                  before it drops the shared reference
R9.2 LIFT-ALL     every per-disjunct transformer of Pointset_Powerset applies the same-named
                  base operation, with its own parameters in order, to EVERY disjunct
R9.3 DIM-TRACK    dimension-changing transformers update the powerset's own space_dim
That omega-reduction / pairwise merge / linear_partition preserve the union is numeric: not decided.
"""
from pplv import facts as F
from pplv import effects as E
from pplv import flow

PSETS = ("C_Polyhedron", "NNC_Polyhedron", "Grid")


def units(tier):
    return [F.driver_unit("domains.cc", file_re=r"(Determinate|Powerset|Pointset_Powerset)_(inlines|templates)\.hh|Pointset_Powerset\.cc",
                          class_re=r"Determinate|Powerset")]


def r9_1(ctx, fx):
    rid = "R9.1"
    ctx.rule(rid, "copy-on-write: in Determinate<PSET> every non-const use of prep->pset (non-const member call, assignment, non-const reference argument, non-const reference return) is preceded on every path by mutate(); mutate() builds the private copy before releasing the shared one")
    n = 0
    funcs = [f for f in fx.functions if f.clsn == "Determinate" and not f.flag("pattern")]
    ctx.require(rid, len(funcs) >= 20, "Determinate<PSET> members not found (%d)" % len(funcs))
    for f in funcs:
        if f.kind in ("ctor", "dtor") or f.name == "mutate":
            continue
        events = []
        for wn, r, how in E.writes(f):
            if r[:3] == ("this", "prep", "pset"):
                events.append((wn, how))
        rt = f.j.get("ret", "")
        if rt.endswith("&") and not rt.startswith("const "):
            for rn in f.walk():
                if rn["k"] == "return" and rn.get("c"):
                    if f.root(rn["c"][0])[:3] == ("this", "prep", "pset"):
                        events.append((rn, "returned as non-const reference"))
        for wn, how in events:
            n += 1
            inst = "%s %s" % (F.strip_ns(f.sig()), how)
            path = flow.must_precede(f, wn, lambda x: x["k"] == "mcall" and f.call_name(x) == "mutate"
                                     and f.call_obj(x) is not None and f.root(f.call_obj(x)) == ("this",))
            if path is None:
                ctx.ok(rid, inst, f.where(wn))
            else:
                ctx.violation(rid, inst, f.where(wn),
                              "the shared representation is modified (or handed out writable) without mutate(): copies sharing it change too: %s" % flow.render_path(f, path))
    # mutate() itself
    for f in funcs:
        if f.name != "mutate":
            continue
        n += 1
        news = [x for x in f.walk() if x["k"] == "new"]
        dels = [x for x in f.calls() if f.call_name(x) == "del_reference"]
        inst = "mutate() copies before releasing"
        if len(news) != 1 or len(dels) != 1:
            ctx.violation(rid, inst, f.where(), "expected exactly one new Rep(...) and one del_reference() (found %d / %d)" % (len(news), len(dels)))
            continue
        p = flow.must_precede(f, dels[0], lambda x: x is news[0])
        arg_ok = any(x["k"] == "member" and x.get("n") == "pset" for x in f.walk(news[0]))
        shared = [b for b in f.walk() if b["k"] == "if" and "is_shared" in f.text(f.deref(b["c"][2]))]
        if p is not None or not arg_ok or not shared:
            ctx.violation(rid, inst, f.where(), "mutate() does not have the shape `if (is_shared) { copy = new Rep(prep->pset); del_reference(); ... }`")
        else:
            ctx.ok(rid, inst, f.where())
    # nobody else reaches into Rep::pset
    outsiders = 0
    for f in fx.functions:
        if f.clsn in ("Determinate", "Rep") or f.flag("pattern"):
            continue
        for x in f.walk():
            if x["k"] == "member" and x.get("n") == "pset" and "Determinate" in x.get("t", "") + f.text(x):
                outsiders += 1
                ctx.violation(rid, "%s reaches Rep::pset" % f.sig(), f.where(x), "a function outside Determinate accesses the shared representation directly")
    ctx.count(rid, "outside_accesses", outsiders)
    ctx.floor(rid, n, 3, "non-const representation accesses + mutate shape")


def _seq_loops(f):
    """for-loops iterating `sequence` of *this with an iterator variable."""
    for n in f.walk():
        if n["k"] != "for":
            continue
        init = f.deref(n["c"][0])
        if init is None:
            continue
        vars_ = [v for v in f.walk(init) if v["k"] == "var"]
        it = None
        for v in vars_:
            i0 = v.get("c", ())
            if i0 and i0[0] is not None:
                t = f.text(i0[0])
                if "sequence.begin()" in t or t.endswith("begin()"):
                    r = f.root(i0[0])
                    if r[:2] == ("this", "sequence") or r == ("this",):
                        it = v["n"]
        if it:
            yield n, it


def r9_2(ctx, fx):
    rid = "R9.2"
    ctx.rule(rid, "lifting: each non-const member of Pointset_Powerset that applies a base operation to `it->pointset()` inside a loop over the disjunct sequence applies the operation named like the member itself, passes its own parameters in declaration order, and the loop has no break / return / continue (every disjunct is transformed)")
    n = 0
    seen = set()
    for f in fx.functions:
        if f.clsn != "Pointset_Powerset" or f.flag("pattern") or f.flag("const") or f.kind != "method":
            continue
        for loop, it in _seq_loops(f):
            body = f.deref(loop["c"][3])
            calls = []
            for c in f.calls(body):
                if c["k"] != "mcall":
                    continue
                obj = f.call_obj(c)
                if obj is not None and obj["k"] == "mcall" and f.call_name(obj) == "pointset" and not obj.get("cconst") \
                        and any(x["k"] == "ref" and x.get("n") == it for x in f.walk(f.call_obj(obj))):
                    calls.append(c)
            if not calls:
                continue
            key = (f.sig(), f.call_name(calls[0]))
            if key in seen:
                continue
            seen.add(key)
            n += 1
            inst = "%s lifts %s" % (F.strip_ns(f.sig()), f.call_name(calls[0]))
            where = f.where(calls[0])
            problems = []
            for c in calls:
                if f.call_name(c) != f.name:
                    problems.append("applies `%s` to the disjuncts of `%s`" % (f.call_name(c), f.name))
                args = [f.text(a) for a in f.call_args(c)]
                params = [p["n"] for p in f.params]
                # arguments may be wrapped copies (Variable(v)); compare the parameter names mentioned
                names = []
                for a in f.call_args(c):
                    rs = [x["n"] for x in f.walk(a) if x["k"] == "ref" and x.get("dk") == "param"]
                    names.append(rs[0] if rs else f.text(a))
                extra = names[len(params):]
                extra_ok = all(not any(x["k"] == "ref" and x.get("dk") == "param" for x in f.walk(a))
                               for a in f.call_args(c)[len(params):])   # defaulted trailing arguments of the base operation
                if names[:len(params)] != params or not extra_ok:
                    problems.append("passes (%s) for parameters (%s)" % (", ".join(args), ", ".join(params)))
            jumps = [x for x in f.walk(body) if x["k"] in ("break", "return", "continue", "goto", "throw")]
            if jumps:
                problems.append("loop over the disjuncts can leave/skip an iteration (%s at line %s)" % (jumps[0]["k"], jumps[0].get("l")))
            cond = f.deref(loop["c"][1])
            inc = f.deref(loop["c"][2])
            if cond is None or "!=" not in f.text(cond) or inc is None or "++" not in f.text(inc):
                problems.append("loop is not the full `it != end; ++it` traversal: `%s; %s`" % (f.text(cond), f.text(inc)))
            if problems:
                ctx.violation(rid, inst, where, "; ".join(problems))
            else:
                ctx.ok(rid, inst, where)
    ctx.floor(rid, n, 25, "lifted transformers (one instantiation each)")


# members that keep the sequence omega-reduced although they change disjuncts, with the reason
R94_KEEPS = {
    "add_space_dimensions_and_embed": "embedding is an order embedding (P is contained in Q iff their embeddings are) and keeps every disjunct non-empty: no disjunct becomes empty or entailed",
    "add_space_dimensions_and_project": "as for add_space_dimensions_and_embed (P x {0})",
    "expand_space_dimension": "expansion is monotone and order-reflecting (project the new dimensions away) and keeps disjuncts non-empty",
    "clear": "an empty sequence is omega-reduced whatever the flag says",
    # The next two can make one disjunct entail another (two disjuncts with the same closure / the same fold) and leave
    # the claim standing; no disjunct can become EMPTY, which is the case the union-level answers (is_bottom()) depend on.
    # The stale claim is visible through size() and the syntactic operator== only: recorded as an observation, not judged.
    "fold_space_dimensions": "folding keeps every disjunct non-empty; it may create entailed disjuncts, which the rule does not judge (observation in DESIGN §6)",
    "topological_closure_assign": "closure keeps every disjunct non-empty; it may create entailed disjuncts, which the rule does not judge (observation in DESIGN §6)",
}
# callees on the powerset itself that discharge the obligation (they withdraw or re-establish the claim themselves)
R94_DISCHARGE = ("omega_reduce", "add_disjunct", "add_non_bottom_disjunct_preserve_reduction", "pairwise_reduce",
                 "collapse", "clear", "m_swap", "operator=")


def r9_4(ctx, fx):
    rid = "R9.4"
    ctx.rule(rid, "omega-reduction claim: `reduced` says that no disjunct entails another, and omega_reduce(), is_omega_reduced(), size() and the equality / entailment tests skip their work when it is set. In every non-const member of Powerset / Pointset_Powerset, after an event that changes the disjuncts in a way that can make one of them empty (is_bottom() and the tests built on it are correct only on an omega-reduced sequence) or entailed — a non-const member call on `sequence` (push_back, erase, insert, ...), or a non-const operation on `it->pointset()` for an iterator over the sequence — every normal path to the exit withdraws the claim (`reduced = false`), copies it from the operand the sequence was copied from, or calls a member that maintains it itself (omega_reduce, add_disjunct, ...); otherwise entailed or duplicate disjuncts stay while the claim says there are none")
    n = 0
    seen = set()
    for f in fx.functions:
        if f.clsn not in ("Pointset_Powerset", "Powerset") or f.flag("const") or f.kind not in ("method", "ctor") or not f.cfg:
            continue
        if f.name in ("omega_reduce", "collapse", "OK", "ascii_load", "m_swap", "add_non_bottom_disjunct_preserve_reduction", "erase", "drop_disjunct", "drop_disjuncts", "pairwise_reduce"):
            # the maintainers of the claim themselves (R9.5 judges their own exits)
            continue
        key = (f.relfile, f.line)
        if key in seen:
            continue
        events = []
        its = set(it for _, it in _seq_loops(f))
        for c in f.calls():
            if c["k"] != "mcall" or c.get("cconst"):
                continue
            obj = f.call_obj(c)
            if obj is None:
                continue
            r = f.root(obj)
            # (a) non-const call on the sequence of the receiver (this->sequence / x.sequence with x = *this)
            if obj["k"] in ("member", "ref") and r[-1:] == ("sequence",) and r[0] == "this" and f.call_name(c) not in ("begin", "end", "size", "empty", "rbegin", "rend", "pointset"):
                events.append((c, "sequence.%s()" % f.call_name(c)))
            # (b) non-const operation on a disjunct reached through pointset()
            if obj["k"] == "mcall" and f.call_name(obj) == "pointset" and not obj.get("cconst"):
                base = f.call_obj(obj)
                if base is not None and (f.root(base)[0] in ("this",) or any(x["k"] == "ref" and x.get("n") in its for x in f.walk(base))):
                    events.append((c, "%s() on a disjunct" % f.call_name(c)))
        if not events:
            continue
        seen.add(key)
        if f.kind == "ctor":
            ri = [i for i in (f.j.get("inits") or []) if i.get("member") == "reduced"]
            if ri:
                e = f.nodes.get(ri[0]["e"]["i"]) if isinstance(ri[0].get("e"), dict) and "i" in ri[0]["e"] else None
                txt = f.text(e).replace(" ", "") if e is not None else ""
                if txt in ("false", "0") or txt.endswith(".reduced"):
                    for c, what in events:
                        n += 1
                        ctx.ok(rid, "%s::%s %s (line %s) [constructed with reduced(%s)]" % (f.clsn, f.name, what, c.get("l"), txt), f.where(c))
                    continue

        def discharged(x):
            if x["k"] == "assign":
                l = f.deref(x["c"][0])
                if l is not None and f.root(l)[-1:] == ("reduced",) and f.root(l)[0] == "this":
                    rt = f.text(f.deref(x["c"][1])).replace(" ", "")
                    return rt in ("false", "0") or rt.endswith(".reduced")
            if x["k"] == "mcall" and f.call_name(x) in R94_DISCHARGE:
                o = f.call_obj(x)
                return o is None or f.root(o) == ("this",)
            return False
        def nonempty_edge(tc, taken):
            pol = True
            x = tc
            while x is not None and (x["k"] in ("cast", "paren") or (x["k"] == "unop" and x.get("op") == "!")):
                if x["k"] == "unop":
                    pol = not pol
                x = f.deref(x["c"][0])
            if x is None:
                return False
            if x["k"] == "mcall" and f.call_name(x) in ("is_empty", "is_bottom", "marked_empty"):
                return taken != pol          # the edge on which the source is not empty
            if x["k"] in ("binop", "ocall") and x.get("op") == "==" and "UNIVERSE" in f.text(x):
                return taken == pol
            return False
        for c, what in events:
            n += 1
            inst = "%s::%s %s (line %s)" % (f.clsn, f.name, what, c.get("l"))
            p = flow.must_follow(f, c, discharged, track_env=False)
            if p is not None and f.kind == "ctor" and what == "sequence.push_back()" and not any(a["k"] in ("for", "while", "do") for a in f.ancestors(c)):
                # the first and only disjunct of a fresh object: reduced as long as it is not empty
                p2 = flow.must_precede(f, c, discharged, edge_satisfied=nonempty_edge, track_env=False)
                if p2 is None:
                    ctx.ok(rid, inst + " [single disjunct, known non-empty or claim withdrawn]", f.where(c))
                    continue
            if p is not None:
                # the claim withdrawn beforehand on every path, and nothing in the function sets it again
                def withdrawn(x):
                    if x["k"] != "assign":
                        return False
                    l = f.deref(x["c"][0])
                    return l is not None and f.root(l)[-1:] == ("reduced",) and f.text(f.deref(x["c"][1])).replace(" ", "") in ("false", "0")
                resets = any((x["k"] == "mcall" and f.call_name(x) in ("omega_reduce", "pairwise_reduce")) or
                             (x["k"] == "assign" and f.deref(x["c"][0]) is not None and f.root(f.deref(x["c"][0]))[-1:] == ("reduced",) and not withdrawn(x))
                             for x in f.walk())
                if not resets and flow.must_precede(f, c, withdrawn, track_env=False) is None:
                    p = None
            if p is None:
                ctx.ok(rid, inst, f.where(c))
            elif f.name in R94_KEEPS:
                ctx.excepted(rid, inst, f.where(c), R94_KEEPS[f.name])
            else:
                ctx.violation(rid, inst, f.where(c), "the disjuncts change and a path reaches the exit with the omega-reduction claim untouched (%s): omega_reduce() and the comparisons then trust a sequence that may hold entailed disjuncts" % flow.render_path(f, p))
    ctx.floor(rid, n, 30, "disjunct-changing events")


def r9_6(ctx, fx):
    import re
    rid = "R9.6"
    ctx.rule(rid, "validation does not depend on there being a disjunct: a dimension-changing member of Pointset_Powerset that takes variables, a set of variables or a new dimension leaves the check of that argument to the base operation it applies to each disjunct — which runs zero times on a powerset without disjuncts (and, for remove_higher_space_dimensions, not at all when the new dimension is larger). For every such argument the member itself holds, outside any loop, a test mentioning the argument (or a local computed from it) whose branch throws; otherwise the powerset's own space_dim is changed by an argument nobody validated (removing {5,6,7} from an empty 2-dimensional powerset leaves dimension 2^64 - 1)")
    n = 0
    seen = set()
    for f in fx.functions:
        if f.clsn != "Pointset_Powerset" or f.name not in ("remove_space_dimensions", "remove_higher_space_dimensions", "expand_space_dimension", "fold_space_dimensions") or (f.name, len(f.params)) in seen:
            continue
        if not f.flag("pattern") and any(g.name == f.name and g.flag("pattern") for g in fx.functions if g.clsn == f.clsn):
            pass
        seen.add((f.name, len(f.params)))
        for q in f.params:
            if not q["n"] or not (re.search(r"Variable|Variables_Set", q["t"]) or "new_dim" in q["n"]):
                continue
            n += 1
            inst = "Pointset_Powerset::%s(%s)" % (f.name, q["n"])
            dset = set([q["n"]])
            changed = True
            while changed:
                changed = False
                for v in f.walk():
                    if v["k"] == "var" and v.get("c") and v["n"] not in dset and any(y["k"] == "ref" and y.get("n") in dset for c_ in v["c"] for y in f.walk(f.deref(c_))):
                        dset.add(v["n"])
                        changed = True
            ok = False
            for i_ in f.walk():
                if i_["k"] != "if" or any(a["k"] in ("for", "while", "do") for a in f.ancestors(i_)):
                    continue
                cond, then = f.deref(i_["c"][2]), f.deref(i_["c"][3])
                if any(y["k"] == "ref" and y.get("n") in dset for y in f.walk(cond)) and \
                        any(y["k"] == "throw" or (y["k"] in ("call", "mcall") and f.call_name(y).startswith("throw_")) for y in f.walk(then)):
                    ok = True
            if ok:
                ctx.ok(rid, inst, f.where())
            else:
                ctx.violation(rid, inst, f.where(), "`%s` is checked only by the operation applied to each disjunct: with no disjunct (or, for a larger new dimension, never) nothing rejects it and space_dim is updated from it" % q["n"])
    ctx.floor(rid, n, 5, "dimensioned arguments of powerset dimension changers")


def r9_5(ctx):
    from rules.c14 import units_alloc
    rid = "R9.5"
    ctx.rule(rid, "search flags are per iteration: a bool local that an inner loop sets to true (`found`) and that the enclosing loop reads — in the inner loop's condition or after the inner loop — is declared in the body of the enclosing loop or reset to false there, unless the enclosing loop's own condition stops on it; a flag hoisted out of the enclosing loop keeps the verdict of an earlier iteration (Pointset_Powerset::contains(y) would accept every disjunct of y after the first contained one). Judged on the whole library; the powerset containment tests are two of the instances")
    fx = ctx.extract(units_alloc())
    n = 0
    seen = set()

    def assigns(f, a, name, vals):
        if a["k"] != "assign":
            return False
        l, r = f.deref(a["c"][0]), f.deref(a["c"][1])
        return l is not None and l["k"] == "ref" and l.get("n") == name and r is not None and f.text(r).strip() in vals
    for f in fx.functions:
        if (f.relfile, f.line) in seen:
            continue
        seen.add((f.relfile, f.line))
        for l2 in f.walk():
            if l2["k"] not in ("for", "while", "do"):
                continue
            outer = [a for a in f.ancestors(l2) if a["k"] in ("for", "while", "do")]
            if not outer:
                continue
            l1 = outer[0]
            l1body, l2body = f.deref(l1["c"][-1]), f.deref(l2["c"][-1])
            if l1body is None or l2body is None:
                continue
            names = set()
            for a in f.walk(l2body):
                if a["k"] == "assign":
                    l = f.deref(a["c"][0])
                    if l is not None and l["k"] == "ref" and l.get("dk") == "local" and "bool" in l.get("t", "") and assigns(f, a, l["n"], ("true", "1")):
                        names.add(l["n"])
            for fl in sorted(names):
                lhs_ids = set(f.deref(a["c"][0])["i"] for a in f.walk(l1body) if a["k"] == "assign" and f.deref(a["c"][0]) is not None)
                reads = [x for x in f.walk(l1body) if x["k"] == "ref" and x.get("n") == fl and not f.within(x, l2body) and x["i"] not in lhs_ids]
                if not reads:
                    continue
                n += 1
                inst = "%s::%s flag `%s` set in the loop at line %s" % (f.clsn or "", f.name, fl, l2.get("l"))
                decl = [v for v in f.walk(l1body) if v["k"] == "var" and v.get("n") == fl]
                resets = [a for a in f.walk(l1body) if assigns(f, a, fl, ("false", "0"))]
                conds = [f.deref(c) for c in l1.get("c", ())[:-1] if f.deref(c) is not None]
                stops = any(x["k"] == "ref" and x.get("n") == fl for c in conds for x in f.walk(c))
                if decl or resets:
                    ctx.ok(rid, inst, f.where(l2))
                elif stops:
                    ctx.ok(rid, inst + " [the enclosing loop stops on it]", f.where(l2))
                else:
                    ctx.violation(rid, inst, f.where(l2), "`%s` is set by the inner loop and read by the enclosing loop (line %s), but it is neither declared nor reset inside the enclosing loop: from the second iteration on it still holds the earlier verdict" % (fl, reads[0].get("l")))
    ctx.floor(rid, n, 15, "search flags shared by nested loops")


DIM_CHANGERS = ("add_space_dimensions_and_embed", "add_space_dimensions_and_project", "remove_space_dimensions",
                "remove_higher_space_dimensions", "map_space_dimensions", "expand_space_dimension",
                "fold_space_dimensions", "concatenate_assign")


def r9_3(ctx, fx):
    rid = "R9.3"
    ctx.rule(rid, "each dimension-changing member of Pointset_Powerset writes the powerset's own space_dim on every normal path that changes the disjuncts (or returns before touching them)")
    n = 0
    for f in fx.functions:
        if f.clsn != "Pointset_Powerset" or f.flag("pattern") or f.name not in DIM_CHANGERS:
            continue
        if not any("C_Polyhedron" in (f.cls or "") for _ in [0]):
            continue
        n += 1
        inst = F.strip_ns(f.sig())
        writes = [wn for wn, r, how in E.writes(f) if r[:2] == ("this", "space_dim")
                  or (r == ("this",) and how in ("call:m_swap", "arg:swap", "call:operator="))]
        if not writes:
            ctx.violation(rid, inst, f.where(), "never updates space_dim")
            continue
        # every call that transforms a disjunct's dimension must be followed by a write of space_dim
        bad = None
        for c in f.calls():
            if c["k"] == "mcall" and f.call_name(c) in DIM_CHANGERS and f.call_obj(c) is not None \
                    and f.root(f.call_obj(c))[:2] == ("this", "sequence"):
                p = flow.must_follow(f, c, lambda x: any(x is w for w in writes) or x["i"] in set(w["i"] for w in writes))
                if p is not None:
                    bad = (c, p)
                    break
        if bad:
            ctx.violation(rid, inst, f.where(bad[0]), "disjuncts change dimension but a path leaves space_dim as it was: " + flow.render_path(f, bad[1]))
        else:
            ctx.ok(rid, inst, f.where())
    ctx.floor(rid, n, 7, "dimension-changing members")


def r9_7(ctx):
    from pplv import absint
    rid = "R9.7"
    ctx.rule(rid, "the complement of a constraint flips its strictness: linear_partition_aux adds to the remainder the part of the set that violates `c`, built from the same expression: the complement of `e > 0` is `e <= 0` and the complement of `e >= 0` is `e < 0`; with the strictness the wrong way round the pieces of a partition overlap on the hyperplane (or leave it out). The initialiser of the negated constraint is interpreted on the two kinds of inequality (equalities are split by the caller)")
    fx = ctx.extract([F.driver_unit("domains.cc", file_re=r"Pointset_Powerset_templates\.hh")])
    n = 0
    for f in fx.functions:
        if f.name != "linear_partition_aux" or not f.flag("pattern"):
            continue
        cn_ = f.params[0]["n"]
        negs = [v for v in f.walk() if v["k"] == "var" and v.get("c") and "Constraint" in (v.get("t") or "") and v.get("n", "").startswith("neg")]
        ctx.require(rid, len(negs) == 1, "linear_partition_aux: the negated constraint is no longer a single local named neg_*")
        init = negs[0]["c"][-1]
        for kind, want in (("STRICT", "<="), ("NONSTRICT", "<")):
            def atom(e, env, it, kind=kind):
                k = e["k"]
                t = f.text(e).replace(" ", "")
                if k in ("binop", "ocall") and e.get("op") in ("<", "<=", ">", ">=", "==") and "Constraint" in (e.get("t") or e.get("rt") or ""):
                    r = f.deref(e["c"][-1])
                    if r is not None and (f.text(r).strip() == "0" or [y for y in f.walk(r) if y["k"] == "int" and f.text(y).strip() == "0"]):
                        return {e["op"]}
                    return None
                if k in ("call", "mcall") and t.startswith(cn_ + "."):
                    cn = f.call_name(e).lstrip("~")
                    if cn == "is_strict_inequality":
                        return {kind == "STRICT"}
                    if cn == "is_nonstrict_inequality":
                        return {kind == "NONSTRICT"}
                    if cn == "is_inequality":
                        return {True}
                    if cn == "is_equality":
                        return {False}
                if k in ("construct", "cast", "icast", "paren", "temp", "bind") and len(e.get("c", ())) == 1:
                    return it.ev(e["c"][0], env)
                return None
            it = absint.CfgInterp(f, atom)
            try:
                got = it.ev(init, {})
            except absint.Unknown as ex:
                raise F.AnalysisBroken("R9.7: linear_partition_aux: %s — the interpretation does not know this form" % ex)
            n += 1
            inst = "linear_partition_aux: complement of a %s inequality" % kind.lower()
            if got == {want}:
                ctx.ok(rid, inst, f.where(negs[0]))
            else:
                ctx.violation(rid, inst, f.where(negs[0]), "the complement of `e %s 0` is built as `e %s 0`; it is `e %s 0`" % (">" if kind == "STRICT" else ">=", " or ".join(sorted(str(g) for g in got)), want))
        break
    ctx.floor(rid, n, 2, "kinds of inequality interpreted")


# members that leave their receiver omega-reduced: omega_reduce itself, and pairwise_reduce, which starts with it
R98_ESTABLISH = ("omega_reduce", "pairwise_reduce")


def r9_8(ctx):
    import re
    rid = "R9.8"
    ctx.rule(rid, "certificates are collected on omega-reduced powersets only: collect_certificates() counts one certificate per disjunct and asserts (in debug builds only) that its receiver is omega-reduced — a redundant disjunct changes the multiset and with it the outcome of the widening. The members that start with such an assertion on an operand (read from the source text, the assertion being compiled away) form the table; a member of Pointset_Powerset that calls one of them on its receiver or on a parameter either carries the same assertion for that operand or has called omega_reduce() on it on every path to the call")
    fx = ctx.extract([F.driver_unit("domains.cc", file_re=r"(Pointset_Powerset|Powerset)_(templates|inlines)\.hh")])
    funcs = {}
    for f in fx.functions:
        if f.flag("pattern") and f.clsn in ("Pointset_Powerset", "Powerset") and f.cfg:
            funcs.setdefault((f.relfile, f.line), f)
    src_cache = {}

    def asserted(f):
        """operands ('this' or a parameter name) the body asserts to be omega-reduced"""
        if f.file not in src_cache:
            src_cache[f.file] = open(f.file).read().split("\n")
        lines = src_cache[f.file][f.line - 1:f.j.get("endline", f.line + 200)]
        out = set()
        started = False
        in_debug = False
        for ln in lines:
            t = ln.strip()
            if not started:
                if "{" in t:
                    started = True
                continue
            if t.startswith("#ifndef NDEBUG"):
                in_debug = True
                continue
            if in_debug:
                if t.startswith("#endif"):
                    in_debug = False
                continue
            # the precondition block: assertions, comments, the alias of the receiver
            m = re.match(r"^PPL_ASSERT(?:_HEAVY)?\(\s*(?:(\w+)\.)?is_omega_reduced\(\)\s*\);$", t)
            if m:
                out.add("this" if m.group(1) in (None, "x") else m.group(1))
                continue
            if not t or t.startswith("//") or t.startswith("PPL_ASSERT") or re.match(r"^(const\s+)?[A-Za-z_:<>]+&\s+x\s*=\s*\*this;$", t):
                continue
            break
        return out
    requires = {}
    for f in funcs.values():
        a = asserted(f)
        if "this" in a:
            requires[f.name] = "asserts it"
    changed = True
    while changed:          # a member that hands its unreduced receiver to a requiring member requires it too
        changed = False
        for f in funcs.values():
            if f.name in requires or f.name in ("omega_reduce", "is_omega_reduced"):
                continue
            for c in f.calls():
                if f.call_name(c).lstrip("~") in requires and c["k"] == "mcall":
                    o = f.call_obj(c)
                    ot = f.text(f.deref(o)).strip() if o is not None else "this"
                    if ot in ("this", "x", "(*this)", "*this") or o is None:
                        red = lambda nod: nod["k"] == "mcall" and f.call_name(nod).lstrip("~") in R98_ESTABLISH and (f.call_obj(nod) is None or f.text(f.deref(f.call_obj(nod))).strip() in ("x", "*this", "(*this)"))
                        if flow.must_precede(f, c, red) is not None:
                            requires[f.name] = "passes its receiver to %s" % f.call_name(c)
                            changed = True
                            break
    ctx.require(rid, "collect_certificates" in requires, "collect_certificates no longer asserts that its receiver is omega-reduced")
    n = 0
    for f in sorted(funcs.values(), key=lambda g: (g.relfile, g.line)):
        if f.j.get("access") != "public":
            continue
        pnames = set(p["n"] for p in f.params if p["n"])
        for c in f.calls():
            cn = f.call_name(c).lstrip("~")
            if cn not in requires or c["k"] != "mcall":
                continue
            o = f.call_obj(c)
            ot = f.text(f.deref(o)).strip() if o is not None else "this"
            if ot in ("x", "*this", "(*this)"):
                ot = "this"
            if ot != "this" and ot not in pnames:
                continue          # a local: its reduction state follows from how it was built, not judged
            n += 1
            inst = "%s: %s.%s() (line %s)" % (f.name, ot, cn, c.get("l"))
            if ot in asserted(f) or (ot == "this" and f.name in requires and requires[f.name] == "asserts it"):
                ctx.ok(rid, inst, f.where(c))
                continue

            def red(nod, ot=ot):
                if nod["k"] != "mcall" or f.call_name(nod).lstrip("~") not in R98_ESTABLISH:
                    return False
                oo = f.call_obj(nod)
                t = f.text(f.deref(oo)).strip() if oo is not None else "this"
                if t in ("x", "*this", "(*this)"):
                    t = "this"
                return t == ot
            bad = flow.must_precede(f, c, red)
            if bad is None:
                ctx.ok(rid, inst, f.where(c))
            else:
                ctx.violation(rid, inst, f.where(c), "`%s` requires an omega-reduced operand (%s) and `%s` has not been reduced on this path (%s): a redundant disjunct changes the certificates and the result of the widening" % (cn, requires[cn], ot if ot != "this" else "*this", flow.render_path(f, bad)))
    ctx.floor(rid, n, 3, "calls of members that need an omega-reduced operand")


def run(ctx):
    ctx.explanation = ("C09 structural clauses on Determinate<PSET> and Pointset_Powerset<C_Polyhedron|NNC_Polyhedron|Grid>: copy-on-write discipline, "
                       "uniform lifting of base operations to every disjunct, dimension bookkeeping; decides these clauses, not that reductions preserve the union")
    ctx.assumptions = ["omega-reduction, pairwise merge and linear_partition preserving the union is numeric: not decided",
                       "R9.4 decides that the omega-reduction claim is withdrawn whenever the disjuncts change, not that omega_reduce() itself keeps the union"]
    fx = ctx.extract(units(ctx.tier))
    r9_1(ctx, fx)
    r9_2(ctx, fx)
    r9_3(ctx, fx)
    r9_4(ctx, fx)
    r9_5(ctx)
    r9_6(ctx, fx)
    r9_7(ctx)
    r9_8(ctx)
