"""C09 — powersets denote the union of their disjuncts.

R9.1 COW          Determinate<PSET>: every non-const access to the shared representation
                  (prep->pset) is preceded by mutate() on every path; mutate() copies
                  before it drops the shared reference
R9.2 LIFT-ALL     every per-disjunct transformer of Pointset_Powerset applies the same-named
                  base operation, with its own parameters in order, to EVERY disjunct
R9.3 DIM-TRACK    dimension-changing transformers update the powerset's own space_dim
That omega-reduction / pairwise merge / linear_partition preserve the union is numeric: not decided.
"""
from pplv import facts as F
from pplv import effects as E
from pplv import flow

PSETS = ("C_Polyhedron", "NNC_Polyhedron", "Grid")


def units(tier):
    return [F.driver_unit("domains.cc", file_re=r"(Determinate|Powerset|Pointset_Powerset)_(inlines|templates)\.hh|Pointset_Powerset\.cc",
                          class_re=r"Determinate|Powerset")]


def r9_1(ctx, fx):
    rid = "R9.1"
    ctx.rule(rid, "copy-on-write: in Determinate<PSET> every non-const use of prep->pset (non-const member call, assignment, non-const reference argument, non-const reference return) is preceded on every path by mutate(); mutate() builds the private copy before releasing the shared one")
    n = 0
    funcs = [f for f in fx.functions if f.clsn == "Determinate" and not f.flag("pattern")]
    ctx.require(rid, len(funcs) >= 20, "Determinate<PSET> members not found (%d)" % len(funcs))
    for f in funcs:
        if f.kind in ("ctor", "dtor") or f.name == "mutate":
            continue
        events = []
        for wn, r, how in E.writes(f):
            if r[:3] == ("this", "prep", "pset"):
                events.append((wn, how))
        rt = f.j.get("ret", "")
        if rt.endswith("&") and not rt.startswith("const "):
            for rn in f.walk():
                if rn["k"] == "return" and rn.get("c"):
                    if f.root(rn["c"][0])[:3] == ("this", "prep", "pset"):
                        events.append((rn, "returned as non-const reference"))
        for wn, how in events:
            n += 1
            inst = "%s %s" % (F.strip_ns(f.sig()), how)
            path = flow.must_precede(f, wn, lambda x: x["k"] == "mcall" and f.call_name(x) == "mutate"
                                     and f.call_obj(x) is not None and f.root(f.call_obj(x)) == ("this",))
            if path is None:
                ctx.ok(rid, inst, f.where(wn))
            else:
                ctx.violation(rid, inst, f.where(wn),
                              "the shared representation is modified (or handed out writable) without mutate(): copies sharing it change too: %s" % flow.render_path(f, path))
    # mutate() itself
    for f in funcs:
        if f.name != "mutate":
            continue
        n += 1
        news = [x for x in f.walk() if x["k"] == "new"]
        dels = [x for x in f.calls() if f.call_name(x) == "del_reference"]
        inst = "mutate() copies before releasing"
        if len(news) != 1 or len(dels) != 1:
            ctx.violation(rid, inst, f.where(), "expected exactly one new Rep(...) and one del_reference() (found %d / %d)" % (len(news), len(dels)))
            continue
        p = flow.must_precede(f, dels[0], lambda x: x is news[0])
        arg_ok = any(x["k"] == "member" and x.get("n") == "pset" for x in f.walk(news[0]))
        shared = [b for b in f.walk() if b["k"] == "if" and "is_shared" in f.text(f.deref(b["c"][2]))]
        if p is not None or not arg_ok or not shared:
            ctx.violation(rid, inst, f.where(), "mutate() does not have the shape `if (is_shared) { copy = new Rep(prep->pset); del_reference(); ... }`")
        else:
            ctx.ok(rid, inst, f.where())
    # nobody else reaches into Rep::pset
    outsiders = 0
    for f in fx.functions:
        if f.clsn in ("Determinate", "Rep") or f.flag("pattern"):
            continue
        for x in f.walk():
            if x["k"] == "member" and x.get("n") == "pset" and "Determinate" in x.get("t", "") + f.text(x):
                outsiders += 1
                ctx.violation(rid, "%s reaches Rep::pset" % f.sig(), f.where(x), "a function outside Determinate accesses the shared representation directly")
    ctx.count(rid, "outside_accesses", outsiders)
    ctx.floor(rid, n, 3, "non-const representation accesses + mutate shape")


def _seq_loops(f):
    """for-loops iterating `sequence` of *this with an iterator variable."""
    for n in f.walk():
        if n["k"] != "for":
            continue
        init = f.deref(n["c"][0])
        if init is None:
            continue
        vars_ = [v for v in f.walk(init) if v["k"] == "var"]
        it = None
        for v in vars_:
            i0 = v.get("c", ())
            if i0 and i0[0] is not None:
                t = f.text(i0[0])
                if "sequence.begin()" in t or t.endswith("begin()"):
                    r = f.root(i0[0])
                    if r[:2] == ("this", "sequence") or r == ("this",):
                        it = v["n"]
        if it:
            yield n, it


def r9_2(ctx, fx):
    rid = "R9.2"
    ctx.rule(rid, "lifting: each non-const member of Pointset_Powerset that applies a base operation to `it->pointset()` inside a loop over the disjunct sequence applies the operation named like the member itself, passes its own parameters in declaration order, and the loop has no break / return / continue (every disjunct is transformed)")
    n = 0
    seen = set()
    for f in fx.functions:
        if f.clsn != "Pointset_Powerset" or f.flag("pattern") or f.flag("const") or f.kind != "method":
            continue
        for loop, it in _seq_loops(f):
            body = f.deref(loop["c"][3])
            calls = []
            for c in f.calls(body):
                if c["k"] != "mcall":
                    continue
                obj = f.call_obj(c)
                if obj is not None and obj["k"] == "mcall" and f.call_name(obj) == "pointset" and not obj.get("cconst") \
                        and any(x["k"] == "ref" and x.get("n") == it for x in f.walk(f.call_obj(obj))):
                    calls.append(c)
            if not calls:
                continue
            key = (f.sig(), f.call_name(calls[0]))
            if key in seen:
                continue
            seen.add(key)
            n += 1
            inst = "%s lifts %s" % (F.strip_ns(f.sig()), f.call_name(calls[0]))
            where = f.where(calls[0])
            problems = []
            for c in calls:
                if f.call_name(c) != f.name:
                    problems.append("applies `%s` to the disjuncts of `%s`" % (f.call_name(c), f.name))
                args = [f.text(a) for a in f.call_args(c)]
                params = [p["n"] for p in f.params]
                # arguments may be wrapped copies (Variable(v)); compare the parameter names mentioned
                names = []
                for a in f.call_args(c):
                    rs = [x["n"] for x in f.walk(a) if x["k"] == "ref" and x.get("dk") == "param"]
                    names.append(rs[0] if rs else f.text(a))
                extra = names[len(params):]
                extra_ok = all(not any(x["k"] == "ref" and x.get("dk") == "param" for x in f.walk(a))
                               for a in f.call_args(c)[len(params):])   # defaulted trailing arguments of the base operation
                if names[:len(params)] != params or not extra_ok:
                    problems.append("passes (%s) for parameters (%s)" % (", ".join(args), ", ".join(params)))
            jumps = [x for x in f.walk(body) if x["k"] in ("break", "return", "continue", "goto", "throw")]
            if jumps:
                problems.append("loop over the disjuncts can leave/skip an iteration (%s at line %s)" % (jumps[0]["k"], jumps[0].get("l")))
            cond = f.deref(loop["c"][1])
            inc = f.deref(loop["c"][2])
            if cond is None or "!=" not in f.text(cond) or inc is None or "++" not in f.text(inc):
                problems.append("loop is not the full `it != end; ++it` traversal: `%s; %s`" % (f.text(cond), f.text(inc)))
            if problems:
                ctx.violation(rid, inst, where, "; ".join(problems))
            else:
                ctx.ok(rid, inst, where)
    ctx.floor(rid, n, 25, "lifted transformers (one instantiation each)")


DIM_CHANGERS = ("add_space_dimensions_and_embed", "add_space_dimensions_and_project", "remove_space_dimensions",
                "remove_higher_space_dimensions", "map_space_dimensions", "expand_space_dimension",
                "fold_space_dimensions", "concatenate_assign")


def r9_3(ctx, fx):
    rid = "R9.3"
    ctx.rule(rid, "each dimension-changing member of Pointset_Powerset writes the powerset's own space_dim on every normal path that changes the disjuncts (or returns before touching them)")
    n = 0
    for f in fx.functions:
        if f.clsn != "Pointset_Powerset" or f.flag("pattern") or f.name not in DIM_CHANGERS:
            continue
        if not any("C_Polyhedron" in (f.cls or "") for _ in [0]):
            continue
        n += 1
        inst = F.strip_ns(f.sig())
        writes = [wn for wn, r, how in E.writes(f) if r[:2] == ("this", "space_dim")
                  or (r == ("this",) and how in ("call:m_swap", "arg:swap", "call:operator="))]
        if not writes:
            ctx.violation(rid, inst, f.where(), "never updates space_dim")
            continue
        # every call that transforms a disjunct's dimension must be followed by a write of space_dim
        bad = None
        for c in f.calls():
            if c["k"] == "mcall" and f.call_name(c) in DIM_CHANGERS and f.call_obj(c) is not None \
                    and f.root(f.call_obj(c))[:2] == ("this", "sequence"):
                p = flow.must_follow(f, c, lambda x: any(x is w for w in writes) or x["i"] in set(w["i"] for w in writes))
                if p is not None:
                    bad = (c, p)
                    break
        if bad:
            ctx.violation(rid, inst, f.where(bad[0]), "disjuncts change dimension but a path leaves space_dim as it was: " + flow.render_path(f, bad[1]))
        else:
            ctx.ok(rid, inst, f.where())
    ctx.floor(rid, n, 7, "dimension-changing members")


def run(ctx):
    ctx.explanation = ("C09 structural clauses on Determinate<PSET> and Pointset_Powerset<C_Polyhedron|NNC_Polyhedron|Grid>: copy-on-write discipline, "
                       "uniform lifting of base operations to every disjunct, dimension bookkeeping; decides these clauses, not that reductions preserve the union")
    ctx.assumptions = ["omega-reduction, pairwise merge and linear_partition preserving the union is numeric: not decided",
                       "reduced-flag hygiene is not a deciding clause (a stale flag costs precision, not the union)"]
    fx = ctx.extract(units(ctx.tier))
    r9_1(ctx, fx)
    r9_2(ctx, fx)
    r9_3(ctx, fx)
