"""C06 — MIP solver: the incremental clause (every input change invalidates the cached verdict).

R6.1 DOWNGRADE          input write => status within the allowed set on every path
R6.2 STATUS-EXHAUSTIVE  every switch(status) names all five enumerators
R6.5 SWAP-REMOVE        a row swapped into the current position of a forward loop is re-examined
Numeric clauses (status/optimum/witness, pivoting, branch and bound) are not decided.
"""
from pplv import facts as F
from rules import solver_common as S
from rules import idioms

ALL = ("UNSATISFIABLE", "SATISFIABLE", "UNBOUNDED", "OPTIMIZED", "PARTIALLY_SATISFIABLE")
FEAS = ("feasibility", ("UNSATISFIABLE", "PARTIALLY_SATISFIABLE"))
OBJ = ("objective", ("UNSATISFIABLE", "SATISFIABLE", "PARTIALLY_SATISFIABLE"))
KINDS = {
    "input_cs": FEAS, "external_space_dim": FEAS, "i_variables": FEAS,
    "input_obj_function": OBJ, "opt_mode": OBJ,
}
REPLACEMENTS = {
    "operator=": "copy-and-swap: the whole state, status included, is replaced by the copy's",
    "m_swap": "swaps every member, status included (member coverage is R13.3's business)",
    "clear": "swap with a freshly constructed problem",
    "ascii_load": "loads every member, status included, from the dump",
}


def r6_3(ctx, fx):
    """Observers (const members) may update solver state through the const_cast
    alias but never the problem inputs."""
    from pplv import effects as E
    rid = "R6.3"
    ctx.rule(rid, "no const member of MIP_Problem may write a problem input (input_cs, external_space_dim, i_variables, input_obj_function, opt_mode), directly, through a const_cast alias of *this, or through a same-object callee")
    summ = E.Summaries(fx, "MIP_Problem")
    n = 0
    aliasing = 0
    for f in fx.functions:
        if f.clsn != "MIP_Problem" or not f.flag("const") or f.kind != "method":
            continue
        n += 1
        if any(x["k"] == "cast" and x.get("ck") == "const_cast" for x in f.walk()):
            aliasing += 1
        mw = summ.may_write(f) & set(KINDS)
        inst = f.sig()
        if mw:
            ctx.violation(rid, inst, f.where(), "const member may write problem input(s): " + ", ".join(sorted(mw)))
        else:
            ctx.ok(rid, inst, f.where())
    ctx.count(rid, "const_members_with_const_cast", aliasing)
    ctx.floor(rid, n, 20, "const members of MIP_Problem")
    ctx.floor(rid, aliasing, 2, "const members that alias *this through const_cast (solve, is_satisfiable)")


def r6_4(ctx, fx):
    """The cached witness is handed out only after a successful solve."""
    from pplv import flow
    rid = "R6.4"
    ctx.rule(rid, "every `return last_generator` of a public member is reached only through the true edge of `is_satisfiable()` or `solve() == OPTIMIZED_MIP_PROBLEM` (otherwise the function throws)")
    n = 0
    for f in fx.functions:
        if f.clsn != "MIP_Problem" or f.j.get("access") != "public":
            continue
        for r in f.walk():
            if r["k"] != "return":
                continue
            if not any(x["k"] == "member" and x.get("n") == "last_generator" and f.root(x) == ("this", "last_generator")
                       for x in f.walk(r)):
                continue
            n += 1
            inst = "%s returns last_generator" % f.sig()

            def guard(cond, taken, f=f):
                if not taken:
                    return False
                cond = f.deref(cond)
                t = f.text(cond)
                return t in ("is_satisfiable()", "solve() == OPTIMIZED_MIP_PROBLEM", "OPTIMIZED_MIP_PROBLEM == solve()")
            path = flow.must_precede(f, r, lambda x: False, edge_satisfied=guard)
            if path is None:
                ctx.ok(rid, inst, f.where(r))
            else:
                ctx.violation(rid, inst, f.where(r), "cached witness returned on a path without a successful solve: " + flow.render_path(f, path))
    ctx.floor(rid, n, 2, "public members returning last_generator")


def r6_7(ctx, fx):
    from pplv import flow
    rid = "R6.7"
    ctx.rule(rid, "witness follows the tableau: the cached point last_generator is what later additions of constraints are tested against to decide whether the basis stays feasible. Every run of a pivoting routine (compute_simplex_using_steepest_edge_float / compute_simplex_using_exact_pricing) in MIP_Problem is followed, on every path to the exit, by compute_generator() (which re-reads the point from the tableau) or by the verdict UNSATISFIABLE (no point is claimed)")
    n = 0
    seen = set()
    for f in fx.functions:
        if f.clsn != "MIP_Problem" or f.flag("pattern") or not f.cfg or (f.relfile, f.line) in seen:
            continue
        seen.add((f.relfile, f.line))
        if f.name.startswith("compute_simplex_using"):
            continue
        for c in f.calls():
            if not (f.call_name(c) or "").startswith("compute_simplex_using"):
                continue
            n += 1
            inst = "MIP_Problem::%s after %s" % (f.name, f.call_name(c))

            def ok(y):
                if y["k"] in ("mcall", "call") and f.call_name(y) == "compute_generator":
                    return True
                if y["k"] == "assign":
                    l, r = f.deref(y["c"][0]), f.deref(y["c"][1])
                    return l is not None and l.get("n") == "status" and r is not None and "UNSATISFIABLE" in f.text(r) and "?" not in f.text(r)
                return False
            p = flow.must_follow(f, c, ok)
            if p is None:
                ctx.ok(rid, inst, f.where(c))
            else:
                ctx.violation(rid, inst, f.where(c), "the tableau is pivoted but a path returns with the old last_generator still cached (%s): a constraint added later is tested against a point that is not the current vertex" % flow.render_path(f, p))
    ctx.floor(rid, n, 4, "pivoting runs")


def r6_8(ctx, fx):
    from pplv import flow
    rid = "R6.8"
    ctx.rule(rid, "facts read off the witness do not outlive a change of the tableau: a local that a callee fills from tests against the cached point (an out-parameter written under `is_satisfied(c, last_generator)` / `is_saturated(..)`: which pending inequalities already hold and need no artificial variable) is not read after a call of merge_split_variable() — which can make a tableau row unfeasible, so that the tableau no longer sits on that point — unless every path from the call to the read rewrites the local or passes a test, on what the merges reported, whose taken branch rewrites it. Otherwise a pending inequality enters the basis through its slack on the word of a stale point, and the incremental solve answers differently from a fresh one")
    ms = [f for f in fx.functions if f.clsn == "MIP_Problem" and f.cfg and not f.flag("pattern")]
    # 1. out-parameters filled from tests against the witness
    derived = {}
    for g in ms:
        for i_ in g.walk():
            if i_["k"] != "if":
                continue
            cond = g.deref(i_["c"][2])
            if not any(g.call_name(c) in ("is_satisfied", "is_saturated") and "last_generator" in g.text(c) for c in g.calls(cond)):
                continue
            for a in g.walk(g.deref(i_["c"][3])):
                if a["k"] in ("assign", "ocall") and (a["k"] == "assign" or a.get("op") == "="):
                    l = g.deref(a["c"][0] if a["k"] == "assign" else a["c"][-2])
                    for x in g.walk(l):
                        if x["k"] == "ref" and x.get("dk") == "param":
                            idx = [k for k, p_ in enumerate(g.params) if p_["n"] == x["n"] and "&" in p_["t"] and "const" not in p_["t"]]
                            if idx:
                                derived[(g.name, len(g.params))] = (idx[0], x["n"])
    ctx.require(rid, len(derived) >= 1, "no out-parameter filled from tests against last_generator was found in MIP_Problem")
    n = 0
    seen = set()
    for f in ms:
        if (f.relfile, f.line) in seen:
            continue
        seen.add((f.relfile, f.line))
        defs = []
        for c in f.calls():
            key = (f.call_name(c), len(f.call_args(c)))
            if key in derived:
                a = f.deref(f.call_args(c)[derived[key][0]])
                if a is not None and a["k"] == "ref" and a.get("dk") == "local":
                    defs.append((c, a["n"]))
        merges = [c for c in f.calls() if f.call_name(c) == "merge_split_variable"]
        for dcall, w in defs:
            for t in merges:
                pos = f.cfg_pos(t)
                if pos is None or flow.Explorer(f, track_env=False).find_path(f.cfg_pos(dcall), lambda x: False, target=lambda x: x["i"] == t["i"]) is None:
                    continue
                n += 1
                inst = "MIP_Problem::%s reads `%s` (filled by %s) after merge_split_variable()" % (f.name, w, f.call_name(dcall))
                # locals written in the loop that holds the merge: what the merges reported
                loop = next((a for a in f.ancestors(t) if a["k"] in ("for", "while", "do")), None)
                reported = set()
                if loop is not None:
                    for x in f.walk(loop):
                        if x["k"] == "mcall" and not x.get("cconst") and f.call_obj(x) is not None and f.call_obj(x)["k"] == "ref" and f.call_obj(x).get("dk") == "local":
                            reported.add(f.call_obj(x)["n"])
                        if x["k"] == "assign" and f.deref(x["c"][0]) is not None and f.deref(x["c"][0])["k"] == "ref" and f.deref(x["c"][0]).get("dk") == "local":
                            reported.add(f.deref(x["c"][0])["n"])

                def writes_w(x, w=w):
                    if x["k"] == "assign":
                        l = f.deref(x["c"][0])
                        return l is not None and any(y["k"] == "ref" and y.get("n") == w for y in f.walk(l))
                    if x["k"] in ("call", "mcall") and f.call_name(x) in ("fill", "assign", "clear", "swap", "resize") and any(y["k"] == "ref" and y.get("n") == w for y in f.walk(x)):
                        return True
                    return False
                guards = set()
                for i_ in f.walk():
                    if i_["k"] == "if" and any(writes_w(x) for x in f.walk(f.deref(i_["c"][3]))) and \
                            any(y["k"] == "ref" and y.get("n") in reported for y in f.walk(f.deref(i_["c"][2]))):
                        for y in f.walk(f.deref(i_["c"][2])):
                            guards.add(y["i"])

                def reads_w(x, w=w):
                    if writes_w(x) or x["i"] in guards:
                        return False
                    if x["k"] in ("call", "mcall") and x["i"] == dcall["i"]:
                        return False
                    return x["k"] == "ref" and x.get("n") == w and not any(writes_w(a) for a in f.ancestors(x))
                p = flow.Explorer(f, track_env=False).find_path(pos, lambda x: writes_w(x) or x["i"] in guards, target=lambda x: any(reads_w(z) for z in f.walk(x)) and not writes_w(x))
                if p is None:
                    ctx.ok(rid, inst, f.where(t))
                else:
                    ctx.violation(rid, inst, f.where(t), "after the merge the tableau may no longer sit on last_generator, yet `%s`, computed against that point, is read without being recomputed or reset (path %s): inequalities it calls satisfied enter the basis without an artificial variable" % (w, flow.render_path(f, p)))
    ctx.floor(rid, n, 1, "witness-derived locals read after a merge")


def units():
    return [F.lib_unit("MIP_Problem.cc"),
            F.driver_unit("all_headers.cc", file_re=r"MIP_Problem_(inlines|templates)\.hh")]


def run(ctx):
    ctx.explanation = ("C06 incremental clause: after any write to a problem input (constraints, space dimension, integer "
                       "variables, objective, optimisation mode) the cached status is downgraded on every path; decided by "
                       "path exploration of the CFG x {possible values of status}. Decides the invalidation clause, not the simplex arithmetic")
    ctx.assumptions = ["solver arithmetic (pivoting, pricing, branch and bound) is not decided",
                       "UNSATISFIABLE is preserved by adding constraints/dimensions/integrality (monotonicity of infeasibility)"]
    fx = ctx.extract(units())
    ctx.rule("R6.1", "after a write to a feasibility input status in {UNSATISFIABLE, PARTIALLY_SATISFIABLE}; after a write to an objective input status not in {UNBOUNDED, OPTIMIZED}; on every normal path")
    S.downgrade(ctx, "R6.1", fx, "MIP_Problem", KINDS, ALL, REPLACEMENTS, floor=7)
    ctx.rule("R6.2", "every switch over status handles all five enumerators")
    S.status_switches(ctx, "R6.2", fx, "MIP_Problem", ALL, floor=4)
    r6_3(ctx, fx)
    r6_4(ctx, fx)
    ctx.rule("R6.5", "swap-remove: in a forward counted loop of MIP_Problem that shrinks its bound and moves the last row into the current position, the index is stepped back on every path before the increment (a tableau row swapped in while erasing the artificials must itself be examined, else its equality is silently dropped in phase 2)")
    k = idioms.swap_remove(ctx, "R6.5", [f for f in fx.functions if f.clsn == "MIP_Problem" and not f.flag("pattern")], "its artificial variable stays basic and its row is no longer enforced")
    ctx.floor("R6.5", k, 1, "swap-remove loops in MIP_Problem")
    r6_7(ctx, fx)
    r6_8(ctx, fx)
    from rules import dirty
    dirty.run(ctx, "R6.6", fx, lambda f: f.file.endswith("MIP_Problem.cc"), 28, "judged on MIP_Problem.cc")
